"""C19 - extension registries behave as sets; runs do not leak state into later runs."""
from __future__ import annotations
import ast
from .report import Report, AnalysisError
from .summary import World, node_events
from .effects import Effects, STRUCTURAL, MUTATING
from .model import dotted, walk_no_nested, FuncRef

LEVEL = 'other'
REGISTRIES = ('_plugins', '_contracts', '_contract_interfaces', 'opcodes', 'opcodes_inverse', 'nopcodes',
              'nopcodes_inverse', 'opcode_aliases', 'additional_opcodes', 'flags', 'flags_to_set',
              '_special_symbols')
ENTRY_POINTS = [('functions', 'run_script'), ('functions', 'run_auth_scripts'), ('functions', 'run_auth_script'),
                ('functions', 'run_tape'), ('parsing', 'compile_script'), ('parsing', 'decompile_script'),
                ('parsing', 'assemble'), ('parsing', 'parse_comptime'), ('parsing', 'get_symbols')]
API_PREFIXES = ('add_', 'remove_', 'reset_')


def exported(w: World) -> set[str]:
    init = w.repo.module('__init__')
    out = set()
    for n in ast.walk(init.tree):
        if isinstance(n, ast.ImportFrom) and n.level >= 1:
            for al in n.names:
                out.add(f'{n.module}.{al.name}')
    return out


def run(w: World, rep: Report):
    rep.rule('C19.R1', 'no collection is structurally mutated while it is iterated (directly or through callees)', floor=60)
    rep.rule('C19.R2', 'module-level registries are written only at import time and by the add_/remove_/reset_ API; '
             'no run/compile entry point reaches a registry writer', floor=12)
    rep.rule('C19.R2s', 'set semantics of the registry API: insert-if-absent / delete-if-present on the same key', floor=8)
    rep.rule('C19.R3', 'a mutable default argument that a caller can actually take is never mutated', floor=20)
    rep.rule('C19.R4', 'the embedder\'s dictionaries (cache_vals, contracts, plugins, additional_flags) are only '
             'read or copied', floor=8)
    eff = Effects(w)
    _r1(w, rep, eff)
    _r2(w, rep, eff)
    _r3(w, rep, eff)
    _r4(w, rep, eff)
    from .report import depend
    depend(rep, w, 'rules_c09', ('C09.R1',), 'C19.TD9',
           'an active registry entry is used by every part of an execution: the contracts and plugins of a run (registry '
           'merged with the embedder\'s) reach every tape, including each further script of run_auth_scripts (C09.R1 '
           're-evaluated)', floor=30)
    # R5: no memoisation.  A result remembered by a caching decorator is handed out again after the registries (ops,
    # aliases, plugins, contracts - all consulted while compiling and decompiling) have changed, and a cached list or
    # object is shared between callers.
    rep.rule('C19.R5', 'no function of the package is memoised (lru_cache / cache / cached_property): results depend on '
             'the arguments and the current registries only', floor=1)
    memo = []
    nfun = 0
    for fi in w.repo.all_funcs(['functions', 'parsing', 'tools', 'classes']):
        nfun += 1
        for d in fi.node.decorator_list:
            dn = (ast.unparse(d.func) if isinstance(d, ast.Call) else ast.unparse(d)).split('.')[-1]
            if dn in ('lru_cache', 'cache', 'cached_property', 'memoize', 'memoized'):
                memo.append((fi.key, dn, fi.node.lineno, w.repo.rel(fi.module.path)))
    rep.check('C19.R5', 'package|no-memoised-function', not memo, line=memo[0][2] if memo else None,
              file=memo[0][3] if memo else 'tapescript/functions.py',
              why='' if not memo else f'{memo[0][0]} is wrapped in @{memo[0][1]}: what it returns for given arguments is fixed by the '
              f'first call - later add / remove / reset of ops, aliases, plugins or contracts is ignored, and the cached '
              f'object itself is shared by all callers', facts={'functions_examined': nfun})
    depend(rep, w, 'rules_c20', ('C20.R6',), 'C19.TD20',
           'an entry is used if and only if it is active: name and alias look-ups consult the live registries, never a value '
           'computed from them once at import (C20.R6 re-evaluated)', floor=1)
    depend(rep, w, 'rules_c11', ('C11.R7',), 'C19.TD11',
           'the compiler\'s symbol look-ahead consults the live op / NOP / alias / special-symbol tables (C11.R7 re-evaluated)',
           floor=2)
    rep.explanation = (
        'Decides the history channels of C19 structurally: iteration/mutation conflicts on every loop and '
        'comprehension (R1), who may write each module-level registry and unreachability of the writers from '
        'the run/compile entry points via the call graph (R2), insert-if-absent / delete-if-present shape of '
        'the registry API (R2s), mutable defaults that a caller can take and that are mutated through '
        'forwarding (R3), and read-only use of the embedder\'s dictionaries (R4), using interprocedural '
        'write-effect summaries. Full set semantics over histories (e.g. interfaces keyed by __name__) is '
        'not decided.')


# ---------------------------------------------------------------------------
def _loop_iters(cfg):
    """(iter expr, region ast (body), cfg node, loop var names, kind)"""
    out = []
    for n in cfg.nodes:
        if n.kind == 'for':
            region = ast.Module(body=n.ast.body, type_ignores=[])
            out.append((n.ast.iter, region, n, [x.id for x in ast.walk(n.ast.target) if isinstance(x, ast.Name)], 'for', n.ast))
        elif n.ast is not None and n.kind != 'except':
            root = n.ast
            for x in ast.walk(root):
                if isinstance(x, (ast.ListComp, ast.SetComp, ast.DictComp, ast.GeneratorExp)):
                    for g in x.generators:
                        elts = [x.elt] if not isinstance(x, ast.DictComp) else [x.key, x.value]
                        region = ast.Module(body=[ast.Expr(value=e) for e in elts] +
                                            [ast.Expr(value=c) for c in g.ifs], type_ignores=[])
                        out.append((g.iter, region, n, [y.id for y in ast.walk(g.target) if isinstance(y, ast.Name)],
                                    'comp', x))
    return out


def _r1(w: World, rep: Report, eff: Effects):
    total = 0
    for fi in w.repo.all_funcs(['functions', 'parsing', 'classes', 'tools']):
        if fi.module.name == 'tools' and fi.name in ('generate_docs', '_format_docstring', '_format_function_doc',
                                                     'cli_help', 'run_cli', '_parse_cache_json'):
            continue
        cfg = w.cfg(fi)
        idx = {}
        for it, region, node, lvars, kind, loop in _loop_iters(cfg):
            total += 1
            # iterating a fresh copy / range / literal is always safe
            if isinstance(it, ast.Call) and dotted(it.func) in ('range', 'list', 'tuple', 'sorted', 'set', 'dict',
                                                                 'enumerate', 'zip', 'reversed'):
                inner = it.args[0] if it.args else None
                if dotted(it.func) in ('range', 'list', 'tuple', 'sorted', 'set', 'dict'):
                    rep.check('C19.R1', _tag(idx, f'{fi.key}|{kind}|{ast.unparse(it)[:30]}'), True, line=node.line,
                              file=w.repo.rel(fi.module.path), trivial=True)
                    continue
                it = inner if inner is not None else it
            if isinstance(it, (ast.List, ast.Tuple, ast.Set, ast.Dict)) and not any(
                    isinstance(e, ast.Starred) for e in getattr(it, 'elts', [])):
                rep.check('C19.R1', _tag(idx, f'{fi.key}|{kind}|literal'), True, line=node.line,
                          file=w.repo.rel(fi.module.path), trivial=True)
                continue
            if isinstance(it, (ast.List, ast.Tuple)) and len(it.elts) == 1 and isinstance(it.elts[0], ast.Starred):
                rep.check('C19.R1', _tag(idx, f'{fi.key}|{kind}|copy'), True, line=node.line,
                          file=w.repo.rel(fi.module.path), trivial=True)
                continue
            p = eff.path(fi, it, node)
            tag = _tag(idx, f'{fi.key}|{kind}|{ast.unparse(it)[:30]}')
            if p is None:
                rep.check('C19.R1', tag, True, line=node.line, file=w.repo.rel(fi.module.path), trivial=True,
                          facts={'container': 'fresh/local value'})
                continue
            conflicts = []
            for wr in eff.writes_in(fi, region):
                if wr.path != p:
                    continue
                if wr.op == 'store':
                    # dict store under the loop variable of the same dict: non-structural
                    if wr.key is not None and isinstance(wr.key, ast.Name) and wr.key.id in lvars and not wr.via:
                        continue
                    if wr.via and _store_key_is_loopvar(w, wr):
                        continue
                    conflicts.append(wr)
                elif wr.op in STRUCTURAL:
                    conflicts.append(wr)
            # remove-then-break idiom
            if conflicts and kind == 'for' and _always_breaks_after(loop, conflicts, cfg):
                conflicts = []
            ok = not conflicts
            why = ''
            if conflicts:
                c = conflicts[0]
                why = (f'`{ast.unparse(it)[:40]}` is iterated while its body ' +
                       (f'calls {c.via}, which performs' if c.via else 'performs') +
                       f' .{c.op} on the same container: elements are skipped')
            rep.check('C19.R1', tag, ok, line=node.line, file=w.repo.rel(fi.module.path), why=why,
                      facts={'container': p})
    if total < 60:
        raise AnalysisError(f'only {total} loops/comprehensions found')


def _tag(idx, base):
    idx[base] = idx.get(base, 0) + 1
    return base if idx[base] == 1 else f'{base}#{idx[base]}'


def _store_key_is_loopvar(w, wr) -> bool:
    """set_tape_flags style: callee stores target[key] while iterating source with `key`;
    when target and source alias the store replaces an existing key (non-structural)."""
    if not wr.fn:
        return False
    mod, q = wr.fn.split('.', 1)
    fi = w.repo.modules[mod].funcs.get(q)
    if fi is None:
        return False
    for n in ast.walk(fi.node):
        if isinstance(n, ast.For) and isinstance(n.target, ast.Name):
            for s in ast.walk(n):
                if isinstance(s, ast.Assign) and isinstance(s.targets[0], ast.Subscript) and \
                        isinstance(s.targets[0].slice, ast.Name) and s.targets[0].slice.id == n.target.id:
                    return True
    return False


def _always_breaks_after(loop: ast.For, conflicts, cfg) -> bool:
    """Every conflicting write is followed, in the same block, by an unconditional break."""
    lines = {c.line for c in conflicts}

    def rec(stmts):
        ok = True
        for i, s in enumerate(stmts):
            if isinstance(s, (ast.If, ast.For, ast.While, ast.Try)):
                for fld in ('body', 'orelse'):
                    if not rec(getattr(s, fld, []) or []):
                        ok = False
                continue
            if getattr(s, 'lineno', None) in lines:
                rest = stmts[i + 1:]
                if not any(isinstance(r, ast.Break) for r in rest) or any(
                        isinstance(r, (ast.If, ast.For, ast.While)) for r in rest[:[isinstance(r, ast.Break) for r in rest].index(True)]):
                    ok = False
        return ok
    # the innermost loop containing the write must be `loop` itself for break to leave it
    for n in ast.walk(loop):
        if n is not loop and isinstance(n, (ast.For, ast.While)):
            for c in conflicts:
                if any(getattr(x, 'lineno', None) == c.line for x in ast.walk(n)):
                    return False
    return rec(loop.body)


# ---------------------------------------------------------------------------
def _r2(w: World, rep: Report, eff: Effects):
    writers = {}
    for key, summ in eff.summary.items():
        for wr in summ.values():
            root = wr.path.split('.')[0].split('[')[0]
            if root.startswith('::') and not root.startswith('::default:'):
                # any module-level container is process-global state, registry or not
                writers.setdefault(key, []).append(wr)
    # direct rebinding of registry names via `global`
    for fi in w.repo.all_funcs(['functions', 'parsing', 'tools', 'classes']):
        for n in walk_no_nested(fi.node):
            if isinstance(n, ast.Global):
                for nm in n.names:
                    if nm in REGISTRIES:
                        writers.setdefault(fi.key, []).append(None)
    seen_regs = set()
    for key, ws in sorted(writers.items()):
        name = key.split('.')[-1]
        ok = name.startswith(API_PREFIXES)
        for wr in ws:
            if wr is not None:
                seen_regs.add(wr.path.split('.')[0].split('[')[0][2:])
        rep.check('C19.R2', f'{key}|writes-registry', ok, file=w.repo.rel(eff.funcs[key].module.path),
                  line=eff.funcs[key].node.lineno,
                  why='' if ok else f'{key} mutates a process-global registry '
                  f'({", ".join(sorted({x.path for x in ws if x is not None}))}) but is not part of the add/remove/reset API',
                  facts={'writes': sorted({repr(x) for x in ws if x is not None})})
    for must in ('_plugins', '_contracts', '_contract_interfaces', 'opcode_aliases'):
        if must not in seen_regs:
            raise AnalysisError(f'no writer found for registry {must}: inventory incomplete')
    # a registry handed out un-copied becomes writable through the object that holds it
    for fi in w.repo.all_funcs(['functions', 'parsing', 'tools', 'classes']):
        if fi.name.startswith(API_PREFIXES) or fi.name in ('generate_docs', '_get_op_aliases'):
            continue
        for n in ast.walk(fi.node):
            leak = None
            if isinstance(n, ast.Assign) and isinstance(n.value, ast.Name) and n.value.id in REGISTRIES and \
                    any(isinstance(t, (ast.Attribute, ast.Subscript)) for t in n.targets):
                leak = f'`{ast.unparse(n.targets[0])} = {n.value.id}`'
            if isinstance(n, ast.Call) and dotted(n.func) in ('Tape', 'Stack'):
                for a in list(n.args) + [k.value for k in n.keywords]:
                    if isinstance(a, ast.Name) and a.id in REGISTRIES:
                        leak = f'`{a.id}` passed to {dotted(n.func)}(...)'
            if leak:
                rep.check('C19.R2', f'{fi.key}|registry-aliased', False, line=n.lineno, file=w.repo.rel(fi.module.path),
                          why=f'{leak}: the process-global registry itself (not a copy) is attached to a run object, so '
                          f'anything a run stores through that object changes later runs')
    # registry entries are separate objects: one mutable object stored under several keys / slots makes a
    # write through one entry visible in the others
    nshared = 0
    for mn in ('functions', 'parsing', 'tools', 'classes'):
        m = w.repo.modules.get(mn)
        if m is None:
            continue
        for n in ast.walk(m.tree):
            hit = _shared_value_initialiser(n)
            nshared += 1 if isinstance(n, (ast.Dict, ast.DictComp)) else 0
            if hit:
                rep.check('C19.R2', f'{mn}|shared-entry-object|{hit[0]}', False, line=n.lineno, file=w.repo.rel(m.path),
                          why=f'{hit[1]}: every key/slot holds the *same* mutable object, so adding to or resetting one '
                          f'entry (e.g. one plugin scope) changes the others')
    rep.check('C19.R2', 'package|registry-entries-are-separate-objects', True, trivial=True,
              facts={'container_expressions_examined': nshared})
    # reachability from the entry points
    for mod, name in ENTRY_POINTS:
        fi = w.repo.func(mod, name)
        reach = _reachable(w, eff, fi)
        bad = sorted(k for k in reach if k in writers)
        rep.check('C19.R2', f'{mod}.{name}|reaches-no-registry-writer', not bad, file=w.repo.rel(fi.module.path),
                  line=fi.node.lineno, why='' if not bad else f'{mod}.{name} can reach registry writer(s) {bad}: '
                  f'running/compiling changes what later runs see', facts={'reachable_functions': len(reach)})
    # handlers are reached by dispatch from run_tape
    bad = sorted(h.key for h in w.handlers.values() if h.key in writers or
                 any(k in writers for k in _reachable(w, eff, h)))
    rep.check('C19.R2', 'functions.run_tape|dispatch|handlers-reach-no-registry-writer', not bad,
              file='tapescript/functions.py', why='' if not bad else f'handlers {bad} reach a registry writer',
              facts={'handlers': len(w.handlers)})
    # set semantics
    for key, ws in sorted(writers.items()):
        fi = eff.funcs[key]
        cfg = w.cfg(fi)
        # one notion of "the same entry" for add and remove: the add side de-duplicates with `in` (equality), so a
        # removal or membership test by identity leaves an equal entry behind (a bound method is a new object on
        # every attribute access: `o.hook == o.hook` but `o.hook is not o.hook`)
        if key.split('.')[-1].startswith(API_PREFIXES):
            ident = [c for c in ast.walk(fi.node) if isinstance(c, ast.Compare) and
                     any(isinstance(o, (ast.Is, ast.IsNot)) for o in c.ops) and
                     not any(isinstance(x, ast.Constant) and (x.value is None or isinstance(x.value, bool))
                             for x in [c.left] + c.comparators) and
                     any(isinstance(x, ast.Name) and x.id in fi.params for x in [c.left] + c.comparators)]
            rep.check('C19.R2s', f'{key}|entries-compared-by-equality', not ident,
                      line=ident[0].lineno if ident else fi.node.lineno, file=w.repo.rel(fi.module.path),
                      why='' if not ident else
                      f'`{ast.unparse(ident[0])}` compares registry entries by identity while additions de-duplicate by '
                      f'equality: an entry equal to but not identical with the stored one (a bound method) is never removed '
                      f'and stays active')
        for wr in eff.direct.get(key, []):
            root = wr.path.split('.')[0].split('[')[0]
            if not (root.startswith('::') and root[2:] in REGISTRIES):
                continue
            ok, why = True, ''
            node = [n for n in cfg.nodes if n.line == wr.line and n.kind == 'stmt']
            node = node[0] if node else None
            if wr.op in ('append', 'insert') and node is not None:
                # insert(i, x) files one entry like append does; the position is a matter of order, not of membership
                if wr.op == 'insert':
                    calls = [x for x in ast.walk(node.ast) if isinstance(x, ast.Call) and isinstance(x.func, ast.Attribute)
                             and x.func.attr == 'insert' and len(x.args) == 2]
                    if calls:
                        wr = type('W', (), {'key': calls[0].args[1], 'op': 'insert', 'path': wr.path, 'line': wr.line})()
                ok = _dominated_by_membership(cfg, node, wr, want_present=False)
                why = '' if ok else 'list registry appended without an `x not in registry` guard: duplicates accumulate'
            elif wr.op in ('remove', 'del') and node is not None:
                ok = _dominated_by_membership(cfg, node, wr, want_present=True)
                why = '' if ok else 'entry removed without an `x in registry` guard: removing an absent entry raises'
            elif wr.op in ('store',):
                ok = True
                # adding under a key that is already registered files the new entry (the dict store replaces): an early
                # silent `return` when the key is present keeps the old entry active and skips the validation of the new
                if key.split('.')[-1].startswith('add_'):
                    regname0 = root[2:]
                    for iff in [x for x in ast.walk(fi.node) if isinstance(x, ast.If)]:
                        t0 = iff.test
                        if isinstance(t0, ast.Compare) and len(t0.ops) == 1 and isinstance(t0.ops[0], ast.In) and \
                                ast.unparse(t0.comparators[0]) == regname0 and \
                                any(isinstance(b0, ast.Return) for b0 in iff.body):
                            ok = False
                            why = (f'`if {ast.unparse(t0)}: return` - re-adding under a registered key silently keeps the old entry: '
                                   f'the entry added last is not the active one')
                # the key whose presence is tested is the key stored under: a test on the caller's spelling with the
                # entry filed under a normalised spelling (or the reverse) lets duplicates through / rebinds entries
                regname = root[2:]
                if wr.key is not None and key.split('.')[-1].startswith(API_PREFIXES):
                    ktxt = ast.unparse(wr.key)
                    tests = [c for c in ast.walk(fi.node) if isinstance(c, ast.Compare) and len(c.ops) == 1 and
                             isinstance(c.ops[0], (ast.In, ast.NotIn)) and
                             ast.unparse(c.comparators[0]) == regname]
                    same = [c for c in tests if ast.unparse(c.left) == ktxt]
                    if tests and not same:
                        ok = False
                        why = (f'presence in `{regname}` is tested for `{ast.unparse(tests[0].left)}` but the entry is stored under '
                               f'`{ktxt}`: the test does not speak about the key that is written, so an existing entry can be '
                               f'silently replaced')
                    elif same and isinstance(wr.key, ast.Name) and node is not None:
                        # same name: it must not be rebound between the test and the store
                        tn = [n for n in cfg.nodes if n.ast is not None and any(x is same[0] for x in ast.walk(n.ast))]
                        d1 = {id(d[0]) for d in cfg.defs_reaching(wr.key.id, tn[0])} if tn else None
                        d2 = {id(d[0]) for d in cfg.defs_reaching(wr.key.id, node)}
                        if d1 is not None and d1 != d2:
                            ok = False
                            why = (f'`{ktxt}` is rebound between the presence test and the store into `{regname}`: the test does '
                                   f'not speak about the key that is written')
            elif wr.op == 'setdefault':
                ok = True           # insert-if-absent by definition
            elif wr.op == 'pop':
                # `d.pop(key, default)` is delete-if-present; without a default it raises on an absent key
                call = None
                if node is not None:
                    for x in ast.walk(node.ast):
                        if isinstance(x, ast.Call) and isinstance(x.func, ast.Attribute) and x.func.attr == 'pop' and \
                                x.lineno == wr.line:
                            call = x
                ok = (call is not None and len(call.args) == 2) or \
                    (node is not None and _dominated_by_membership(cfg, node, wr, want_present=True))
                why = '' if ok else 'entry popped without a default and without an `x in registry` guard: removing an absent entry raises'
            elif wr.op in ('clear', 'popitem', 'update', 'extend'):
                ok = wr.op in ('clear',) and key.split('.')[-1].startswith('reset_')
                why = '' if ok else f'registry mutated with .{wr.op}()'
            rep.check('C19.R2s', f'{key}|{wr.op}@{wr.path}', ok, line=wr.line, file=w.repo.rel(fi.module.path), why=why)


def _is_mutable_display(e: ast.AST) -> bool:
    if isinstance(e, (ast.List, ast.Dict, ast.Set, ast.ListComp, ast.DictComp, ast.SetComp)):
        return True
    return isinstance(e, ast.Call) and isinstance(e.func, ast.Name) and e.func.id in ('list', 'dict', 'set', 'deque',
                                                                                      'bytearray', 'defaultdict')


def _shared_value_initialiser(n: ast.AST):
    """`dict.fromkeys(keys, <mutable>)`, `[<mutable>] * k`, `{k: shared for k in ...}` with one object built outside."""
    if isinstance(n, ast.Call) and dotted(n.func) in ('dict.fromkeys',) or \
            (isinstance(n, ast.Call) and isinstance(n.func, ast.Attribute) and n.func.attr == 'fromkeys'):
        if len(n.args) >= 2 and _is_mutable_display(n.args[1]):
            return ('fromkeys', f'`{ast.unparse(n)[:80]}`')
    if isinstance(n, ast.BinOp) and isinstance(n.op, ast.Mult):
        for side in (n.left, n.right):
            if isinstance(side, (ast.List, ast.Tuple)) and any(_is_mutable_display(x) for x in side.elts):
                return ('sequence-repeat', f'`{ast.unparse(n)[:80]}`')
    return None


def _reachable(w: World, eff: Effects, fi) -> set[str]:
    seen = set()
    todo = [fi]
    while todo:
        f = todo.pop()
        if f.key in seen:
            continue
        seen.add(f.key)
        for fr, _ in w.calls(f):
            k = f'{fr.module}.{fr.name}'
            if k in eff.funcs and k not in seen:
                todo.append(eff.funcs[k])
    seen.discard(fi.key)
    return seen


def _dominated_by_membership(cfg, node, wr, want_present: bool) -> bool:
    """The write at `node` is dominated by an edge on which `elem in container` has the wanted truth."""
    if wr.key is None:
        return False
    elem = ast.unparse(wr.key)
    # a key looked up in the paired registry (`nopname = nopcodes[code][0]` under `code in nopcodes`):
    # the pairing invariant of the two tables (C20.R4) makes it present
    if isinstance(wr.key, ast.Name):
        defs = cfg.defs_reaching(wr.key.id, node)
        if len(defs) == 1 and defs[0][1] == 'assign':
            src = defs[0][2]
            base = src
            while isinstance(base, ast.Subscript):
                last = base
                base = base.value
            if isinstance(base, ast.Name) and base.id in REGISTRIES and src is not base:
                inner = type('W', (), {'key': last.slice})()
                return _dominated_by_membership(cfg, node, inner, want_present)
    edges = []
    for t in cfg.nodes:
        if t.kind != 'test' or not isinstance(t.ast, ast.Compare) or len(t.ast.ops) != 1:
            continue
        op = t.ast.ops[0]
        if not isinstance(op, (ast.In, ast.NotIn)):
            continue
        if ast.unparse(t.ast.left) != elem:
            continue
        # the container tested is the container written: for a write into `REG[k]` (path ::REG[*]) the test has to be
        # on `REG[..]`, not on `REG` itself (whose members are the keys)
        cpath = getattr(wr, 'path', None)
        if isinstance(cpath, str) and cpath.startswith('::'):
            ctxt = ast.unparse(t.ast.comparators[0]).replace(' ', '')
            regroot = cpath[2:].split('[')[0]
            # only the registry itself spelled with the wrong depth is refused (a local alias of the slot is fine)
            if ctxt.split('[')[0] == regroot and ('[' in cpath) != ('[' in ctxt):
                continue
        present_on_true = isinstance(op, ast.In)
        for succ, lab in t.succ:
            if lab not in (True, False):
                continue
            present = present_on_true if lab else not present_on_true
            if present == want_present:
                edges.append((t, succ, lab))
    return bool(edges) and cfg.must_pass(cfg.entry, node, through_edges=edges)


# ---------------------------------------------------------------------------
def _is_mutable_default(d: ast.AST) -> bool:
    if isinstance(d, (ast.Dict, ast.List, ast.Set)):
        return True
    if isinstance(d, ast.Call) and dotted(d.func) in ('dict', 'list', 'set', 'deque', 'bytearray'):
        return True
    return False


def _r3(w: World, rep: Report, eff: Effects):
    exp = exported(w)
    n = 0
    # call sites per function: does any caller omit the parameter?
    callers: dict[str, list] = {}
    for fi in eff.funcs.values():
        for fr, call in w.calls(fi):
            callers.setdefault(f'{fr.module}.{fr.name}', []).append((fi, call))
    for key, fi in sorted(eff.funcs.items()):
        for p, d in fi.defaults.items():
            if not _is_mutable_default(d):
                continue
            n += 1
            muts = [wr for wr in eff.summary[key].values()
                    if wr.path == p or wr.path.startswith(p + '.') or wr.path.startswith(p + '[')]
            # rebinding the name itself is not a mutation of the default object
            muts = [m for m in muts if m.op != 'rebind' or m.path != p]
            if not muts:
                rep.check('C19.R3', f'{key}|default|{p}', True, line=fi.node.lineno, file=w.repo.rel(fi.module.path),
                          facts={'mutated': False})
                continue
            # is the parameter re-bound to a fresh object before any mutation?  (x = x or {}, if x is None)
            can_take = []
            if key in exp or f'{fi.module.name}.{fi.name}' in exp:
                can_take.append('exported in the package API')
            for caller, call in callers.get(key, []):
                if Effects._arg_for(fi, call, p) is None and not any(isinstance(a, ast.Starred) for a in call.args) \
                        and not any(k.arg is None for k in call.keywords):
                    can_take.append(f'called without `{p}` by {caller.key}')
            ok = not can_take
            m = muts[0]
            rep.check('C19.R3', f'{key}|default|{p}', ok, line=fi.node.lineno, file=w.repo.rel(fi.module.path),
                      why='' if ok else f'the shared default `{p}={ast.unparse(d)}` is mutated '
                      f'({m.op}{" via " + m.via if m.via else ""}) and can be taken: {can_take[0]} - state leaks '
                      f'between calls', facts={'mutation': repr(m), 'takers': can_take})
    if n < 20:
        raise AnalysisError(f'only {n} mutable defaults found')


# ---------------------------------------------------------------------------
def _r4(w: World, rep: Report, eff: Effects):
    for name in ('run_script', 'run_auth_scripts', 'run_auth_script'):
        fi = w.repo.func('functions', name)
        cfg = w.cfg(fi)
        kinds = w.kinds(fi)
        for p in ('cache_vals', 'contracts', 'plugins', 'additional_flags'):
            if p not in fi.params:
                continue
            muts = [wr for wr in eff.summary[fi.key].values()
                    if wr.path == p or wr.path.startswith(p + '.') or wr.path.startswith(p + '[')]
            muts = [m for m in muts if not (m.op == 'rebind' and m.path == p)]
            why = ''
            if muts:
                why = f'the caller\'s `{p}` dictionary is mutated ({muts[0]!r})'
            # aliasing: stored un-copied into an object, or used as the run cache
            for n in cfg.nodes:
                for ev in node_events(n):
                    if ev[0] == 'store' and isinstance(ev[1], (ast.Attribute, ast.Subscript)) and \
                            isinstance(ev[2], ast.Name) and ev[2].id == p and \
                            all(how == 'param' for _, how, _ in cfg.defs_reaching(p, n)):
                        why = why or f'the caller\'s `{p}` is stored un-copied into `{ast.unparse(ev[1])}`'
                    if ev[0] == 'call' and dotted(ev[1].func) == 'run_tape' and len(ev[1].args) > 2 and \
                            isinstance(ev[1].args[2], ast.Name) and ev[1].args[2].id == p and \
                            all(how == 'param' for _, how, _ in cfg.defs_reaching(p, n)):
                        why = why or f'the caller\'s `{p}` is used as the run cache'
                    if ev[0] == 'store' and isinstance(ev[1], ast.Name) and ev[1].id == 'cache' and \
                            isinstance(ev[2], ast.Name) and ev[2].id == p:
                        why = why or f'the run cache aliases the caller\'s `{p}`'
            rep.check('C19.R4', f'functions.{name}|{p}|read-only', not why, line=fi.node.lineno,
                      file='tapescript/functions.py', why=why)
