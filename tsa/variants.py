"""Audit corpus (E7): breaking variants (kind='break', must make rule `expect` fire) and
behaviour-preserving rewrites (kind='preserve', must stay silent).  Each variant is a list
of unique-substring edits applied to a scratch copy; a variant whose anchor text no longer
occurs is reported as stale, not as a failure.  Variants derived from the sub-agent seeded
changes in /verif/seeded/ are included (ids starting with `seed-`)."""

F = 'tapescript/functions.py'
P = 'tapescript/parsing.py'
C = 'tapescript/classes.py'
T = 'tapescript/tools.py'
D = 'docs.md'

VARIANTS = []


def V(id, prop, kind, edits, expect=None, construct=None):
    v = {'id': id, 'prop': prop, 'kind': kind, 'edits': edits}
    if expect:
        v['expect'] = expect
    if construct:
        v['construct'] = construct
    VARIANTS.append(v)


# ---------------------------------------------------------------------------- C01
V('c01-drop-flag-clear', 'C01', 'break', [(F, "            if _RETURNED in cache:\n                del cache[_RETURNED]\n            tape = Tape(", "            tape = Tape(")], 'C01.R1')
V('c01-except-exception', 'C01', 'break', [(F, "    except BaseException as e:\n        return False", "    except Exception as e:\n        return False")], 'C01.R2')
V('c01-len-ge-1', 'C01', 'break', [(F, "        assert len(stack) == 1\n", "        assert len(stack) >= 1\n")], 'C01.R3')
V('c01-drop-loop-terminated', 'C01', 'break', [(F, "            run_tape(tape, stack, cache)\n            assert tape.has_terminated()\n", "            run_tape(tape, stack, cache)\n")], 'C01.R3')
V('c01-item-truthy', 'C01', 'break', [(F, "        assert item == b'\\xff'\n", "        assert item\n")], 'C01.R3')
V('c01-skip-second-script', 'C01', 'break', [(F, "        scripts = scripts[1:]\n", "        scripts = scripts[2:]\n")], 'C01.R4')
V('c01-final-check-outside-try', 'C01', 'break', [(F, "        assert len(stack) == 1\n        item = stack.get()\n        assert item == b'\\xff'\n        return True\n    except BaseException as e:\n        return False\n",
                                                      "    except BaseException as e:\n        return False\n    assert len(stack) == 1\n    item = stack.get()\n    assert item == b'\\xff'\n    return True\n")], 'C01.R2')
V('c01-handler-returns-none', 'C01', 'break', [(F, "    except BaseException as e:\n        return False", "    except BaseException as e:\n        return None")], 'C01.R2')
V('c01-shared-tape', 'C01', 'break', [(F, "            tape.contracts = contracts\n            tape.plugins = plugins\n            run_tape(tape, stack, cache)\n", "            tape.contracts = contracts\n            tape.plugins = plugins\n            run_tape(tape, Stack(), cache)\n")], 'C01.R4')
V('c01-p-if-return-false', 'C01', 'preserve', [(F, "        assert len(stack) == 1\n", "        if len(stack) != 1:\n            return False\n")])
V('c01-p-pop-clear', 'C01', 'preserve', [(F, "            if _RETURNED in cache:\n                del cache[_RETURNED]\n            tape = Tape(", "            cache.pop(_RETURNED, None)\n            tape = Tape(")])
V('c01-p-clear-in-prologue', 'C01', 'preserve', [(F, "            if _RETURNED in cache:\n                del cache[_RETURNED]\n            tape = Tape(", "            tape = Tape("),
                                                 (F, "    tape = set_tape_flags(tape, additional_flags)\n    while not tape.has_terminated():", "    tape = set_tape_flags(tape, additional_flags)\n    cache.pop(_RETURNED, None)\n    while not tape.has_terminated():")])
V('c01-p-bare-except', 'C01', 'preserve', [(F, "    except BaseException as e:\n        return False", "    except:\n        return False")])

# ---------------------------------------------------------------------------- C06
V('c06-loop-leaves-flag', 'C06', 'break', [(F, "            del cache[_RETURNED]\n            return\n", "            return\n")], 'C06.R1', 'OP_LOOP')
V('c06-if-consumes', 'C06', 'break', [(F, "        if _RETURNED in cache:\n            OP_RETURN(tape, stack, cache)\n\ndef OP_IF_ELSE", "        if _RETURNED in cache:\n            del cache[_RETURNED]\n\ndef OP_IF_ELSE")], 'C06.R1', 'OP_IF')
V('c06-call-propagates', 'C06', 'break', [(F, "    subtape.pointer = init_pointer\n    if _RETURNED in cache:\n        del cache[_RETURNED]\n", "    subtape.pointer = init_pointer\n")], 'C06.R1', 'OP_CALL')
V('c06-eval-shares-flags', 'C06', 'break', [(F, "        flags={**tape.flags},\n", "        flags=tape.flags,\n")], 'C06.R2')
V('c06-eval-shares-defs', 'C06', 'break', [(F, "        callstack_limit=tape.callstack_limit,\n        definitions={**tape.definitions},\n        contracts=tape.contracts,\n        flags={**tape.flags},", "        callstack_limit=tape.callstack_limit,\n        definitions=tape.definitions,\n        contracts=tape.contracts,\n        flags={**tape.flags},")], 'C06.R2')
V('c06-eval-always-propagates', 'C06', 'break', [(F, "        if 'eval_return' in tape.flags and tape.flags['eval_return']:\n            OP_RETURN(tape, stack, cache)\n        else:\n            del cache[_RETURNED]\n", "        OP_RETURN(tape, stack, cache)\n")], 'C06.R1', 'OP_EVAL')
V('c06-try-raise-while-pending', 'C06', 'break', [(F, "        run_tape(subtape, stack, cache, additional_flags=tape.flags)\n\n    if _RETURNED in cache:\n        OP_RETURN(tape, stack, cache)\n", "        run_tape(subtape, stack, cache, additional_flags=tape.flags)\n\n    stack.put(cache[b'E'][0])\n    if _RETURNED in cache:\n        OP_RETURN(tape, stack, cache)\n")], 'C06.R1b')
V('c06-verify-clears-flag', 'C06', 'break', [(F, "    sert(bytes_to_bool(stack.get()), 'OP_VERIFY check failed')\n", "    cache.pop(_RETURNED, None)\n    sert(bytes_to_bool(stack.get()), 'OP_VERIFY check failed')\n")], 'C06.R1c')
V('c06-docs-number', 'C06', 'break', [(D, "## OP_LOOP - 69 - x45", "## OP_LOOP - 70 - x45")], 'C06.R3')
V('c06-table-swap', 'C06', 'break', [(F, "    ('OP_XOR', OP_XOR),\n    ('OP_OR', OP_OR),\n", "    ('OP_OR', OP_OR),\n    ('OP_XOR', OP_XOR),\n")], 'C06.R3')
V('c06-return-no-terminate', 'C06', 'break', [(F, "    tape.pointer = len(tape.data)\n    cache[_RETURNED] = True\n", "    cache[_RETURNED] = True\n")], 'C06.R1', 'OP_RETURN')
V('c06-p-call-pop', 'C06', 'preserve', [(F, "    subtape.pointer = init_pointer\n    if _RETURNED in cache:\n        del cache[_RETURNED]\n", "    subtape.pointer = init_pointer\n    cache.pop(_RETURNED, None)\n")])
V('c06-p-loop-propagates', 'C06', 'preserve', [(F, "            del cache[_RETURNED]\n            return\n", "            OP_RETURN(tape, stack, cache)\n            return\n")])
V('c06-p-eval-dict-copy', 'C06', 'preserve', [(F, "        flags={**tape.flags},\n", "        flags=dict(tape.flags),\n")])

# ---------------------------------------------------------------------------- C07
V('c07-count-le', 'C07', 'break', [(C, "        sert(len(self.deque) < self.max_items, 'cannot put onto full Stack')", "        sert(len(self.deque) <= self.max_items, 'cannot put onto full Stack')")], 'C07.R1')
V('c07-drop-size-guard', 'C07', 'break', [(C, "        sert(len(item) <= self.max_item_size, 'Stack item size too large')\n", "")], 'C07.R1')
V('c07-drop-read-guard', 'C07', 'break', [(C, "        sert(self.pointer + size <= len(self.data),\n            'cannot read that many bytes')\n", "")], 'C07.R2')
V('c07-dup-direct-append', 'C07', 'break', [(F, "    stack.put(item)\n    stack.put(item)\n\ndef OP_SHA256", "    stack.put(item)\n    stack.deque.append(item)\n\ndef OP_SHA256")], 'C07.R1')
V('c07-push1-signed-size', 'C07', 'break', [(F, "    size = int.from_bytes(tape.read(1), 'big')\n    stack.put(tape.read(size))\n\ndef OP_PUSH2", "    size = bytes_to_int(tape.read(1))\n    stack.put(tape.read(size))\n\ndef OP_PUSH2")], 'C07.R3a')
V('c07-eval-same-count', 'C07', 'break', [(F, "        callstack_count=tape.callstack_count+1,\n", "        callstack_count=tape.callstack_count,\n")], 'C07.R4')
V('c07-call-drop-guard', 'C07', 'break', [(F, "    sert(tape.callstack_count < tape.callstack_limit,\n        'callstack limit exceeded')\n\n    def_handle = tape.read(1)\n", "    def_handle = tape.read(1)\n")], 'C07.R4')
V('c07-loop-no-increment', 'C07', 'break', [(F, "        subtape.reset_pointer()\n        count += 1\n", "        subtape.reset_pointer()\n")], 'C07.R5')
V('c07-random-unbounded', 'C07', 'break', [(F, "    sert(size <= stack.max_item_size, 'OP_RANDOM size exceeds Stack item size limit')\n", "")], 'C07.R6')
V('c07-shake-size-from-stack', 'C07', 'break', [(F, "    size = int.from_bytes(tape.read(1), 'big')\n    item = stack.get()\n    stack.put(shake_256(item).digest(size))", "    size = bytes_to_int(stack.get())\n    item = stack.get()\n    stack.put(shake_256(item).digest(size))")], 'C07.R6')
V('c07-loop-limit-valueerror', 'C07', 'break', [(F, "        sert(count < tape.callstack_limit, 'OP_LOOP limit exceeded')", "        vert(count < tape.callstack_limit, 'OP_LOOP limit exceeded')")], 'C07.R5')
V('c07-put-limit-valueerror', 'C07', 'break', [(C, "        sert(len(self.deque) < self.max_items, 'cannot put onto full Stack')", "        tert(len(self.deque) < self.max_items, 'cannot put onto full Stack')")], 'C07.R7')
V('c07-handler-rewinds-own-tape', 'C07', 'break', [(F, "    first = stack.get()\n    second = stack.get()\n    stack.put(first)\n    stack.put(second)\n", "    first = stack.get()\n    second = stack.get()\n    stack.put(first)\n    stack.put(second)\n    tape.pointer = 0\n")], 'C07.R3b')
V('c07-copy-count-from-stack', 'C07', 'break', [(F, "    n_copies = int.from_bytes(tape.read(1), 'big')\n    item = stack.get()\n", "    n_copies = bytes_to_int(stack.get())\n    item = stack.get()\n    junk = []\n    for _ in range(n_copies):\n        junk.append(item)\n")], 'C07.R5')
V('c07-p-if-raise', 'C07', 'preserve', [(C, "        sert(len(self.deque) < self.max_items, 'cannot put onto full Stack')", "        if len(self.deque) >= self.max_items:\n            raise ScriptExecutionError('cannot put onto full Stack')"),
                                       (C, "from .errors import sert, tert", "from .errors import sert, tert, ScriptExecutionError")])
V('c07-p-plus-one', 'C07', 'preserve', [(C, "        sert(len(self.deque) < self.max_items, 'cannot put onto full Stack')", "        sert(len(self.deque) + 1 <= self.max_items, 'cannot put onto full Stack')")])
V('c07-p-flipped', 'C07', 'preserve', [(C, "        sert(len(item) <= self.max_item_size, 'Stack item size too large')", "        sert(self.max_item_size >= len(item), 'Stack item size too large')")])

# ---------------------------------------------------------------------------- C08
V('c08-pop0-str-key', 'C08', 'break', [(F, "    cache[b'P'] = [stack.get()]\n", "    cache['P'] = [stack.get()]\n")], 'C08.R1')
V('c08-write-cache-decoded-key', 'C08', 'break', [(F, "    cache[key] = items\n\ndef OP_READ_CACHE(", "    cache[str(key, 'utf-8')] = items\n\ndef OP_READ_CACHE(")], 'C08.R1')
V('c08-get-value-writes-back', 'C08', 'break', [(F, "    for val in items:\n        if type(val) in (bytes, bytearray):", "    cache[key] = items\n    for val in items:\n        if type(val) in (bytes, bytearray):")], 'C08.R1')
V('c08-return-str-key-again', 'C08', 'break', [(F, "_RETURNED = ('returned',)", "_RETURNED = 'returned'")], 'C08.R1')
V('c08-invoke-leaks-cache', 'C08', 'break', [(F, "    result = contract.abi(args)\n", "    result = contract.abi(args, cache)\n")], 'C08.R3')
V('c08-sigfield-appended-in-place', 'C08', 'break', [(F, "    if 'sigfield1' in cache and not sig_flag1:\n        message += cache['sigfield1']\n", "    if 'sigfield1' in cache and not sig_flag1:\n        field1 = cache['sigfield1']\n        field1.append(0)\n        message += cache['sigfield1']\n")], 'C08.R2')
V('c08-try-error-str-key', 'C08', 'break', [(F, "        cache[b'E'] = [serialized.encode('utf-8')]\n", "        cache['E'] = [serialized.encode('utf-8')]\n")], 'C08.R1')
V('c08-p-key-local', 'C08', 'preserve', [(F, "    cache[b'P'] = [stack.get()]\n", "    key = b'P'\n    cache[key] = [stack.get()]\n")])

# ---------------------------------------------------------------------------- C09
V('c09-if-no-plugins', 'C09', 'break', [(F, "            contracts=tape.contracts,\n            plugins=tape.plugins\n        )\n        run_tape(subtape, stack, cache, additional_flags=tape.flags)\n        if _RETURNED in cache:\n            OP_RETURN(tape, stack, cache)\n\ndef OP_IF_ELSE",
                                           "            contracts=tape.contracts\n        )\n        run_tape(subtape, stack, cache, additional_flags=tape.flags)\n        if _RETURNED in cache:\n            OP_RETURN(tape, stack, cache)\n\ndef OP_IF_ELSE")], 'C09.R1', 'OP_IF|')
V('c09-loop-no-contracts', 'C09', 'break', [(F, "        contracts=tape.contracts, plugins=tape.plugins\n    )", "        plugins=tape.plugins\n    )")], 'C09.R1', 'OP_LOOP')
V('c09-loop-no-flags', 'C09', 'break', [(F, "        run_tape(subtape, stack, cache, additional_flags=tape.flags)\n        if _RETURNED in cache:\n            del cache[_RETURNED]", "        run_tape(subtape, stack, cache)\n        if _RETURNED in cache:\n            del cache[_RETURNED]")], 'C09.R2', 'OP_LOOP')
V('c09-no-snapshot', 'C09', 'break', [(F, "    additional_flags = {**additional_flags}\n", "")], 'C09.R2', 'OP_CALL')
V('c09-multisig-plugin-tape', 'C09', 'break', [(F, "    subtape = Tape(tape.read(1))\n", "    subtape = Tape(tape.read(1), plugins=tape.plugins)\n")], 'C09.R4', 'OP_CHECK_MULTISIG')
V('c09-sign-no-plugin', 'C09', 'break', [(F, "    run_sig_extensions(tape, stack, cache)\n    sig_flag = int.from_bytes(tape.read(1), 'big')\n    skey_seed = stack.get()", "    sig_flag = int.from_bytes(tape.read(1), 'big')\n    skey_seed = stack.get()")], 'C09.R4', 'OP_SIGN')
V('c09-taproot-keypath-no-plugins', 'C09', 'break', [(F, "        OP_CHECK_SIG(Tape(allowable_sigflags, plugins=tape.plugins), stack, cache)", "        OP_CHECK_SIG(Tape(allowable_sigflags), stack, cache)")], 'C09.R4', 'OP_TAPROOT')
V('c09-handler-writes-flag', 'C09', 'break', [(F, "    seed = stack.get()\n    x = derive_key_from_seed(seed)\n    if 1 in tape.flags", "    seed = stack.get()\n    tape.flags[1] = True\n    x = derive_key_from_seed(seed)\n    if 1 in tape.flags")], 'C09.R5')
V('c09-eval-no-disallow', 'C09', 'break', [(F, "    sert('disallow_OP_EVAL' not in tape.flags, 'OP_EVAL disallowed')\n", "")], 'C09.R6')
V('c09-registry-wins-over-embedder', 'C09', 'break', [(F, "    tape.plugins = {**_plugins, **plugins}\n", "    tape.plugins = {**plugins, **_plugins}\n")], 'C09.R1')
V('c09-check-sig-plugin-after-pop', 'C09', 'break', [(F, "    run_sig_extensions(tape, stack, cache)\n    allowable_flags = int.from_bytes(tape.read(1), 'big')\n    vkey = stack.get()\n    sig = stack.get()\n", "    allowable_flags = int.from_bytes(tape.read(1), 'big')\n    vkey = stack.get()\n    sig = stack.get()\n    run_sig_extensions(tape, stack, cache)\n")], 'C09.R4')
V('c09-auth-drops-limit', 'C09', 'break', [(F, "            stack_max_item_size=stack_max_item_size,\n            callstack_limit=callstack_limit\n        )\n        assert tape.has_terminated()", "            stack_max_item_size=stack_max_item_size\n        )\n        assert tape.has_terminated()")], 'C09.R1')
V('c09-call-no-count-handover', 'C09', 'break', [(F, "    subtape.callstack_count = tape.callstack_count\n", "")], 'C09.R1', 'OP_CALL')
V('c09-p-plugins-copy', 'C09', 'preserve', [(F, "            contracts=tape.contracts,\n            plugins=tape.plugins\n        )\n        run_tape(subtape, stack, cache, additional_flags=tape.flags)\n        if _RETURNED in cache:\n            OP_RETURN(tape, stack, cache)\n\ndef OP_IF_ELSE",
                                            "            contracts=tape.contracts,\n            plugins={**tape.plugins}\n        )\n        run_tape(subtape, stack, cache, additional_flags=tape.flags)\n        if _RETURNED in cache:\n            OP_RETURN(tape, stack, cache)\n\ndef OP_IF_ELSE")])
V('c09-p-nonclobbering-defaults', 'C09', 'preserve', [(F, "    additional_flags = {**additional_flags}\n    for key in flags:\n        if type(key) in (str, int):\n", "    for key in flags:\n        if type(key) in (str, int) and key not in tape.flags:\n")])
V('c09-p-snapshot-dict', 'C09', 'preserve', [(F, "    additional_flags = {**additional_flags}\n", "    additional_flags = dict(additional_flags)\n")])

# ---------------------------------------------------------------------------- C11
V('c11-endif-two', 'C11', 'break', [(P, "        elif current_symbol == 'END_IF':\n            index += 1\n", "        elif current_symbol == 'END_IF':\n            index += 2\n")], 'C11.R3')
V('c11-shake-no-operand', 'C11', 'break', [(P, "            'OP_COPY' | 'OP_SHAKE256' | 'OP_REVERSE' |\n            'OP_CHECK_SIG' | 'OP_SIGN' | 'OP_TAPROOT' |", "            'OP_COPY' | 'OP_REVERSE' |\n            'OP_CHECK_SIG' | 'OP_SIGN' | 'OP_TAPROOT' |"),
                                          (P, "            'OP_SPLIT' | 'OP_SPLIT_STR' | 'OP_XOR' | 'OP_OR' | 'OP_AND'\n            ):\n            # ops that have no arguments on the tape\n            # human-readable syntax of OP_[whatever]\n            pass", "            'OP_SPLIT' | 'OP_SPLIT_STR' | 'OP_XOR' | 'OP_OR' | 'OP_AND' | 'OP_SHAKE256'\n            ):\n            # ops that have no arguments on the tape\n            # human-readable syntax of OP_[whatever]\n            pass")], 'C11.R2', 'OP_SHAKE256')
V('c11-push-256-one-byte', 'C11', 'break', [(P, "    elif 1 < len(val) < 256:\n", "    elif 1 < len(val) <= 256:\n")], 'C11.R4')
V('c11-push1-two-byte-prefix', 'C11', 'break', [(P, "        case 'x':\n            val = bytes.fromhex(val[1:])\n            args.append(len(val).to_bytes(1, 'big'))\n            args.append(val)\n", "        case 'x':\n            val = bytes.fromhex(val[1:])\n            args.append(len(val).to_bytes(2, 'big'))\n            args.append(val)\n")], 'C11.R2')
V('c11-loop-one-byte-len', 'C11', 'break', [(P, "            opcodes_inverse['OP_LOOP'][0].to_bytes(1, 'big'),\n            len(code).to_bytes(2, 'big'),", "            opcodes_inverse['OP_LOOP'][0].to_bytes(1, 'big'),\n            len(code).to_bytes(1, 'big'),")], 'C11.R2b')
V('c11-assemble-drops-parts', 'C11', 'break', [(P, "        advance, parts = parse_next(symbol, symbols, 0, index, macros)\n        index += advance\n        code.extend(parts)\n", "        advance, parts = parse_next(symbol, symbols, 0, index, macros)\n        index += advance\n")], 'C11.R5')
V('c11-op-without-case', 'C11', 'break', [(P, "            'OP_CHECK_ADAPTER_SIG' | 'OP_DECRYPT_ADAPTER_SIG' | 'OP_INVOKE' |\n            'OP_SPLIT' |", "            'OP_CHECK_ADAPTER_SIG' | 'OP_DECRYPT_ADAPTER_SIG' |\n            'OP_SPLIT' |")], 'C11.R1', 'OP_INVOKE')
V('c11-swap-three-operands', 'C11', 'break', [(P, "    symbols_to_advance += 2\n    vals = symbols[:2]\n\n    for val in vals:\n        yert(val[0].lower() in ('d', 'x'),\n            f'{opname} - numeric args must be prefaced with d or x; {val} is '\n            f'invalid - symbol {symbol_index}')\n\n        match val[0].lower():\n            case 'd':\n                vert(val[1:].isnumeric(),\n                    f'{opname} - value prefaced by d must be decimal int; '\n                    f'{val} is invalid - symbol {symbol_index}')\n                if '.' in val:\n                    val = int(val[1:].split('.')[0])\n                else:\n                    val = int(val[1:])\n                yert(0 <= val < 256,\n                    f'{opname} - index overflow - symbol {symbol_index}')\n                args.append(val.to_bytes(1, 'big'))\n            case 'x':\n                vert(len(val[1:]) == 2,\n                    f'{opname} - value prefaced by x must be 2 long (1 byte); '\n                    f'{val} is invalid - symbol {symbol_index}')\n                args.append(bytes.fromhex(val[1:]))\n    return (symbols_to_advance, args)\n\ndef _get_OP_CHECK_MULTISIG_args",
                                                "    symbols_to_advance += 2\n    vals = symbols[:2]\n\n    for val in vals:\n        yert(val[0].lower() in ('d', 'x'),\n            f'{opname} - numeric args must be prefaced with d or x; {val} is '\n            f'invalid - symbol {symbol_index}')\n\n        match val[0].lower():\n            case 'd':\n                vert(val[1:].isnumeric(),\n                    f'{opname} - value prefaced by d must be decimal int; '\n                    f'{val} is invalid - symbol {symbol_index}')\n                if '.' in val:\n                    val = int(val[1:].split('.')[0])\n                else:\n                    val = int(val[1:])\n                yert(0 <= val < 256,\n                    f'{opname} - index overflow - symbol {symbol_index}')\n                args.append(val.to_bytes(1, 'big'))\n            case 'x':\n                vert(len(val[1:]) == 4,\n                    f'{opname} - value prefaced by x must be 2 long (1 byte); '\n                    f'{val} is invalid - symbol {symbol_index}')\n                args.append(bytes.fromhex(val[1:]))\n    return (symbols_to_advance, args)\n\ndef _get_OP_CHECK_MULTISIG_args")], 'C11.R2', 'OP_SWAP')
V('c11-p-interval-spelling', 'C11', 'preserve', [(P, "    elif 1 < len(val) < 256:\n", "    elif 2 <= len(val) <= 255:\n")])
V('c11-p-endtry-unchanged-else', 'C11', 'preserve', [(P, "        if current_symbol in ('}', 'END_LOOP'):\n            index += 1\n            break\n", "        if current_symbol == '}' or current_symbol == 'END_LOOP':\n            index += 1\n            break\n")])

# ---------------------------------------------------------------------------- C12
V('c12-push2-signed', 'C12', 'break', [(P, "                size = int.from_bytes(tape.read(2), 'big')\n                val = tape.read(size)\n                add_line(f'{op_name} d{size} x{val.hex()}')", "                size = bytes_to_int(tape.read(2))\n                val = tape.read(size)\n                add_line(f'{op_name} d{size} x{val.hex()}')")], 'C12.R1')
V('c12-nop-unsigned', 'C12', 'break', [(P, "                    val = bytes_to_int(tape.read(1))\n                    add_line(f'{op_name} d{val}')", "                    val = tape.read(1)[0]\n                    add_line(f'{op_name} d{val}')")], 'C12.R6')
V('c12-swap-one-operand', 'C12', 'break', [(P, "                idx1 = tape.read(1)[0]\n                idx2 = tape.read(1)[0]\n                add_line(f'{op_name} d{idx1} d{idx2}')", "                idx1 = tape.read(1)[0]\n                add_line(f'{op_name} d{idx1} d{idx1}')")], 'C12.R4', 'OP_SWAP')
V('c12-merkleval-31', 'C12', 'break', [(P, "                digest = tape.read(32)\n", "                digest = tape.read(31)\n")], 'C12.R4', 'OP_MERKLEVAL')
V('c12-loop-peek', 'C12', 'break', [(P, "        op_code = tape.read(1)[0]\n        vert(op_code in opcodes or op_code in nopcodes,", "        op_code = tape.read(1, False)[0]\n        vert(op_code in opcodes or op_code in nopcodes,")], 'C12.R2')
V('c12-if-len-signed', 'C12', 'break', [(P, "                if_len = int.from_bytes(tape.read(2), 'big')\n                if_body = tape.read(if_len)\n                if_lines = decompile_script(if_body, indent+1)\n                add_line('OP_IF {')\n                code_lines.extend(if_lines)\n                add_line('}')\n            case 'OP_IF_ELSE':", "                if_len = int.from_bytes(tape.read(2), 'big', signed=True)\n                if_body = tape.read(if_len)\n                if_lines = decompile_script(if_body, indent+1)\n                add_line('OP_IF {')\n                code_lines.extend(if_lines)\n                add_line('}')\n            case 'OP_IF_ELSE':")], 'C12.R1')
V('c12-recursion-on-whole-script', 'C12', 'break', [(P, "                lop_body = tape.read(loop_len)\n                loop_lines = decompile_script(lop_body, indent+1)", "                lop_body = tape.read(loop_len)\n                loop_lines = decompile_script(script, indent+1)")], 'C12.R3')
V('c12-write-cache-count-dropped', 'C12', 'break', [(P, "                add_line(f'{op_name} x{val.hex()} d{count}')", "                add_line(f'{op_name} x{val.hex()} d1')")], 'C12.R5')
V('c12-softfork-signed-size', 'C12', 'break', [(T, "        val = tape.read(1)[0]\n        return [f'{opname} d{val}']", "        val = tape.read(bytes_to_int(tape.read(1)))\n        return [f'{opname} x{val.hex()}']")], 'C12.R1')
V('c12-p-push1-uint', 'C12', 'preserve', [(P, "                size = tape.read(1)[0]\n                val = tape.read(size)\n                add_line(f'{op_name} d{size} x{val.hex()}')", "                size = int.from_bytes(tape.read(1), 'big')\n                val = tape.read(size)\n                add_line(f'{op_name} d{size} x{val.hex()}')")])

# ---------------------------------------------------------------------------- C16
V('c16-ts-le', 'C16', 'break', [(F, "    if cache['timestamp'] < constraint:\n", "    if cache['timestamp'] <= constraint:\n")], 'C16.R1')
V('c16-ts-drop-thr-positive', 'C16', 'break', [(F, "    elif difference >= tape.flags['ts_threshold'] and \\\n        tape.flags['ts_threshold'] > 0:\n", "    elif difference >= tape.flags['ts_threshold']:\n")], 'C16.R1')
V('c16-ts-slack-gt', 'C16', 'break', [(F, "    elif difference >= tape.flags['ts_threshold'] and \\\n", "    elif difference > tape.flags['ts_threshold'] and \\\n")], 'C16.R1')
V('c16-ts-swapped-difference', 'C16', 'break', [(F, "    difference = cache['timestamp'] - int(time())\n", "    difference = int(time()) - cache['timestamp']\n")], 'C16.R1')
V('c16-ts-signed-constraint', 'C16', 'break', [(F, "        'OP_CHECK_TIMESTAMP malformed constraint encountered')\n    constraint = int.from_bytes(constraint, 'big')\n", "        'OP_CHECK_TIMESTAMP malformed constraint encountered')\n    constraint = bytes_to_int(constraint)\n")], 'C16.R1')
V('c16-epoch-gt', 'C16', 'break', [(F, "    if constraint - int(time()) >= tape.flags['epoch_threshold']:\n", "    if constraint - int(time()) > tape.flags['epoch_threshold']:\n")], 'C16.R2')
V('c16-epoch-verify-dropped', 'C16', 'break', [(F, "    OP_CHECK_EPOCH(tape, stack, cache)\n    OP_VERIFY(tape, stack, cache)\n", "    OP_CHECK_EPOCH(tape, stack, cache)\n")], 'C16.R3')
V('c16-ts-true-false-swapped', 'C16', 'break', [(F, "        tape.flags['ts_threshold'] > 0:\n        stack.put(b'\\x00')\n    else:\n        stack.put(b'\\xff')\n", "        tape.flags['ts_threshold'] > 0:\n        stack.put(b'\\xff')\n    else:\n        stack.put(b'\\x00')\n")], 'C16.R1')
V('c16-p-flipped-compare', 'C16', 'preserve', [(F, "    if cache['timestamp'] < constraint:\n", "    if constraint > cache['timestamp']:\n")])
V('c16-p-not-lt', 'C16', 'preserve', [(F, "    elif difference >= tape.flags['ts_threshold'] and \\\n", "    elif not difference < tape.flags['ts_threshold'] and \\\n")])
V('c16-p-epoch-rearranged', 'C16', 'preserve', [(F, "    if constraint - int(time()) >= tape.flags['epoch_threshold']:\n", "    if constraint >= tape.flags['epoch_threshold'] + int(time()):\n")])

# ---------------------------------------------------------------------------- C19
V('c19-reset-iterates-live-list', 'C19', 'break', [(F, "        for plugin in [*_plugins[scope]]\n", "        for plugin in _plugins[scope]\n")], 'C19.R1')
V('c19-add-plugin-duplicates', 'C19', 'break', [(F, "    if plugin not in _plugins[scope]:\n        _plugins[scope].append(plugin)\n", "    _plugins[scope].append(plugin)\n")], 'C19.R2s')
V('c19-run-script-registers-contracts', 'C19', 'break', [(F, "    tape.contracts = {**_contracts, **contracts}\n", "    _contracts.update(contracts)\n    tape.contracts = {**_contracts}\n")], 'C19.R2')
V('c19-assemble-shared-default', 'C19', 'break', [(P, "def assemble(symbols: list[str], macros: dict = None) -> bytes:", "def assemble(symbols: list[str], macros: dict = {}) -> bytes:"),
                                                  (P, "    macros = {} if macros is None else macros\n    index = 0\n", "    index = 0\n")], 'C19.R3')
V('c19-cache-aliases-embedder', 'C19', 'break', [(F, "    cache = {'timestamp': int(time()), **cache_vals}\n", "    cache = cache_vals\n    cache['timestamp'] = int(time())\n")], 'C19.R4')
V('c19-remove-contract-unguarded', 'C19', 'break', [(F, "    if contract_id in _contracts:\n        del _contracts[contract_id]\n", "    del _contracts[contract_id]\n")], 'C19.R2s')
V('c19-compile-reuses-macros', 'C19', 'break', [(P, "    macros = {}\n    symbols = get_symbols(script)\n    return assemble(symbols, macros=macros)", "    symbols = get_symbols(script)\n    return assemble(symbols, macros=_shared_macros)"),
                                                (P, "additional_opcodes = {}\n", "additional_opcodes = {}\n_shared_macros = {}\n")], 'C19.R2')
V('c19-p-list-copy', 'C19', 'preserve', [(F, "        for plugin in [*_plugins[scope]]\n", "        for plugin in list(_plugins[scope])\n")])
V('c19-p-reset-clear', 'C19', 'preserve', [(F, "    [\n        remove_plugin(scope, plugin)\n        for plugin in [*_plugins[scope]]\n    ]\n", "    _plugins[scope].clear()\n")])


from . import variants_tpl as _tpl      # noqa: E402
_tpl.register(V)
_tpl.register2(V)
_tpl.register3(V)
_tpl.register4(V)
_tpl.register5(V)
_tpl.register6(V)

# ---------------------------------------------------------------------------- global preserving rewrites
_ALL = ['C01', 'C02', 'C03', 'C04', 'C05', 'C06', 'C07', 'C08', 'C09', 'C11', 'C12', 'C13', 'C14', 'C15', 'C16',
        'C17', 'C19', 'C20']
for _p in _ALL:
    VARIANTS.append({'id': f'{_p.lower()}-p-reformat-all', 'prop': _p, 'kind': 'preserve', 'edits': [],
                     'transform': ('reformat',)})
    VARIANTS.append({'id': f'{_p.lower()}-p-rename-locals-vm', 'prop': _p, 'kind': 'preserve', 'edits': [],
                     'transform': ('rename', F, {'subtape': 'inner_tape', 'def_data': 'body_bytes', 'def_size': 'body_len',
                                                 'confirmed': 'ok_sigs', 'vkeys': 'candidates', 'init_pointer': 'saved_ptr',
                                                 'allowable_flags': 'permitted', 'root_hash': 'committed_root',
                                                 'loop_def': 'loop_body', 'difference': 'ahead_by',
                                                 'pubkey_or_sig': 'next_item', 'n_copies': 'howmany'})})
    VARIANTS.append({'id': f'{_p.lower()}-p-guards-as-if-raise', 'prop': _p, 'kind': 'preserve', 'edits': [],
                     'transform': ('guards-to-if', [F, C])})
    VARIANTS.append({'id': f'{_p.lower()}-p-rename-vm-params', 'prop': _p, 'kind': 'preserve', 'edits': [],
                     'transform': ('rename', F, {'stack': 'stk', 'cache': 'regs', 'sig_flag': 'sflag', 'constraint': 'bound',
                                                 'n_items': 'how_many', 'skey_seed': 'seed_bytes'})})
    VARIANTS.append({'id': f'{_p.lower()}-p-invert-ifs-vm', 'prop': _p, 'kind': 'preserve', 'edits': [],
                     'transform': ('invert-ifs', [F, C])})
    VARIANTS.append({'id': f'{_p.lower()}-p-first-arg-temps-vm', 'prop': _p, 'kind': 'preserve', 'edits': [],
                     'transform': ('first-arg-temps', [F, C])})
    VARIANTS.append({'id': f'{_p.lower()}-p-invert-ifs-parser-tools', 'prop': _p, 'kind': 'preserve', 'edits': [],
                     'transform': ('invert-ifs', [P, T])})
    VARIANTS.append({'id': f'{_p.lower()}-p-first-arg-temps-parser-tools', 'prop': _p, 'kind': 'preserve', 'edits': [],
                     'transform': ('first-arg-temps', [P, T])})
    VARIANTS.append({'id': f'{_p.lower()}-p-expand-augassign-all', 'prop': _p, 'kind': 'preserve', 'edits': [],
                     'transform': ('expand-augassign', [F, C, P, T])})
    VARIANTS.append({'id': f'{_p.lower()}-p-flip-order-comparisons-all', 'prop': _p, 'kind': 'preserve', 'edits': [],
                     'transform': ('flip-order-comparisons', [F, C, P, T])})
    VARIANTS.append({'id': f'{_p.lower()}-p-extract-handler-tails', 'prop': _p, 'kind': 'preserve', 'edits': [],
                     'transform': ('extract-tails',)})
    VARIANTS.append({'id': f'{_p.lower()}-p-rename-locals-tools', 'prop': _p, 'kind': 'preserve', 'edits': [],
                     'transform': ('rename', T, {'root': 'tap_root', 'src': 'template_src', 'sig': 'signature_bytes',
                                                 'left_data': 'lhs_bytes', 'right_type': 'rhs_tag'})})
    VARIANTS.append({'id': f'{_p.lower()}-p-rename-locals-parser', 'prop': _p, 'kind': 'preserve', 'edits': [],
                     'transform': ('rename', P, {'code_lines': 'listing', 'def_lines': 'fn_lines', 'if_len': 'then_len',
                                                 'symbols_to_advance': 'consumed', 'search_idx': 'stop_at',
                                                 'closing_brace_index': 'close_at', 'except_len': 'handler_len',
                                                 'current_symbol': 'sym_now', 'val': 'opnd', 'op_name': 'mnemonic',
                                                 'else_len': 'alt_len', 'hoist_code': 'cond_code'})})


# ---------------------------------------------------------------------------- seeded changes
def _load_seeded():
    import json, os
    root = os.path.join(os.path.dirname(os.path.dirname(os.path.abspath(__file__))), 'seeded')
    if not os.path.isdir(root):
        return
    for sid in sorted(os.listdir(root)):
        mp = os.path.join(root, sid, 'meta.json')
        pp = os.path.join(root, sid, 'patch.diff')
        if not (os.path.exists(mp) and os.path.exists(pp)):
            continue
        m = json.load(open(mp))
        rule = m.get('expected_rule')
        if not rule:
            continue
        prop = rule.split('.')[0]
        VARIANTS.append({'id': 'seed-' + sid, 'prop': prop, 'kind': 'break', 'edits': [], 'patch': pp, 'expect': rule})
        # the same defect after a behaviour-preserving refactor of the files it touches must still be reported
        touched = [l[6:].strip() for l in open(pp) if l.startswith('+++ b/')]
        vm = [t for t in touched if t.endswith(('functions.py', 'classes.py'))]
        pt = [t for t in touched if t.endswith(('parsing.py', 'tools.py'))]
        for tag, tf in (('temps', 'first-arg-temps'), ('inverted', 'invert-ifs'), ('augexp', 'expand-augassign')):
            files = vm + pt
            if files:
                VARIANTS.append({'id': f'seed-{sid}+{tag}', 'prop': prop, 'kind': 'break', 'edits': [], 'patch': pp,
                                 'expect': rule, 'post_transform': (tf, files)})
        if vm and any(t.endswith('functions.py') for t in vm):
            VARIANTS.append({'id': f'seed-{sid}+tails', 'prop': prop, 'kind': 'break', 'edits': [], 'patch': pp,
                             'expect': rule, 'post_transform': ('extract-tails',)})


_load_seeded()


# ---------------------------------------------------------------------------- preserving refactors kept as patches
def _load_preserving():
    import json, os
    root = os.path.join(os.path.dirname(os.path.dirname(os.path.abspath(__file__))), 'preserving')
    if not os.path.isdir(root):
        return
    for sid in sorted(os.listdir(root)):
        mp = os.path.join(root, sid, 'meta.json')
        pp = os.path.join(root, sid, 'patch.diff')
        if not (os.path.exists(mp) and os.path.exists(pp)):
            continue
        m = json.load(open(mp))
        for prop in m.get('props', []):
            VARIANTS.append({'id': f'keep-{sid}', 'prop': prop, 'kind': 'preserve', 'edits': [], 'patch': pp, 'expect': None})


_load_preserving()
