"""E8 - verdict lines, evidence files, replay files, known-findings lookup.

Verdict protocol (DESIGN.md section 3):
  exit 0  every armed rule instance discharged, or is a listed known finding
  exit 1  VIOLATION property=<id> replay=<path>   (unlisted failing instance)
  exit 2  ANALYSIS-ERROR property=<id> ...        (anchor vanished, floor missed,
          unrecognised idiom at an obligation, analyser raised)
"""
from __future__ import annotations
import json
import os
import time

VERIF = os.path.dirname(os.path.dirname(os.path.abspath(__file__)))
EVIDENCE_DIR = os.environ.get('TSA_EVIDENCE_DIR', os.path.join(VERIF, 'evidence'))
KNOWN_FILE = os.path.join(VERIF, 'known_findings.json')


class AnalysisError(Exception):
    """The analyser cannot decide: anchor vanished, idiom unrecognised, floor missed."""


def load_known() -> list[dict]:
    if not os.path.exists(KNOWN_FILE):
        return []
    with open(KNOWN_FILE) as f:
        return json.load(f)['findings']


class Instance:
    __slots__ = ('rule', 'construct', 'ok', 'line', 'file', 'why', 'facts', 'trivial')

    def __init__(self, rule, construct, ok, line, file, why, facts, trivial):
        self.rule = rule
        self.construct = construct
        self.ok = ok
        self.line = line
        self.file = file
        self.why = why
        self.facts = facts
        self.trivial = trivial

    def key(self) -> str:
        return f'{self.rule}|{self.construct}'

    def as_dict(self) -> dict:
        d = {'rule': self.rule, 'construct': self.construct, 'ok': self.ok}
        if self.file:
            d['file'] = self.file
        if self.line:
            d['line'] = self.line
        if self.why:
            d['why'] = self.why
        if self.facts is not None:
            d['facts'] = self.facts
        return d


class Report:
    """Collects rule instances for one property and renders the verdict."""

    def __init__(self, prop: str, tier: str = 'quick', seed: int = 0,
                 level: str = 'other', quiet: bool = False):
        self.prop = prop
        self.tier = tier
        self.seed = seed
        self.level = level
        self.quiet = quiet
        self.instances: list[Instance] = []
        self.rules: dict[str, dict] = {}
        self.notes: list[str] = []
        self.analysed: dict[str, list] = {}
        self.assumptions: list[str] = []
        self.trusted_base: list[str] = []
        self.explanation = ''
        self.errors: list[str] = []
        self.audit: dict | None = None
        self.t0 = time.time()

    # -- declaration -------------------------------------------------------
    def rule(self, rule_id: str, text: str, floor: int = 1) -> None:
        self.rules[rule_id] = {'text': text, 'floor': floor}

    def check(self, rule: str, construct: str, ok: bool, *, line: int | None = None,
              file: str | None = None, why: str = '', facts=None,
              trivial: bool = False) -> bool:
        if rule not in self.rules:
            raise AnalysisError(f'rule {rule} used before declaration')
        self.instances.append(Instance(rule, construct, bool(ok), line, file, why, facts, trivial))
        return bool(ok)

    def note(self, text: str) -> None:
        self.notes.append(text)

    def covered(self, kind: str, item) -> None:
        self.analysed.setdefault(kind, [])
        if item not in self.analysed[kind]:
            self.analysed[kind].append(item)

    def error(self, text: str) -> None:
        self.errors.append(text)

    # -- verdict -----------------------------------------------------------
    def finish(self) -> int:
        known = [k for k in load_known() if k.get('property') == self.prop]
        known_keys = {f"{k['rule']}|{k['construct']}": k for k in known
                      if k.get('status') == 'known'}
        per_rule: dict[str, dict] = {}
        for rid, meta in self.rules.items():
            per_rule[rid] = {'text': meta['text'], 'floor': meta['floor'],
                             'instances': 0, 'discharged': 0}
        for inst in self.instances:
            pr = per_rule[inst.rule]
            pr['instances'] += 1
            if inst.ok:
                pr['discharged'] += 1
        floor_errors = []
        for rid, pr in per_rule.items():
            if pr['instances'] < pr['floor']:
                floor_errors.append(
                    f'rule {rid} examined {pr["instances"]} instances, floor is '
                    f'{pr["floor"]} (anchor vanished or inventory incomplete)')

        failing = [i for i in self.instances if not i.ok]
        violations = [i for i in failing if i.key() not in known_keys]
        findings = [i for i in failing if i.key() in known_keys]
        seen_known = {i.key() for i in findings}
        # A floor guards against a *vacuous pass*.  When a completed rule instance already reports a
        # violation and nothing else went wrong, a shrunken inventory is the expected side effect of
        # the broken construct: report the violation (exit 1) and mention the floor as a note.  When the
        # analysis itself failed (an AnalysisError was raised) the run stays undecided (exit 2).
        floor_notes = []
        if violations and not self.errors:
            floor_notes = floor_errors
        else:
            self.errors = self.errors + floor_errors

        lines: list[str] = []
        code = 0
        if self.errors:
            code = 2
            for e in self.errors:
                lines.append(f'ANALYSIS-ERROR property={self.prop} {e}')
        for e in floor_notes:
            lines.append(f'NOTE property={self.prop} {e}')
        for i in findings:
            k = known_keys[i.key()]
            lines.append(f'KNOWN-FINDING: property={self.prop} {i.rule} {i.construct} '
                         f'-- {k.get("what", i.why)}')
        replay_paths = []
        if violations:
            # a completed rule instance that reports a violation stands on its own: another rule that could not be
            # evaluated (printed above) leaves *its* clauses undecided, it does not un-decide this one
            code = 1
        if violations:
            os.makedirs(os.path.join(EVIDENCE_DIR, 'replay'), exist_ok=True)
            for n, i in enumerate(violations):
                path = os.path.join(EVIDENCE_DIR, 'replay', f'{self.prop}-{n}.json')
                with open(path, 'w') as f:
                    json.dump({'property': self.prop, 'rule': i.rule,
                               'construct': i.construct, 'file': i.file,
                               'line': i.line, 'why': i.why, 'facts': i.facts,
                               'rule_text': self.rules[i.rule]['text']}, f, indent=1,
                              default=str)
                replay_paths.append(path)
                if code == 1:
                    lines.append(f'VIOLATION property={self.prop} replay={path}')
                else:
                    lines.append(f'(suppressed by analysis error) violation property={self.prop} '
                                 f'replay={path}')
                lines.append(f'  rule={i.rule} at={i.file or "?"}:{i.construct} '
                             f'line={i.line or "?"} why={i.why}')

        obligations = len(self.instances)
        discharged = sum(1 for i in self.instances if i.ok)
        nontrivial = len({i.key() for i in self.instances if not i.trivial})
        samples = [i.as_dict() for i in self.instances[:6]]
        if failing:
            samples = [i.as_dict() for i in failing[:4]] + samples[:4]
        level = self.level
        if level == 'proof' and (discharged != obligations or code != 0):
            level = 'other'
        coverage = {
            'obligations': obligations,
            'discharged': discharged,
            'evaluations': max(obligations, 1),
            'distinct_nontrivial': nontrivial,
            'rule': 'one evaluation = one rule instance (rule x construct) extracted from '
                    "/repo's current source; non-trivial = the instance carries an "
                    'obligation that an edit of that construct can break (inventory-only '
                    'instances are marked trivial); distinct = distinct rule|construct key',
            'samples': samples,
            'explanation': self.explanation or 'see per_rule',
            'checker_cmd': f'./check {self.prop} --tier {self.tier}',
            'trusted_base': self.trusted_base or ['CPython ast module',
                                                  'tsa analyser in /verif/tsa'],
            'exhaustive': True,
            'per_rule': per_rule,
            'analysed': self.analysed,
            'known_findings_reported': sorted(seen_known),
            'notes': self.notes,
        }
        if self.audit is not None:
            coverage['audit'] = self.audit
        evidence = {
            'property_id': self.prop,
            'tier': self.tier,
            'seed': self.seed,
            'level': level,
            'coverage': coverage,
            'assumptions': self.assumptions,
            'wall_s': round(time.time() - self.t0, 3),
            'violations': len(violations),
        }
        os.makedirs(EVIDENCE_DIR, exist_ok=True)
        with open(os.path.join(EVIDENCE_DIR, f'{self.prop}.json'), 'w') as f:
            json.dump(evidence, f, indent=1, default=str)
        self.exit_code = code
        self.lines = lines
        self.violations = violations
        self.findings = findings
        if not self.quiet:
            for rid, pr in per_rule.items():
                print(f'{self.prop} {rid}: {pr["discharged"]}/{pr["instances"]} instances '
                      f'discharged (floor {pr["floor"]}) - {pr["text"]}')
            for ln in lines:
                print(ln)
            print(f'{self.prop}: exit {code}; {discharged}/{obligations} obligations '
                  f'discharged; {len(findings)} known finding(s); '
                  f'{len(violations)} violation(s)')
        return code


def depend(rep: 'Report', world, module_name: str, rule_prefixes: tuple, as_rule: str, text: str, floor: int = 1,
           only=None):
    """Re-use rules of another property as *dependency* obligations: the instances of the selected
    rules are evaluated by that module and recorded here under `as_rule` (construct prefixed with the
    original rule id).  Known findings of the other property stay known only there; here a failing
    dependency is a violation of this property too, unless listed for this property."""
    import importlib
    cache = world.__dict__.setdefault('_dep_cache', {})
    if cache.get(module_name) == 'running':
        # mutual dependency: the module that is being evaluated further up the stack reports its own rules
        rep.rule(as_rule, text, floor=0)
        return
    if module_name not in cache:
        cache[module_name] = 'running'
        mod = importlib.import_module(f'tsa.{module_name}')
        sub = Report(rep.prop, tier=rep.tier, seed=rep.seed, quiet=True)
        failed = None
        try:
            mod.run(world, sub)
        except AnalysisError as e:
            failed = AnalysisError(f'dependency {module_name}: {e}')
        except Exception as e:
            failed = AnalysisError(f'dependency {module_name}: analyser raised {type(e).__name__}: {e}')
        # what the dependency decided before it gave up still stands (a violation it found is a violation here too)
        cache[module_name] = (list(sub.instances), failed)
    insts, failed = cache[module_name]
    rep.rule(as_rule, text, floor=floor if failed is None else 0)
    if failed is not None:
        rep.error(str(failed))
    for inst in insts:
        if inst.rule in rule_prefixes and (only is None or only(inst.construct)):
            rep.check(as_rule, f'{inst.rule}|{inst.construct}', inst.ok, line=inst.line, file=inst.file,
                      why=inst.why, facts=inst.facts, trivial=inst.trivial)
