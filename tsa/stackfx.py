"""Stack-effect summaries of VM handlers by an abstract counting interpretation of the handler's
ast (depth domain, path sets).  `effect(handler, operands)` -> (needs, net) where `needs` is the
stack depth required at entry and `net` the change; DYNAMIC when non-raising paths disagree or the
effect depends on evaluated sub-scripts / stack or cache contents; RAISES when no path completes.

Nothing is executed.  The walker keeps a *set* of abstract states (depth, low-water mark, an
environment of small abstract values, the remaining operand stream).  A branch whose condition is
known from the operand values takes one side; an unknown condition forks.  `range(..)` loops whose
bound is known are unrolled; loops with an unknown trip count must be stack-neutral.  Calls to other
handlers are inlined on the shared or the freshly built operand tape.  Guard helpers (discovered from
errors.py) kill the path when their condition is known false and are otherwise ignored, like `raise`.
"""
from __future__ import annotations
import ast
from .report import AnalysisError
from .summary import World
from .model import dotted

DYNAMIC = 'dynamic'
RAISES = 'raises'
MAX_STATES = 512
MAX_UNROLL = 300
MAX_STEPS = 60000


class _Dyn(Exception):
    pass


class _Die(Exception):
    """This path ends in an error."""


class State:
    __slots__ = ('d', 'mn', 'env', 'ops')

    def __init__(self, d=0, mn=0, env=None, ops=()):
        self.d = d
        self.mn = mn
        self.env = dict(env or {})
        self.ops = tuple(ops)

    def copy(self):
        return State(self.d, self.mn, self.env, self.ops)

    def key(self):
        return (self.d, self.mn, tuple(sorted(self.env.items(), key=lambda kv: kv[0])), self.ops)

    # events
    def get(self, n=1):
        self.d -= n
        self.mn = min(self.mn, self.d)

    def peek(self, depth=1):
        self.mn = min(self.mn, self.d - depth)

    def put(self, n=1):
        self.d += n

    def next_operand(self):
        if not self.ops:
            return None
        v = self.ops[0]
        self.ops = self.ops[1:]
        return v


def _dedup(states):
    seen, out = set(), []
    for s in states:
        k = s.key()
        if k not in seen:
            seen.add(k)
            out.append(s)
    if len(out) > MAX_STATES:
        raise _Dyn()
    return out


class _Ctx:
    __slots__ = ('fi', 'tape', 'stack', 'cache', 'depth')

    def __init__(self, fi, depth):
        self.fi = fi
        self.tape, self.stack, self.cache = fi.params[:3]
        self.depth = depth


class StackFx:
    def __init__(self, w: World):
        self.w = w
        self._memo = {}
        self.guards = set(w.exc.guards) if hasattr(w, 'exc') else {'sert', 'vert', 'tert', 'yert'}
        from .feval import module_consts
        self.consts = module_consts(w.repo, 'functions')     # named integer constants and enum members

    # ------------------------------------------------------------------
    def effect(self, hname: str, operands: tuple = ()):
        key = (hname, tuple(operands))
        if key in self._memo:
            return self._memo[key]
        fi = self.w.handlers[hname]
        self._budget = MAX_STEPS
        try:
            outs = self._run_handler(fi, State(ops=tuple(operands)), 0)
            ends = [s for k, s in outs if k in ('fall', 'return')]
            if not ends:
                res = RAISES
            elif len({s.d for s in ends}) != 1:
                res = DYNAMIC
            else:
                res = (max(-s.mn for s in ends), ends[0].d)
        except _Dyn:
            res = DYNAMIC
        except RecursionError:
            res = DYNAMIC
        self._memo[key] = res
        return res

    def operand_count(self, hname: str) -> int:
        from .summary import tape_reads
        fi = self.w.handlers[hname]
        seqs = tape_reads(self.w, fi)
        if not seqs:
            return 0
        return len(seqs[0])

    # ------------------------------------------------------------------
    def _run_handler(self, fi, st: State, depth: int):
        if depth > 6:
            raise _Dyn()
        cx = _Ctx(fi, depth)
        body = fi.node.body
        entry = State(st.d, st.mn, {}, st.ops)
        return self._block(body, [entry], cx)

    def _block(self, stmts, states, cx):
        """-> list of (kind, State); kind in fall / return / break / continue."""
        outs = []
        cur = list(states)
        for s in stmts:
            nxt = []
            for st in cur:
                try:
                    for k, s2 in self._stmt(s, st, cx):
                        if k == 'fall':
                            nxt.append(s2)
                        else:
                            outs.append((k, s2))
                except _Die:
                    pass
            cur = _dedup(nxt)
            if not cur:
                break
        return outs + [('fall', s) for s in cur]

    # ------------------------------------------------------------------ expressions
    def _is_own_stack(self, e, cx):
        return isinstance(e, ast.Name) and e.id == cx.stack

    def _mentions_vm(self, e, cx) -> bool:
        """Could evaluating e change the own stack's depth or consume operands?  (References to the own
        stack, reads of the own tape, calls of handlers / run_tape; plain `tape.flags[..]` loads do not.)"""
        for n in ast.walk(e):
            if isinstance(n, ast.Name) and n.id == cx.stack:
                return True
            if isinstance(n, ast.Call):
                f = n.func
                if isinstance(f, ast.Attribute) and isinstance(f.value, ast.Name) and f.value.id == cx.tape and \
                        f.attr in ('read', 'move_pointer'):
                    return True
                if isinstance(f, ast.Name) and (f.id == 'run_tape' or f.id in self.w.handlers):
                    return True
        return False

    def ev(self, e, st: State, cx):
        """Abstract value of e (int | ('len',n) | ('operand',v) | ('tape',ops) | ('dict',pairs) | None);
        performs the stack / operand events of e on st."""
        if e is None:
            return None
        if isinstance(e, ast.Constant):
            if isinstance(e.value, bool):
                return int(e.value)
            if isinstance(e.value, int):
                return e.value
            if isinstance(e.value, bytes):
                return ('operand', int.from_bytes(e.value, 'big') if len(e.value) <= 8 else None, len(e.value))
            return None
        if isinstance(e, ast.Name):
            v = st.env.get(e.id)
            if v is None and e.id not in st.env:
                c = self.consts(e.id)
                if isinstance(c, int):
                    return int(c)
            return v
        if isinstance(e, ast.BinOp):
            l, r = self.ev(e.left, st, cx), self.ev(e.right, st, cx)
            if isinstance(l, int) and isinstance(r, int):
                try:
                    if isinstance(e.op, ast.Add):
                        return l + r
                    if isinstance(e.op, ast.Sub):
                        return l - r
                    if isinstance(e.op, ast.Mult):
                        return l * r
                    if isinstance(e.op, ast.BitAnd):
                        return l & r
                    if isinstance(e.op, ast.BitOr):
                        return l | r
                    if isinstance(e.op, ast.FloorDiv) and r:
                        return l // r
                    if isinstance(e.op, ast.Mod) and r:
                        return l % r
                    if isinstance(e.op, ast.LShift) and 0 <= r < 64:
                        return l << r
                    if isinstance(e.op, ast.RShift) and 0 <= r < 64:
                        return l >> r
                except Exception:
                    return None
            return None
        if isinstance(e, ast.UnaryOp):
            v = self.ev(e.operand, st, cx)
            if isinstance(e.op, ast.Not):
                t = self._truth(v)
                return None if t is None else int(not t)
            if isinstance(e.op, ast.USub) and isinstance(v, int):
                return -v
            return None
        if isinstance(e, ast.BoolOp):
            first = self.ev(e.values[0], st, cx)
            rest_has = any(self._mentions_vm(v, cx) for v in e.values[1:])
            t = self._truth(first)
            if rest_has:
                if t is None:
                    raise _Dyn()
                short = (isinstance(e.op, ast.And) and not t) or (isinstance(e.op, ast.Or) and t)
                if short:
                    return first
                val = first
                for v in e.values[1:]:
                    val = self.ev(v, st, cx)
                    tv = self._truth(val)
                    if tv is None and v is not e.values[-1]:
                        raise _Dyn()
                    if tv is not None and ((isinstance(e.op, ast.And) and not tv) or (isinstance(e.op, ast.Or) and tv)):
                        return val
                return val
            vals = [first] + [self.ev(v, st, cx) for v in e.values[1:]]
            ts = [self._truth(v) for v in vals]
            if isinstance(e.op, ast.And):
                if any(t is False for t in ts):
                    return 0
                if all(t is True for t in ts):
                    return 1
            else:
                if any(t is True for t in ts):
                    return 1
                if all(t is False for t in ts):
                    return 0
            return None
        if isinstance(e, ast.Compare):
            vals = [self.ev(e.left, st, cx)] + [self.ev(c, st, cx) for c in e.comparators]
            if len(e.ops) == 1 and all(isinstance(v, int) for v in vals):
                a, b = vals
                op = e.ops[0]
                table = {ast.Lt: a < b, ast.LtE: a <= b, ast.Gt: a > b, ast.GtE: a >= b, ast.Eq: a == b, ast.NotEq: a != b}
                for k, v in table.items():
                    if isinstance(op, k):
                        return int(v)
            return None
        if isinstance(e, ast.IfExp):
            t = self._truth(self.ev(e.test, st, cx))
            if t is True:
                return self.ev(e.body, st, cx)
            if t is False:
                return self.ev(e.orelse, st, cx)
            a, b = st.copy(), st.copy()
            va, vb = self.ev(e.body, a, cx), self.ev(e.orelse, b, cx)
            if a.d != b.d or a.ops != b.ops:
                raise _Dyn()
            st.d, st.mn, st.ops = a.d, min(a.mn, b.mn), a.ops
            return va if va == vb else None
        if isinstance(e, ast.Subscript):
            base = e.value
            # stack.deque[...] : a read below the top
            if isinstance(base, ast.Attribute) and self._is_own_stack(base.value, cx) and base.attr == 'deque':
                iv = self.ev(e.slice, st, cx) if not isinstance(e.slice, ast.Slice) else None
                if isinstance(iv, int) and iv < 0:
                    st.peek(-iv)
                return None
            v = self.ev(base, st, cx)
            if isinstance(e.slice, ast.Slice):
                for x in (e.slice.lower, e.slice.upper, e.slice.step):
                    self.ev(x, st, cx)
                return None
            iv = self.ev(e.slice, st, cx)
            if isinstance(v, tuple) and v[0] == 'operand' and iv == 0 and (len(v) < 3 or v[2] == 1 or v[2] is None):
                return v[1]
            if isinstance(v, tuple) and v[0] == 'dict':
                for k, val in v[1]:
                    if k == iv or (isinstance(e.slice, ast.Constant) and k == e.slice.value):
                        return val
            return None
        if isinstance(e, ast.Attribute):
            self.ev(e.value, st, cx) if not isinstance(e.value, ast.Name) else None
            c = self.consts(ast.unparse(e))
            return int(c) if isinstance(c, int) else None
        if isinstance(e, ast.Dict):
            pairs = []
            ok = True
            for k, v in zip(e.keys, e.values):
                val = self.ev(v, st, cx)
                if k is None or not isinstance(k, ast.Constant):
                    ok = False
                    if k is not None:
                        self.ev(k, st, cx)
                    continue
                pairs.append((k.value, val))
            return ('dict', tuple(pairs)) if ok else None
        if isinstance(e, (ast.List, ast.Tuple, ast.Set)):
            for x in e.elts:
                self.ev(x.value if isinstance(x, ast.Starred) else x, st, cx)
            if any(isinstance(x, ast.Starred) for x in e.elts):
                return None
            return ('len', len(e.elts))
        if isinstance(e, (ast.ListComp, ast.SetComp, ast.GeneratorExp, ast.DictComp)):
            return self._comp(e, st, cx)
        if isinstance(e, ast.Call):
            return self._call(e, st, cx)
        if isinstance(e, ast.JoinedStr):
            for v in e.values:
                if isinstance(v, ast.FormattedValue):
                    self.ev(v.value, st, cx)
            return None
        if isinstance(e, ast.NamedExpr):
            v = self.ev(e.value, st, cx)
            if isinstance(e.target, ast.Name):
                self._bind(e.target.id, v, st)
            return v
        if isinstance(e, ast.Starred):
            return self.ev(e.value, st, cx)
        if isinstance(e, ast.Lambda):
            if self._mentions_vm(e, cx):
                raise _Dyn()
            return None
        for ch in ast.iter_child_nodes(e):
            if isinstance(ch, ast.expr):
                self.ev(ch, st, cx)
        return None

    @staticmethod
    def _truth(v):
        if isinstance(v, int):
            return bool(v)
        if isinstance(v, tuple) and v[0] == 'len' and isinstance(v[1], int):
            return v[1] > 0
        return None

    def _bind(self, name, v, st):
        if v is None:
            st.env.pop(name, None)
        else:
            st.env[name] = v

    def _comp(self, e, st, cx):
        g = e.generators[0]
        n = self._iter_len(g.iter, st, cx)
        inner = [e.elt] if not isinstance(e, ast.DictComp) else [e.key, e.value]
        parts = inner + list(g.ifs) + [x for gg in e.generators[1:] for x in [gg.iter] + list(gg.ifs)]
        touches = any(self._mentions_vm(x, cx) for x in parts)
        if not touches and isinstance(e, ast.DictComp) and len(e.generators) == 1 and not g.ifs and \
                isinstance(g.target, ast.Name) and isinstance(g.iter, ast.Call) and dotted(g.iter.func) == 'range':
            # a table built by comprehension over a known range: the same value as the display it spells out
            from .feval import feval, Unknown
            vals = [self.ev(a, st, cx) for a in g.iter.args]
            if vals and all(isinstance(v, int) for v in vals) and len(range(*vals)) <= 64:
                pairs = []
                ienv = {k: v for k, v in st.env.items() if isinstance(v, int)}
                try:
                    for i in range(*vals):
                        key = feval(e.key, dict(ienv, **{g.target.id: i}), self.consts)
                        st2 = st.copy()
                        st2.env[g.target.id] = i
                        pairs.append((key, self.ev(e.value, st2, cx)))
                    return ('dict', tuple(pairs))
                except (Unknown, TypeError, ValueError):
                    pass
        if not touches:
            return ('len', n) if (isinstance(n, int) and not g.ifs and len(e.generators) == 1) else None
        if n is None or g.ifs or len(e.generators) != 1:
            raise _Dyn()
        for _ in range(min(n, MAX_UNROLL)):
            for x in inner:
                self.ev(x, st, cx)
        return ('len', n)

    def _iter_len(self, it, st, cx):
        if isinstance(it, ast.Call) and dotted(it.func) == 'range' and it.args:
            vals = [self.ev(a, st, cx) for a in it.args]
            if not all(isinstance(v, int) for v in vals):
                return None
            if len(vals) == 1:
                return max(0, vals[0])
            if len(vals) == 2:
                return max(0, vals[1] - vals[0])
            if len(vals) == 3 and vals[2]:
                return len(range(*vals))
            return None
        # itertools.repeat(x, n): n elements;  enumerate(X) / reversed(X) / list(X) / tuple(X) / sorted(X): as many as X
        if isinstance(it, ast.Call) and (dotted(it.func) or '').split('.')[-1] == 'repeat' and len(it.args) == 2:
            self.ev(it.args[0], st, cx)
            n = self.ev(it.args[1], st, cx)
            return max(0, n) if isinstance(n, int) else None
        if isinstance(it, ast.Call) and dotted(it.func) in ('enumerate', 'reversed', 'list', 'tuple', 'sorted') and it.args:
            return self._iter_len(it.args[0], st, cx)
        v = self.ev(it, st, cx)
        if isinstance(v, tuple) and v[0] == 'len' and isinstance(v[1], int):
            return v[1]
        if isinstance(v, tuple) and v[0] == 'dict':
            return len(v[1])
        return None

    def _call(self, e: ast.Call, st: State, cx):
        f = e.func
        nm = dotted(f) or ''
        # own stack
        if isinstance(f, ast.Attribute) and self._is_own_stack(f.value, cx):
            for a in e.args:
                self.ev(a, st, cx)
            for k in e.keywords:
                self.ev(k.value, st, cx)
            if f.attr == 'get':
                st.get()
            elif f.attr == 'put':
                st.put()
            elif f.attr == 'peek':
                idx = self.ev(e.args[0], st.copy(), cx) if e.args else 0
                st.peek((idx if isinstance(idx, int) else 0) + 1)
            elif f.attr in ('list', 'size', 'empty', '__len__'):
                pass
            else:
                raise _Dyn()
            return None
        # own stack's storage
        if isinstance(f, ast.Attribute) and isinstance(f.value, ast.Attribute) and f.value.attr == 'deque' and \
                self._is_own_stack(f.value.value, cx):
            for a in e.args:
                self.ev(a, st, cx)
            if f.attr == 'pop' and not e.args:
                st.get()
            elif f.attr == 'append':
                st.put()
            elif f.attr in ('count', 'index', 'copy', '__len__'):
                pass
            elif f.attr in ('reverse', 'rotate'):
                pass
            else:
                raise _Dyn()
            return None
        # own tape
        if isinstance(f, ast.Attribute) and isinstance(f.value, ast.Name) and f.value.id == cx.tape:
            if f.attr == 'read':
                size = self.ev(e.args[0], st, cx) if e.args else None
                v = st.next_operand()
                return ('operand', v, size if isinstance(size, int) else None)
            for a in e.args:
                self.ev(a, st, cx)
            return None
        if nm in ('int.from_bytes', 'bytes_to_int') and e.args:
            v = self.ev(e.args[0], st, cx)
            for a in e.args[1:]:
                self.ev(a, st, cx)
            if isinstance(v, tuple) and v[0] == 'operand' and isinstance(v[1], int):
                val = v[1]
                signed = nm == 'bytes_to_int' or any(k.arg == 'signed' and isinstance(k.value, ast.Constant) and k.value.value
                                                     for k in e.keywords)
                size = v[2] if len(v) > 2 else None
                if signed and isinstance(size, int) and size > 0 and val >= 1 << (8 * size - 1):
                    val -= 1 << (8 * size)
                return val
            return None
        if nm == 'len' and e.args:
            a0 = e.args[0]
            if self._is_own_stack(a0, cx) or (isinstance(a0, ast.Attribute) and a0.attr == 'deque'
                                               and self._is_own_stack(a0.value, cx)):
                return ('stacklen',)         # the current depth: unknown, but recognisable in a later guard
            v = self.ev(e.args[0], st, cx)
            if isinstance(v, tuple) and v[0] == 'len':
                return v[1]
            if isinstance(v, tuple) and v[0] == 'dict':
                return len(v[1])
            return None
        if nm in ('bool', 'int') and len(e.args) == 1:
            v = self.ev(e.args[0], st, cx)
            return v if isinstance(v, int) else None
        if isinstance(f, ast.Name):
            if f.id == 'run_tape':
                raise _Dyn()
            if f.id in self.guards:
                if e.args:
                    self._length_guard(e.args[0], st, cx)
                c = self._truth(self.ev(e.args[0], st, cx)) if e.args else None
                if c is False:
                    raise _Die()
                return None
            if f.id in ('max', 'min') and e.args and not e.keywords:
                vals = [self.ev(a, st, cx) for a in e.args]
                if len(vals) >= 2 and all(isinstance(v, int) for v in vals):
                    return max(vals) if f.id == 'max' else min(vals)
                return None
            if f.id == 'Tape' and e.args:
                inner = e.args[0]
                for k in e.keywords:
                    self.ev(k.value, st, cx)
                if isinstance(inner, ast.Constant) and isinstance(inner.value, bytes):
                    return ('tape', tuple(inner.value))
                if isinstance(inner, ast.Call) and isinstance(inner.func, ast.Attribute) and inner.func.attr == 'to_bytes':
                    iv = self.ev(inner.func.value, st, cx)
                    return ('tape', (iv if isinstance(iv, int) else None,))
                v = self.ev(inner, st, cx)
                if isinstance(v, tuple) and v[0] == 'operand':
                    return ('tape', (v[1],))
                return ('tape', (None,))
            fr = self.w.resolve_call(cx.fi, e)
            if fr is not None and fr.module == 'functions' and fr.name in self.w.handlers and len(e.args) >= 3:
                # a handler call nested in an expression: only when it is the whole statement (see _stmt)
                raise _Dyn()
            if f.id in ('run_plugins', 'run_sig_extensions'):
                for a in e.args:
                    if not isinstance(a, ast.Name):
                        self.ev(a, st, cx)
                return None
        # growing a local list of known length
        if isinstance(f, ast.Attribute) and isinstance(f.value, ast.Name) and f.attr == 'append' and len(e.args) == 1:
            cur = st.env.get(f.value.id)
            self.ev(e.args[0], st, cx)
            if isinstance(cur, tuple) and cur[0] == 'len' and isinstance(cur[1], int):
                st.env[f.value.id] = ('len', cur[1] + 1)
            else:
                st.env.pop(f.value.id, None)
            return None
        # any other call: arguments are evaluated; handing the own stack to unknown code is dynamic
        for a in e.args:
            if self._is_own_stack(a, cx):
                raise _Dyn()
            self.ev(a, st, cx)
        for k in e.keywords:
            if self._is_own_stack(k.value, cx):
                raise _Dyn()
            self.ev(k.value, st, cx)
        if isinstance(f, ast.Attribute):
            self.ev(f.value, st, cx)
        return None

    def _length_guard(self, cond, st, cx, negate=False):
        """A guard `len(stack.deque) >= n` / `> n` / `n <= len(stack)` with n known: surviving it needs n
        (n + 1) items, whether or not they are then popped."""
        if isinstance(cond, ast.UnaryOp) and isinstance(cond.op, ast.Not):
            self._length_guard(cond.operand, st, cx, negate=not negate)
            return
        if isinstance(cond, ast.BoolOp) and ((isinstance(cond.op, ast.And) and not negate) or
                                             (isinstance(cond.op, ast.Or) and negate)):
            for v in cond.values:
                self._length_guard(v, st, cx, negate=negate)
            return
        if not (isinstance(cond, ast.Compare) and len(cond.ops) == 1):
            return
        if negate:
            inv = {ast.Lt: ast.GtE, ast.LtE: ast.Gt, ast.Gt: ast.LtE, ast.GtE: ast.Lt}
            for k, v in inv.items():
                if isinstance(cond.ops[0], k):
                    cond = ast.Compare(left=cond.left, ops=[v()], comparators=cond.comparators)
                    break
            else:
                return

        def is_len(x):
            if isinstance(x, ast.Name) and st.env.get(x.id) == ('stacklen',):
                return True
            if isinstance(x, ast.Call) and dotted(x.func) == 'len' and x.args:
                a = x.args[0]
                return self._is_own_stack(a, cx) or (isinstance(a, ast.Attribute) and a.attr == 'deque'
                                                      and self._is_own_stack(a.value, cx))
            return False
        l, r, op = cond.left, cond.comparators[0], cond.ops[0]
        if is_len(l) and isinstance(op, (ast.GtE, ast.Gt)):
            n = self.ev(r, st.copy(), cx)
            if isinstance(n, int):
                st.peek(n + (1 if isinstance(op, ast.Gt) else 0))
        elif is_len(r) and isinstance(op, (ast.LtE, ast.Lt)):
            n = self.ev(l, st.copy(), cx)
            if isinstance(n, int):
                st.peek(n + (1 if isinstance(op, ast.Lt) else 0))

    # ------------------------------------------------------------------ statements
    def _handler_call(self, e, cx):
        if isinstance(e, ast.Call) and isinstance(e.func, ast.Name):
            fr = self.w.resolve_call(cx.fi, e)
            if fr is not None and fr.module == 'functions' and fr.name in self.w.handlers and len(e.args) >= 3:
                return self.w.handlers[fr.name]
        return None

    def _stmt(self, s, st: State, cx):
        self._budget -= 1
        if self._budget < 0:
            raise _Dyn()            # path explosion: the effect is not a simple function of the operands
        st = st.copy()
        if isinstance(s, ast.Expr):
            if isinstance(s.value, ast.Constant):
                return [('fall', st)]
            hc = self._handler_call(s.value, cx)
            if hc is not None:
                return self._inline_handler(hc, s.value, st, cx)
            self.ev(s.value, st, cx)
            return [('fall', st)]
        if isinstance(s, (ast.Assign, ast.AnnAssign)):
            value = s.value
            targets = s.targets if isinstance(s, ast.Assign) else [s.target]
            if value is None:
                return [('fall', st)]
            v = self.ev(value, st, cx)
            for t in targets:
                if isinstance(t, ast.Name):
                    self._bind(t.id, v, st)
                elif isinstance(t, (ast.Tuple, ast.List)):
                    for x in t.elts:
                        if isinstance(x, ast.Name):
                            st.env.pop(x.id, None)
                        else:
                            self._store_target(x, st, cx)
                else:
                    self._store_target(t, st, cx)
            return [('fall', st)]
        if isinstance(s, ast.AugAssign):
            v = self.ev(s.value, st, cx)
            if isinstance(s.target, ast.Name):
                a = st.env.get(s.target.id)
                if isinstance(a, int) and isinstance(v, int) and isinstance(s.op, (ast.Add, ast.Sub)):
                    st.env[s.target.id] = a + v if isinstance(s.op, ast.Add) else a - v
                else:
                    st.env.pop(s.target.id, None)
            else:
                self._store_target(s.target, st, cx)
            return [('fall', st)]
        if isinstance(s, ast.If):
            t = self._truth(self.ev(s.test, st, cx))
            if t is True:
                return self._block(s.body, [st], cx)
            if t is False:
                return self._block(s.orelse, [st], cx)
            a = self._block(s.body, [st.copy()], cx)
            if not a:
                # `if <cond>: raise ...` - surviving means the condition was false: a guard in if-form
                nb = st.copy()
                self._length_guard(s.test, nb, cx, negate=True)
                return self._block(s.orelse, [nb], cx)
            b = self._block(s.orelse, [st.copy()], cx)
            if not b and s.orelse:
                nb = st.copy()
                self._length_guard(s.test, nb, cx)
                return self._block(s.body, [nb], cx)
            return a + b
        if isinstance(s, ast.For):
            return self._for(s, st, cx)
        if isinstance(s, ast.While):
            return self._while(s, st, cx)
        if isinstance(s, ast.Try):
            return self._try(s, st, cx)
        if isinstance(s, ast.Return):
            if s.value is not None:
                hc = self._handler_call(s.value, cx)
                if hc is not None:
                    return [('return', x) for k, x in self._inline_handler(hc, s.value, st, cx) if k == 'fall']
                self.ev(s.value, st, cx)
            return [('return', st)]
        if isinstance(s, ast.Raise):
            raise _Die()
        if isinstance(s, ast.Break):
            return [('break', st)]
        if isinstance(s, ast.Continue):
            return [('continue', st)]
        if isinstance(s, ast.Assert):
            c = self._truth(self.ev(s.test, st, cx))
            if c is False:
                raise _Die()
            return [('fall', st)]
        if isinstance(s, (ast.Pass, ast.Global, ast.Nonlocal, ast.Import, ast.ImportFrom)):
            return [('fall', st)]
        if isinstance(s, ast.Delete):
            for t in s.targets:
                if isinstance(t, ast.Name):
                    st.env.pop(t.id, None)
                elif self._mentions_vm(t, cx) and not (isinstance(t, ast.Subscript) and isinstance(t.value, ast.Name)
                                                       and t.value.id == cx.cache):
                    raise _Dyn()
            return [('fall', st)]
        raise _Dyn()

    def _store_target(self, t, st, cx):
        """Subscript / attribute store: evaluate the pieces; a store into the own stack's storage keeps depth."""
        if isinstance(t, ast.Subscript):
            if isinstance(t.value, ast.Attribute) and t.value.attr == 'deque' and self._is_own_stack(t.value.value, cx):
                iv = self.ev(t.slice, st, cx) if not isinstance(t.slice, ast.Slice) else None
                if isinstance(iv, int) and iv < 0:
                    st.peek(-iv)
                return
            self.ev(t.value, st, cx)
            if not isinstance(t.slice, ast.Slice):
                self.ev(t.slice, st, cx)
        elif isinstance(t, ast.Attribute):
            if self._is_own_stack(t.value, cx):
                raise _Dyn()
            self.ev(t.value, st, cx)

    def _inline_handler(self, hc, call, st, cx):
        ta = call.args[0]
        sa = call.args[1]
        if not self._is_own_stack(sa, cx):
            # runs on another stack: no effect on ours (its tape operand may still consume ours)
            if isinstance(ta, ast.Name) and ta.id == cx.tape:
                raise _Dyn()
            self.ev(ta, st, cx)
            return [('fall', st)]
        if isinstance(ta, ast.Name) and ta.id == cx.tape:
            sub = State(st.d, st.mn, {}, st.ops)
            outs = self._run_handler(hc, sub, cx.depth + 1)
            res = []
            for k, s2 in outs:
                if k in ('fall', 'return'):
                    n = st.copy()
                    n.d, n.mn, n.ops = s2.d, s2.mn, s2.ops
                    res.append(('fall', n))
            return res
        tv = self.ev(ta, st, cx)
        ops = tuple(tv[1]) if isinstance(tv, tuple) and tv[0] == 'tape' else (None,)
        sub = State(st.d, st.mn, {}, ops)
        outs = self._run_handler(hc, sub, cx.depth + 1)
        res = []
        for k, s2 in outs:
            if k in ('fall', 'return'):
                n = st.copy()
                n.d, n.mn = s2.d, s2.mn
                res.append(('fall', n))
        return res

    def _for(self, s: ast.For, st: State, cx):
        it = s.iter
        bindings = None
        if isinstance(it, ast.Call) and isinstance(it.func, ast.Attribute) and it.func.attr in ('items', 'keys', 'values') \
                and not it.args:
            v = self.ev(it.func.value, st, cx)
            if isinstance(v, tuple) and v[0] == 'dict':
                if it.func.attr == 'items':
                    bindings = [('pair', k, val) for k, val in v[1]]
                elif it.func.attr == 'keys':
                    bindings = [('one', k if isinstance(k, int) else None) for k, _ in v[1]]
                else:
                    bindings = [('one', val) for _, val in v[1]]
        elif isinstance(it, (ast.Tuple, ast.List)) and it.elts and not any(isinstance(x, ast.Starred) for x in it.elts):
            # a literal table: bind each element (scalars and tuples of scalars are known values)
            def _lit(x):
                if isinstance(x, ast.Constant) and isinstance(x.value, (int, bool)):
                    return int(x.value)
                return None
            bindings = []
            for el in it.elts:
                if isinstance(el, (ast.Tuple, ast.List)):
                    bindings.append(('tuple', tuple(_lit(y) for y in el.elts)))
                else:
                    bindings.append(('one', _lit(el)))
        elif isinstance(it, ast.Call) and dotted(it.func) == 'range':
            vals = [self.ev(a, st, cx) for a in it.args]
            if vals and all(isinstance(v, int) for v in vals):
                try:
                    r = range(*vals)
                    if len(r) <= MAX_UNROLL:
                        bindings = [('one', i) for i in r]
                    else:
                        bindings = [('one', None)] * MAX_UNROLL
                except (TypeError, ValueError):
                    bindings = None
        else:
            n = self._iter_len(it, st, cx)
            if isinstance(n, int):
                bindings = [('one', None)] * min(n, MAX_UNROLL)
        if bindings is None:
            return self._neutral_loop(s.body, st, cx, assigned=_assigned(s), orelse=s.orelse)
        outs = []
        live = [st]
        for b in bindings:
            if not live:
                break
            for x in live:
                if isinstance(s.target, ast.Name):
                    self._bind(s.target.id, b[1] if b[0] == 'one' else None, x)
                elif isinstance(s.target, ast.Tuple) and b[0] == 'pair' and len(s.target.elts) == 2:
                    for t, v in zip(s.target.elts, (b[1], b[2])):
                        if isinstance(t, ast.Name):
                            self._bind(t.id, v if isinstance(v, int) else None, x)
                elif isinstance(s.target, ast.Tuple) and b[0] == 'tuple' and len(s.target.elts) == len(b[1]):
                    for t, v in zip(s.target.elts, b[1]):
                        if isinstance(t, ast.Name):
                            self._bind(t.id, v if isinstance(v, int) else None, x)
                else:
                    for t in ast.walk(s.target):
                        if isinstance(t, ast.Name):
                            x.env.pop(t.id, None)
            res = self._block(s.body, live, cx)
            live = []
            for k, s2 in res:
                if k in ('fall', 'continue'):
                    live.append(s2)
                elif k == 'break':
                    outs.append(('fall', s2))
                else:
                    outs.append((k, s2))
            live = _dedup(live)
        if s.orelse and live:
            outs += self._block(s.orelse, live, cx)
        else:
            outs += [('fall', x) for x in live]
        return outs

    def _while(self, s: ast.While, st: State, cx):
        """A while loop whose condition stays known (a counter counted down, a list filled up to a known length)
        is run concretely; as soon as the condition is unknown the loop has to be stack-neutral."""
        outs = []
        live = [st]
        for _ in range(MAX_UNROLL + 1):
            nxt = []
            for x in live:
                probe = x.copy()
                t = self._truth(self.ev(s.test, probe, cx))
                if t is None:
                    # unknown from here on: the remaining iterations must be neutral
                    outs += self._neutral_loop(s.body, probe, cx, assigned=_assigned(s), orelse=s.orelse)
                    continue
                if t is False:
                    if s.orelse:
                        outs += self._block(s.orelse, [probe], cx)
                    else:
                        outs.append(('fall', probe))
                    continue
                for k, s2 in self._block(s.body, [probe], cx):
                    if k in ('fall', 'continue'):
                        nxt.append(s2)
                    elif k == 'break':
                        outs.append(('fall', s2))
                    else:
                        outs.append((k, s2))
            live = _dedup(nxt)
            if not live:
                return outs
        raise _Dyn()

    def _neutral_loop(self, body, st, cx, assigned, orelse=None):
        """Unknown trip count: every way through the body must leave the depth where it was and never
        dip below it; then the loop as a whole is neutral."""
        probe = State(0, 0, {k: v for k, v in st.env.items() if k not in assigned}, st.ops)
        res = self._block(body, [probe], cx)
        outs = []
        for k, s2 in res:
            if s2.d != 0 or s2.mn < 0 or s2.ops != st.ops:
                raise _Dyn()
            if k == 'return':
                r = st.copy()
                outs.append(('return', r))
        after = st.copy()
        for nm in assigned:
            after.env.pop(nm, None)
        if orelse:
            outs += self._block(orelse, [after], cx)
        else:
            outs.append(('fall', after))
        return outs

    def _try(self, s: ast.Try, st: State, cx):
        # states from which a handler may be entered: before each statement of the try body that calls anything
        entries = []
        outs = []
        cur = [st]
        for b in s.body:
            if any(isinstance(n, (ast.Call, ast.Subscript, ast.Raise)) for n in ast.walk(b)):
                entries += [x.copy() for x in cur]
            nxt = []
            for x in cur:
                try:
                    for k, s2 in self._stmt(b, x, cx):
                        if k == 'fall':
                            nxt.append(s2)
                        else:
                            outs.append((k, s2))
                except _Die:
                    pass
            cur = _dedup(nxt)
            if not cur:
                break
        if s.orelse and cur:
            res = self._block(s.orelse, cur, cx)
            cur = [x for k, x in res if k == 'fall']
            outs += [(k, x) for k, x in res if k != 'fall']
        for h in s.handlers:
            if not entries:
                continue
            ent = []
            for x in _dedup(entries):
                y = x.copy()
                if h.name:
                    y.env.pop(h.name, None)
                ent.append(y)
            res = self._block(h.body, ent, cx)
            cur += [x for k, x in res if k == 'fall']
            outs += [(k, x) for k, x in res if k != 'fall']
        cur = _dedup(cur)
        if s.finalbody:
            res = self._block(s.finalbody, cur, cx)
            return outs + res
        return outs + [('fall', x) for x in cur]


def _assigned(loop) -> set[str]:
    out = set()
    for n in ast.walk(loop):
        if isinstance(n, ast.Name) and isinstance(n.ctx, (ast.Store, ast.Del)):
            out.add(n.id)
    return out
