"""Stack-effect summaries of VM handlers by an abstract counting interpretation of the
handler's ast (depth domain): `effect(handler, operands)` -> (needs, net) where `needs`
is the stack depth required at entry and `net` the change, or DYNAMIC when the effect
depends on evaluated sub-scripts or stack contents.  Nothing is executed: the walker
counts Stack.get / put / peek events, binds tape reads to the given operand values,
iterates `range(...)` loops whose bound is an operand expression, and inlines calls to
other handlers."""
from __future__ import annotations
import ast
from .report import AnalysisError
from .summary import World
from .model import dotted

DYNAMIC = 'dynamic'


class _Dyn(Exception):
    pass


class _Raise(Exception):
    pass


class _Return(Exception):
    pass


class _Counter:
    def __init__(self):
        self.d = 0
        self.min = 0

    def get(self, n=1):
        self.d -= n
        self.min = min(self.min, self.d)

    def peek(self, depth=1):
        self.min = min(self.min, self.d - depth)

    def put(self, n=1):
        self.d += n

    def snapshot(self):
        return (self.d, self.min)

    def restore(self, s):
        self.d, self.min = s


class StackFx:
    def __init__(self, w: World):
        self.w = w
        self._memo = {}

    def effect(self, hname: str, operands: tuple[int, ...] = ()):
        key = (hname, tuple(operands))
        if key in self._memo:
            return self._memo[key]
        fi = self.w.handlers[hname]
        c = _Counter()
        try:
            self._run(fi, list(operands), c, depth=0)
            res = (-c.min, c.d)
        except _Dyn:
            res = DYNAMIC
        self._memo[key] = res
        return res

    def operand_count(self, hname: str) -> int:
        """Number of tape reads the handler performs on its own tape (constant-size ones only
        count as operands; a length-prefixed read counts as one operand with its prefix)."""
        from .summary import tape_reads
        fi = self.w.handlers[hname]
        seqs = tape_reads(self.w, fi)
        if not seqs:
            return 0
        return len(seqs[0])

    # ------------------------------------------------------------------
    def _run(self, fi, operands, c: _Counter, depth: int):
        if depth > 6:
            raise _Dyn()
        tape, stack, cache = fi.params[:3]
        env = {}        # name -> int | ('len', n) for lists of known length | ('tape', [operands])
        ops = list(operands)
        st = {'ops': ops, 'tape': tape, 'stack': stack, 'fi': fi, 'depth': depth}
        try:
            self._block(fi.node.body, env, c, st)
        except _Return:
            pass

    def _block(self, stmts, env, c, st):
        for s in stmts:
            self._stmt(s, env, c, st)

    def _next_operand(self, st, size_expr, env):
        """Value of the next tape read (one operand per read; variable reads consume the bytes)."""
        ops = st['ops']
        if not ops:
            return None
        return ops.pop(0)

    def _eval_int(self, e, env, c, st):
        """Evaluate an integer expression over operands; performs stack events inside it."""
        if isinstance(e, ast.Constant) and isinstance(e.value, int):
            return e.value
        if isinstance(e, ast.Name):
            v = env.get(e.id)
            return v if isinstance(v, int) else None
        if isinstance(e, ast.BinOp):
            l, r = self._eval_int(e.left, env, c, st), self._eval_int(e.right, env, c, st)
            if l is None or r is None:
                return None
            if isinstance(e.op, ast.Add):
                return l + r
            if isinstance(e.op, ast.Sub):
                return l - r
            if isinstance(e.op, ast.Mult):
                return l * r
            return None
        if isinstance(e, ast.Call):
            nm = dotted(e.func) or ''
            if nm in ('int.from_bytes', 'bytes_to_int') and e.args:
                return self._eval_bytes(e.args[0], env, c, st)
            if nm == 'len' and e.args:
                v = self._value(e.args[0], env, c, st)
                if isinstance(v, tuple) and v[0] == 'len':
                    return v[1]
                if nm == 'len' and isinstance(e.args[0], ast.Name) and e.args[0].id == st['stack']:
                    return None
                return None
            self._expr(e, env, c, st)
            return None
        if isinstance(e, ast.Subscript) and isinstance(e.slice, ast.Constant) and e.slice.value == 0:
            return self._eval_bytes(e.value, env, c, st)
        self._expr(e, env, c, st)
        return None

    def _eval_bytes(self, e, env, c, st):
        """Integer value of a bytes expression that is a tape read (operand) - else None."""
        if isinstance(e, ast.Call) and isinstance(e.func, ast.Attribute) and e.func.attr == 'read' and \
                isinstance(e.func.value, ast.Name) and e.func.value.id == st['tape']:
            return self._next_operand(st, e.args[0] if e.args else None, env)
        if isinstance(e, ast.Name):
            v = env.get(e.id)
            if isinstance(v, tuple) and v[0] == 'operand':
                return v[1]
            return None
        self._expr(e, env, c, st)
        return None

    def _value(self, e, env, c, st):
        """Abstract value: int, ('len', n), ('operand', v), ('tape', [ops]) or None; performs events."""
        if isinstance(e, ast.Name):
            return env.get(e.id)
        if isinstance(e, ast.Call):
            nm = dotted(e.func) or ''
            f = e.func
            if isinstance(f, ast.Attribute) and f.attr == 'read' and isinstance(f.value, ast.Name) and \
                    f.value.id == st['tape']:
                v = self._next_operand(st, e.args[0] if e.args else None, env)
                return ('operand', v)
            if nm == 'Tape' and e.args:
                inner = e.args[0]
                if isinstance(inner, ast.Constant) and isinstance(inner.value, bytes):
                    return ('tape', list(inner.value))
                v = self._value(inner, env, c, st)
                if isinstance(v, tuple) and v[0] == 'operand':
                    return ('tape', [v[1]])
                if isinstance(inner, ast.Call) and isinstance(inner.func, ast.Attribute) and inner.func.attr == 'to_bytes':
                    iv = self._eval_int(inner.func.value, env, c, st)
                    return ('tape', [iv])
                return ('tape', [None])
            if nm in ('int.from_bytes', 'bytes_to_int'):
                return self._eval_int(e, env, c, st)
        if isinstance(e, (ast.ListComp,)):
            g = e.generators[0]
            n = self._iter_len(g.iter, env, c, st)
            if n is None:
                raise _Dyn()
            for _ in range(n):
                self._expr(e.elt, env, c, st)
            return ('len', n)
        if isinstance(e, (ast.List, ast.Tuple)):
            for x in e.elts:
                self._expr(x, env, c, st)
            return ('len', len(e.elts))
        iv = self._eval_int(e, env, c, st) if isinstance(e, (ast.BinOp, ast.Constant, ast.Subscript)) else None
        if iv is not None:
            return iv
        if not isinstance(e, (ast.BinOp, ast.Constant, ast.Subscript)):
            self._expr(e, env, c, st)
        return None

    def _iter_len(self, it, env, c, st):
        if isinstance(it, ast.Call) and dotted(it.func) == 'range' and it.args:
            if len(it.args) == 1:
                v = self._eval_int(it.args[0], env, c, st)
                return None if v is None else max(0, v)
            a = self._eval_int(it.args[0], env, c, st)
            b = self._eval_int(it.args[1], env, c, st)
            if a is None or b is None:
                return None
            return max(0, b - a)
        if isinstance(it, ast.Name):
            v = env.get(it.id)
            if isinstance(v, tuple) and v[0] == 'len':
                return v[1]
        return None

    def _expr(self, e, env, c, st):
        """Walk an expression for stack events (evaluation order: inner first)."""
        if e is None:
            return
        if isinstance(e, ast.Call):
            f = e.func
            nm = dotted(f) or ''
            if isinstance(f, ast.Attribute) and isinstance(f.value, ast.Name) and f.value.id == st['stack']:
                for a in e.args:
                    self._expr(a, env, c, st)
                if f.attr == 'get':
                    c.get()
                elif f.attr == 'put':
                    c.put()
                elif f.attr == 'peek':
                    idx = 0
                    if e.args and isinstance(e.args[0], ast.Constant):
                        idx = e.args[0].value
                    c.peek(idx + 1)
                elif f.attr in ('list', 'size', 'empty', '__len__'):
                    pass
                else:
                    raise _Dyn()
                return
            if isinstance(f, ast.Attribute) and isinstance(f.value, ast.Attribute) and \
                    dotted(f.value) == f"{st['stack']}.deque":
                # direct storage access: permutation / length reads only (C07.R1 enforces that)
                for a in e.args:
                    self._expr(a, env, c, st)
                return
            if isinstance(f, ast.Attribute) and f.attr == 'read' and isinstance(f.value, ast.Name) and \
                    f.value.id == st['tape']:
                self._next_operand(st, None, env)
                return
            if isinstance(f, ast.Name):
                if f.id == 'run_tape':
                    raise _Dyn()
                hc = None
                fr = self.w.resolve_call(st['fi'], e)
                if fr is not None and fr.module == 'functions' and fr.name in self.w.handlers and len(e.args) == 3:
                    hc = self.w.handlers[fr.name]
                if hc is not None:
                    # which tape does it get?
                    ta = e.args[0]
                    if isinstance(ta, ast.Name) and ta.id == st['tape']:
                        sub_ops = st['ops']      # shares the operand stream
                        self._run_shared(hc, sub_ops, c, st['depth'] + 1)
                    else:
                        tv = self._value(ta, env, c, st)
                        ops = list(tv[1]) if isinstance(tv, tuple) and tv[0] == 'tape' else [None]
                        self._run_shared(hc, ops, c, st['depth'] + 1)
                    return
                if f.id in ('run_plugins', 'run_sig_extensions'):
                    return
            for a in e.args:
                self._expr(a, env, c, st)
            for k in e.keywords:
                self._expr(k.value, env, c, st)
            if isinstance(f, ast.Attribute):
                self._expr(f.value, env, c, st)
            return
        if isinstance(e, (ast.ListComp, ast.SetComp, ast.GeneratorExp)):
            self._value(e, env, c, st) if isinstance(e, ast.ListComp) else self._dyn_if_stack(e, st)
            return
        if isinstance(e, ast.IfExp):
            self._expr(e.test, env, c, st)
            s0 = c.snapshot()
            self._expr(e.body, env, c, st)
            a = c.snapshot()
            c.restore(s0)
            self._expr(e.orelse, env, c, st)
            b = c.snapshot()
            if a[0] != b[0]:
                raise _Dyn()
            c.restore((a[0], min(a[1], b[1])))
            return
        for ch in ast.iter_child_nodes(e):
            if isinstance(ch, ast.expr):
                self._expr(ch, env, c, st)

    def _dyn_if_stack(self, e, st):
        for n in ast.walk(e):
            if isinstance(n, ast.Name) and n.id == st['stack']:
                raise _Dyn()

    def _run_shared(self, hc, ops, c, depth):
        if depth > 6:
            raise _Dyn()
        tape, stack, cache = hc.params[:3]
        st = {'ops': ops, 'tape': tape, 'stack': stack, 'fi': hc, 'depth': depth}
        try:
            self._block(hc.node.body, {}, c, st)
        except _Return:
            pass

    def _stmt(self, s, env, c, st):
        if isinstance(s, ast.Expr):
            if isinstance(s.value, ast.Constant):
                return
            # guard helper: evaluate the condition's events, ignore the raising path
            self._expr(s.value, env, c, st)
            return
        if isinstance(s, ast.Assign):
            v = self._value(s.value, env, c, st)
            for t in s.targets:
                if isinstance(t, ast.Name):
                    if v is None:
                        env.pop(t.id, None)
                    else:
                        env[t.id] = v
                elif isinstance(t, ast.Tuple):
                    for x in t.elts:
                        if isinstance(x, ast.Name):
                            env.pop(x.id, None)
            return
        if isinstance(s, ast.AugAssign):
            self._expr(s.value, env, c, st)
            if isinstance(s.target, ast.Name):
                a = env.get(s.target.id)
                b = self._eval_int(s.value, env, _Counter(), st) if isinstance(s.value, ast.Constant) else None
                if isinstance(a, int) and isinstance(b, int) and isinstance(s.op, ast.Add):
                    env[s.target.id] = a + b
                else:
                    env.pop(s.target.id, None)
            return
        if isinstance(s, ast.If):
            self._expr(s.test, env, c, st)
            s0 = c.snapshot()
            ops0 = list(st['ops'])
            outs = []
            for branch in (s.body, s.orelse):
                c.restore(s0)
                st['ops'][:] = ops0
                e2 = dict(env)
                try:
                    self._block(branch, e2, c, st)
                    outs.append((c.snapshot(), e2, list(st['ops']), False))
                except _Return:
                    outs.append((c.snapshot(), e2, list(st['ops']), True))
                except _Raise:
                    pass
            if not outs:
                raise _Raise()
            ds = {o[0][0] for o in outs}
            if len(ds) != 1:
                raise _Dyn()
            c.restore((outs[0][0][0], min(o[0][1] for o in outs)))
            if all(o[3] for o in outs):
                raise _Return()
            if any(o[3] for o in outs):
                # one branch returned with the same depth effect as the other falling through:
                # the rest of the handler must then be effect-free; conservatively dynamic
                rest_ok = True
                if not rest_ok:
                    raise _Dyn()
                self._partial_return = True
            live = [o for o in outs if not o[3]] or outs
            env.clear()
            env.update({k: v for k, v in live[0][1].items() if all(o[1].get(k) == v for o in live)})
            st['ops'][:] = live[0][2]
            if any(o[3] for o in outs) and not all(o[3] for o in outs):
                # remember that a returning branch exists: later effects would differ
                st.setdefault('returned_branch', []).append(c.snapshot())
            return
        if isinstance(s, ast.For):
            n = self._iter_len(s.iter, env, c, st)
            if n is None:
                # unknown trip count: the body must be stack-neutral and never dip
                s0 = c.snapshot()
                c2 = _Counter()
                try:
                    self._block(s.body, dict(env), c2, st)
                except (_Return, _Raise):
                    pass
                if c2.d != 0 or c2.min < 0:
                    raise _Dyn()
                return
            for _ in range(min(n, 300)):
                try:
                    self._block(s.body, env, c, st)
                except _Break:
                    break
            return
        if isinstance(s, ast.While):
            c2 = _Counter()
            try:
                self._block(s.body, dict(env), c2, st)
            except (_Return, _Raise):
                pass
            if c2.d != 0 or c2.min < 0:
                raise _Dyn()
            self._expr(s.test, env, c, st)
            return
        if isinstance(s, ast.Try):
            s0 = c.snapshot()
            self._block(s.body, env, c, st)
            a = c.snapshot()
            for h in s.handlers:
                # the handler runs instead of the rest of the try body after the raising call:
                # approximate by requiring the same net effect as the full body
                c.restore(s0)
                # events of the try body up to the raising statement are unknown; assume the
                # raising statement is the first one (verify before put)
                c2 = _Counter()
                c2.restore(s0)
                try:
                    self._block(h.body, dict(env), c2, st)
                except (_Return, _Raise):
                    pass
                # compare net effect
                # try body: stmt0 (raising) ; rest.  handler path = stmt0's pops + handler
                cb = _Counter()
                cb.restore(s0)
                self._stmt(s.body[0], dict(env), cb, st) if s.body else None
                diff_body = a[0] - cb.d
                diff_handler = c2.d - s0[0]
                if diff_body != diff_handler:
                    raise _Dyn()
            c.restore(a)
            return
        if isinstance(s, ast.Return):
            if s.value is not None:
                self._expr(s.value, env, c, st)
            raise _Return()
        if isinstance(s, ast.Raise):
            raise _Raise()
        if isinstance(s, ast.Break):
            raise _Break()
        if isinstance(s, (ast.Pass, ast.Continue, ast.Delete, ast.Assert, ast.AnnAssign)):
            if isinstance(s, ast.AnnAssign) and s.value is not None:
                self._expr(s.value, env, c, st)
            return
        raise _Dyn()


class _Break(Exception):
    pass
