"""Template rules shared by C13, C14, C15 and the builder clauses of C03, C04, C05, C16.

T0  the hand-written transfer functions agree in arity with the real handlers
T1  stack discipline of each lock with its paired witness (no underflow, one item left)
T2  integrity: key of every signature check, script of every eval, constraint of every
    time check is TRUSTED or AUTHENTICATED at the end of every path; the verdict derives
    from a check
T3  `sigflags` reaches every signature check of the lock and sign/get_message of the witness
T4  time guards: refund key only behind a verified time check on `time()+timeout`;
    a negated time check is preceded by a verified one
T5  no dead fields: every variable written with @= in a lock is read
T6  every parameter of a lock builder flows into the template or a guard
"""
from __future__ import annotations
import ast
from .report import Report, AnalysisError
from .summary import World
from .model import dotted
from .tscript import Extractor, Parser, tokenize, source_arity, Variant, Node, Tok
from .tstype import Typer, Path, Item, F_time
from . import linear as L

REL = 'tapescript/tools.py'

PAIRS = {
    # lock builder (and component) -> witness builders
    'make_single_sig_lock': ['make_single_sig_witness'],
    'make_single_sig_lock2': ['make_single_sig_witness2'],
    'make_scripthash_lock': ['make_scripthash_witness'],
    'make_delegate_key_lock': ['make_delegate_key_witness'],
    'make_graftroot_lock': ['make_graftroot_witness_keyspend', 'make_graftroot_witness_surrogate'],
    'make_htlc_sha256_lock': ['make_htlc_witness'],
    'make_htlc_shake256_lock': ['make_htlc_witness'],
    'make_htlc2_sha256_lock': ['make_htlc2_witness'],
    'make_htlc2_shake256_lock': ['make_htlc2_witness'],
    'make_ptlc_lock': ['make_ptlc_witness', 'make_ptlc_refund_witness'],
    'make_taproot_lock': ['make_taproot_witness_keyspend', 'make_taproot_witness_scriptspend'],
    'make_nonnative_taproot_lock': ['make_taproot_witness_keyspend', 'make_taproot_witness_scriptspend'],
    'make_graftap_lock': ['make_graftap_witness_keyspend', 'make_graftap_witness_scriptspend'],
}
C13_LOCKS = ['make_single_sig_lock', 'make_single_sig_lock2', 'make_multisig_lock', 'make_scripthash_lock',
             'make_graftroot_lock', 'make_graftap_lock', '_make_graftap_committed_script']
C14_LOCKS = ['make_delegate_key_lock', 'make_delegate_key_chain_lock']
C15_LOCKS = ['make_htlc_sha256_lock', 'make_htlc_shake256_lock', 'make_htlc2_sha256_lock',
             'make_htlc2_shake256_lock', 'make_ptlc_lock']
WITNESS_OF = {'make_delegate_key_chain_lock': ['make_delegate_key_chain_witness'],
              'make_multisig_lock': ['make_single_sig_witness']}


class Ctx:
    _cache = {}

    def __init__(self, w: World):
        self.w = w
        self.ex = Extractor(w)
        self.arity = source_arity(w)
        self.parser = Parser(w, self.arity)
        self.typer = Typer(w)
        self._trees = {}

    @classmethod
    def of(cls, w: World) -> 'Ctx':
        k = id(w)
        if k not in cls._cache:
            cls._cache[k] = Ctx(w)
        return cls._cache[k]

    def fi(self, name: str):
        return self.w.repo.func('tools', name)

    def variants(self, name: str) -> list[Variant]:
        vs = self.ex.variants(self.fi(name))
        if not vs:
            raise AnalysisError(f'tools.{name}: no template extracted')
        return vs

    def tree(self, v: Variant):
        # cached on the variant itself (ids of short-lived variants are reused by the allocator)
        t = getattr(v, '_tree', None)
        if t is None:
            t = self.parser.parse(tokenize(v.segs), v.label())
            v._tree = t
        return t

    def run_lock(self, v: Variant, init_stack=None, supply=True):
        p = Path(init_stack or [], supply=supply)
        return self.typer.run(self.tree(v), p)

    def run_witness(self, v: Variant):
        p = Path([], supply=False)
        return self.typer.run(self.tree(v), p)


# ---------------------------------------------------------------------------
def _vtag(v: Variant) -> str:
    return 'tools.' + v.label()


def t0_model(w: World, rep: Report, rule: str):
    cx = Ctx.of(w)
    drift = cx.typer.model_drift()
    rep.check(rule, 'tsa.tstype|transfer-functions-vs-handlers', not drift, file='tapescript/functions.py',
              why='' if not drift else f'stack effect of {drift[0][0]} in the VM is {drift[0][2]} but the builders\' '
              f'templates are written for {drift[0][1]}: every template using it is now mis-stacked',
              facts={'modelled_ops': len(Typer.MODELLED)})


def _key_params(p: Path, key: Item) -> set[str]:
    """Builder parameters that determine the key: its own (trusted constant) or those of the
    trusted constants that authenticate it."""
    if key.label == 'T':
        return set(key.params)
    out = set()
    cur = key
    chain = []
    while cur is not None and len(chain) < 20:
        chain.append(cur)
        cur = cur.parent
    idents = {c.ident for c in chain}
    for prem, concl, why in p.rules:
        if concl & idents and all(x.label == 'T' for x in prem):
            for x in prem:
                out |= x.params
                for d in x.deps:
                    out |= d.params
    return out


def t2_integrity(w: World, rep: Report, rule: str, lock: str, verdict=True):
    cx = Ctx.of(w)
    for v in cx.variants(lock):
        paths = cx.run_lock(v, supply=True)
        bad = []
        n_obl = 0
        for p in paths:
            p.auth_set()
            for kind, item, where in p.obligations:
                n_obl += 1
                ok = p.trusted(item)
                if kind == 'adapter-message':
                    ok = p.trusted(item)
                if not ok:
                    bad.append(f'{where}: `{item.origin}` is supplied by the witness and never authenticated '
                               f'(path {"/".join(p.branch) or "main"})')
            for c in getattr(p, 'branch_conds', []):
                pass
        rep.check(rule, f'{_vtag(v)}|integrity', not bad, line=v.line, file=REL, why=bad[0] if bad else '',
                  facts={'paths': len(paths), 'obligations': n_obl})
        if verdict:
            vb = []
            for p in paths:
                if p.underflow:
                    vb.append(f'path {"/".join(p.branch) or "main"}: {p.underflow[0]}')
                    continue
                if p.ended == 'recursive':
                    continue
                if not p.stack:
                    vb.append(f'path {"/".join(p.branch) or "main"} leaves no verdict on the stack')
                    continue
                top = p.stack[-1]
                src = Typer.verdict_sources(top)
                good = src & {'sig', 'msig', 'tr', 'eval', 'adapter', 'time', 'css'}
                if not good:
                    vb.append(f'path {"/".join(p.branch) or "main"}: the verdict `{top.origin}` does not derive from a '
                              f'signature / time / committed-script check (sources: {sorted(src)})')
            rep.check(rule, f'{_vtag(v)}|verdict-from-check', not vb, line=v.line, file=REL, why=vb[0] if vb else '')


def t1_pair(w: World, rep: Report, rule: str, lock: str, witness: str):
    cx = Ctx.of(w)
    for lv in cx.variants(lock):
        for wv in cx.variants(witness):
            wp = cx.run_witness(wv)
            if len(wp) != 1:
                raise AnalysisError(f'{witness}: witness template branches')
            ws = wp[0]
            bad = []
            if ws.underflow:
                bad.append(f'witness underflows: {ws.underflow[0]}')
            init = [i for i in ws.stack]
            for it in init:
                it.label = 'U'
            paths = cx.typer.run(cx.tree(lv), _path_with(init, supply=False, const_branch=True))
            live = 0
            clean = 0
            computed = False
            for p in paths:
                # a branch on a computed value (size test, hash comparison) is decided by the witness
                # data: such a path may be infeasible for this witness; constant selectors are exact
                if any(not (c.boolf is not None and c.boolf[0] == 'const') for c in p.branch_items):
                    computed = True
                if p.underflow:
                    bad.append(f'lock path {"/".join(p.branch) or "main"} underflows with this witness: {p.underflow[0]}')
                    continue
                live += 1
                if p.dynamic or p.ended == 'recursive':
                    clean += 1
                    continue
                if len(p.stack) != 1:
                    bad.append(f'lock path {"/".join(p.branch) or "main"} leaves {len(p.stack)} items '
                               f'({[i.origin for i in p.stack][-3:]}), expected exactly 1')
                else:
                    clean += 1
            if computed and clean >= 1:
                bad = []
            rep.check(rule, f'{_vtag(lv)}<-{wv.label()}|stack-discipline', not bad, line=lv.line, file=REL,
                      why=bad[0] if bad else '', facts={'witness_items': len(init), 'lock_paths': len(paths)})


def _path_with(stack, supply, const_branch):
    p = Path(stack, supply=supply)
    p.const_branch = const_branch
    return p


def t3_sigflags(w: World, rep: Report, rule: str, lock: str, witnesses=()):
    cx = Ctx.of(w)
    fi = cx.fi(lock)
    if 'sigflags' not in fi.params:
        return
    for v in cx.variants(lock):
        paths = cx.run_lock(v, supply=True)
        bad = []
        n = 0
        for p in paths:
            for key, ftok, op in p.sig_checks:
                n += 1
                ps = set()
                for h in getattr(ftok, 'holes', {}).values():
                    ps |= h.params
                if 'sigflags' not in ps or ftok.plain.lower() != 'x{}':
                    bad.append(f'{op} is written with allowed flags `{ftok.plain}` instead of the builder\'s sigflags argument')
        if n == 0 and not any('eval' in p.events or 'taproot' in p.events for p in paths):
            bad.append('the lock contains no signature check that could take the sigflags argument')
        rep.check(rule, f'{_vtag(v)}|sigflags-plumbed', not bad, line=v.line, file=REL, why=bad[0] if bad else '',
                  facts={'signature_checks': n})
    for wn in witnesses:
        wfi = cx.fi(wn)
        if 'sigflags' not in wfi.params:
            continue
        internals = cx.ex.internal_scripts(wfi)
        found = 0
        bad = []
        for iv in internals:
            try:
                tree = cx.tree(iv)
            except AnalysisError:
                continue
            for node in _walk_nodes(tree):
                if node.kind == 'op' and node.name in ('OP_SIGN', 'OP_GET_MESSAGE'):
                    found += 1
                    t = node.operands[0]
                    ps = set()
                    for h in t.holes.values():
                        ps |= h.params
                    if 'sigflags' not in ps or t.plain.lower() != 'x{}':
                        bad.append(f'{node.name} in the witness builder uses `{t.plain}`, not the sigflags argument')
        # builders delegating to another witness builder pass sigflags on
        if found == 0:
            deleg = _delegates_sigflags(w, wfi)
            if deleg is False:
                bad.append('sigflags is not handed to the signing helper')
            elif deleg is None:
                bad.append('no sign / get_message found that could take the sigflags argument')
        rep.check(rule, f'tools.{wn}|sigflags-plumbed', not bad, line=wfi.node.lineno, file=REL, why=bad[0] if bad else '')
        # a signature made outside the VM (over a message built with the sigflags) must carry the flag byte itself:
        # OP_SIGN appends it, a hand-made signature pushed by the template has to be followed by `{sigflags}`
        try:
            wvars = cx.variants(wn)
        except AnalysisError:
            wvars = []
        for wv in wvars:
            missing = []
            try:
                toks = [t for t in _all_toks(cx.tree(wv))]
            except AnalysisError:
                continue
            for t in toks:
                hs = list(getattr(t, 'holes', {}).values())
                made = [h for h in hs if any(isinstance(x, ast.Call) and (
                    (isinstance(x.func, ast.Name) and x.func.id == 'sign_with_scalar') or
                    (isinstance(x.func, ast.Attribute) and x.func.attr == 'sign')) for x in ast.walk(h.resolved))]
                if made and not any(isinstance(h.expr, ast.Name) and h.expr.id == 'sigflags' for h in hs):
                    missing.append(t.plain)
            if missing:
                rep.check(rule, f'{_vtag(wv)}|hand-made-signature-carries-flag-byte', False, line=wv.line, file=REL,
                          why=f'the witness pushes a signature made outside the VM as `{missing[0]}` without the sigflags '
                          f'byte: the message was built with the flags, OP_CHECK_SIG will assume flags 0 and rebuild another '
                          f'message - the builder\'s own witness is rejected whenever sigflags is not 00')
            elif any(any(isinstance(x, ast.Call) and isinstance(x.func, ast.Name) and x.func.id == 'sign_with_scalar'
                         for h in getattr(t, 'holes', {}).values() for x in ast.walk(h.resolved)) for t in toks):
                rep.check(rule, f'{_vtag(wv)}|hand-made-signature-carries-flag-byte', True, line=wv.line, file=REL)


def _all_toks(tree):
    """Every operand token of a parsed template (nested blocks included)."""
    for node in _walk_nodes(tree):
        for t in getattr(node, 'operands', []) or []:
            yield t


def _delegates_sigflags(w, fi):
    """True if every call to another make_*witness* builder passes this builder's sigflags."""
    res = None
    for n in ast.walk(fi.node):
        if isinstance(n, ast.Call) and isinstance(n.func, ast.Name) and n.func.id.startswith('make_') and \
                'witness' in n.func.id:
            callee = w.repo.modules['tools'].funcs.get(n.func.id)
            if callee is None or 'sigflags' not in callee.params:
                continue
            idx = callee.params.index('sigflags')
            arg = n.args[idx] if idx < len(n.args) else None
            for k in n.keywords:
                if k.arg == 'sigflags':
                    arg = k.value
            ok = isinstance(arg, ast.Name) and arg.id == 'sigflags'
            res = ok if res is None else (res and ok)
    return res


def _walk_nodes(nodes):
    for n in nodes:
        yield n
        for k in ('cond', 'then', 'orelse', 'body'):
            sub = getattr(n, k, None)
            if sub:
                yield from _walk_nodes(sub)
        if n.kind == 'op':
            for o in n.operands:
                if isinstance(o, Node):
                    yield from _walk_nodes(o.body)


def t4_time(w: World, rep: Report, rule: str, lock: str, refund_param='refund_pubkey', timeout_param='timeout'):
    cx = Ctx.of(w)
    for v in cx.variants(lock):
        paths = cx.run_lock(v, supply=True)
        bad = []
        refund_paths = 0
        for p in paths:
            p.auth_set()
            for key, ftok, op in p.sig_checks:
                kp = _key_params(p, key)
                if refund_param in kp:
                    refund_paths += 1
                    ok = any(verified and timeout_param in c.params and 'time()' in (c.hole.resolved_text if c.hole else '')
                             for c, verified, pos in p.time_checks)
                    if not ok:
                        bad.append(f'path {"/".join(p.branch) or "main"}: the refund key signs without a verified '
                                   f'check_timestamp on time()+{timeout_param}')
            # the claim path must not accept the refund key
        if refund_paths == 0:
            bad.append('no path checks a signature under the refund key')
        claim = [p for p in paths if not any(verified for _, verified, _ in p.time_checks)]
        for p in claim:
            for key, ftok, op in p.sig_checks:
                if refund_param in _key_params(p, key):
                    if f'path {"/".join(p.branch)}' not in ' '.join(bad):
                        bad.append(f'path {"/".join(p.branch) or "main"} accepts the refund key without the time lock')
        rep.check(rule, f'{_vtag(v)}|refund-behind-timelock', not bad, line=v.line, file=REL, why=bad[0] if bad else '',
                  facts={'paths': len(paths), 'refund_paths': refund_paths})
        # deadline expression: the hole is int(time()) + timeout
        dl = [h for h in v.holes.values() if 'time()' in h.resolved_text or timeout_param in h.params and
              h.resolved_text.replace(' ', '').startswith(('int(', timeout_param, '_', 'time'))]
        dl = [h for h in v.holes.values() if timeout_param in h.params]
        ok = bool(dl) and all(_is_now_plus(h.resolved, timeout_param) for h in dl)
        rep.check(rule, f'{_vtag(v)}|deadline-is-now-plus-timeout', ok, line=v.line, file=REL,
                  why='' if ok else f'the refund deadline is `{dl[0].text if dl else "?"}`, expected int(time()) + {timeout_param}')


def _is_now_plus(e: ast.AST, timeout_param: str) -> bool:
    if not (isinstance(e, ast.BinOp) and isinstance(e.op, ast.Add)):
        return False
    parts = [ast.unparse(e.left).replace(' ', ''), ast.unparse(e.right).replace(' ', '')]
    return sorted(parts) == sorted(['int(time())', timeout_param])


def t4_negated_time(w: World, rep: Report, rule: str, lock: str):
    """Every non-verified (negated) time check is preceded on its path by a verified one, which
    establishes the slack clause (see C16)."""
    cx = Ctx.of(w)
    for v in cx.variants(lock):
        paths = cx.run_lock(v, supply=True)
        bad = []
        n = 0
        for p in paths:
            for c, verified, pos in p.time_checks:
                if verified:
                    continue
                n += 1
                if not any(v2 and pos2 < pos for _, v2, pos2 in p.time_checks):
                    bad.append(f'a negated check_timestamp on `{c.origin}` is not preceded by a verified one: its '
                               f'negation also negates the future-slack clause')
        rep.check(rule, f'{_vtag(v)}|negated-time-check-guarded', not bad, line=v.line, file=REL, why=bad[0] if bad else '',
                  facts={'negated_checks': n})


def t5_dead_fields(w: World, rep: Report, rule: str, lock: str):
    cx = Ctx.of(w)
    for v in cx.variants(lock):
        tree = cx.tree(v)
        sets, gets = set(), set()
        for n in _walk_nodes(tree):
            if n.kind == 'setvar':
                sets.add(n.name)
            if n.kind in ('getvar', 'sizevar'):
                gets.add(n.name)
        dead = sorted(sets - gets)
        rep.check(rule, f'{_vtag(v)}|no-dead-fields', not dead, line=v.line, file=REL,
                  why='' if not dead else f'field(s) {dead} are parsed out of the witness data but never read: a '
                  f'certificate field is not enforced')


def t6_params_used(w: World, rep: Report, rule: str, lock: str):
    cx = Ctx.of(w)
    fi = cx.fi(lock)
    used = set()
    for v in cx.variants(lock):
        for h in v.holes.values():
            used |= h.params
        for t, pol in v.guards:
            for n in ast.walk(ast.parse(t.split(':', 1)[-1], mode='eval')):
                if isinstance(n, ast.Name):
                    used.add(n.id)
    # parameters consumed by guards of the builder (vert/tert) count too
    cfg = w.cfg(fi)
    for n in ast.walk(fi.node):
        if isinstance(n, ast.Call) and isinstance(n.func, ast.Name) and cfg.exc.guard_class('tools', n):
            for x in ast.walk(n):
                if isinstance(x, ast.Name) and x.id in fi.params:
                    used.add(('guard', x.id))
    for p in fi.params:
        in_tpl = p in used
        in_guard = ('guard', p) in used
        ok = in_tpl or in_guard
        # a key / digest / timeout that only feeds a guard but never the template is not enforced by the lock
        if in_guard and not in_tpl and p not in ('preimage',):
            ok = _flows_through_local(fi, p, used)
        rep.check(rule, f'tools.{lock}|param|{p}', ok, line=fi.node.lineno, file=REL,
                  why='' if ok else f'parameter `{p}` never reaches the lock template: the condition it stands for is '
                  f'not enforced by the script')


def _flows_through_local(fi, p, used) -> bool:
    return any(isinstance(u, str) and u == p for u in used)


# ---------------------------------------------------------------------------
# property entry points
# ---------------------------------------------------------------------------

def run_c13(w: World, rep: Report):
    rep.rule('C13.T0', 'transfer functions of the template engine agree in arity with the real handlers', floor=1)
    rep.rule('C13.T1', 'stack discipline: each lock, started from what its paired witness pushes, neither underflows '
             'nor leaves other than one item', floor=6)
    rep.rule('C13.T2', 'integrity: every signature-check key and every evaluated script is trusted or authenticated '
             'at the end of every path, and the verdict derives from a check', floor=10)
    rep.rule('C13.T3', 'the sigflags argument reaches every signature check of the lock and the signing op of the witness', floor=8)
    rep.rule('C13.T6', 'every parameter of a lock builder flows into the template or a guard', floor=10)
    t0_model(w, rep, 'C13.T0')
    for lock in C13_LOCKS:
        rep.covered('builders', lock)
        t2_integrity(w, rep, 'C13.T2', lock, verdict=(lock != '_make_graftap_committed_script'))
        if lock != '_make_graftap_committed_script':
            t3_sigflags(w, rep, 'C13.T3', lock, PAIRS.get(lock, WITNESS_OF.get(lock, [])))
        t6_params_used(w, rep, 'C13.T6', lock)
        for wn in PAIRS.get(lock, []):
            t1_pair(w, rep, 'C13.T1', lock, wn)
    c03_builders(w, rep, rule='C13.T1')
    from .report import depend
    depend(rep, w, 'rules_c02', ('C02.R1', 'C02.R2', 'C02.R3', 'C02.R4', 'C02.R5'), 'C13.TD2',
           'the signature instruction the locks rely on enforces the allowed-flags operand per bit, uses the one '
           'message builder and maps the verification result correctly (C02.R2/R3/R5)', floor=10)
    depend(rep, w, 'rules_c03', ('C03.R1', 'C03.R2'), 'C13.TD3',
           'the multisig instruction the multisig lock relies on consumes matched keys and requires all m (C03.R1/R2)', floor=4)
    depend(rep, w, 'rules_c19', ('C19.R2',), 'C13.TD19',
           'the verdict for a witness does not depend on what the process verified before: no instruction writes '
           'process-global state (C19.R2 re-evaluated)', floor=10)
    depend(rep, w, 'rules_c05', ('C05.R1', 'C05.R2'), 'C13.TD5',
           'the graftap lock is an OP_TAPROOT: the committed script runs only on the edge where the recomputed point equals '
           'the root, every other script-path exit yields false, and the key path checks under the root (C05.R1/R2 '
           're-evaluated)', floor=8)
    depend(rep, w, 'rules_c11', ('C11.R4',), 'C13.TD11',
           'the witnesses push committed and surrogate scripts of any length: PUSH selects a push instruction for every '
           'length 1..65535 (C11.R4 re-evaluated)', floor=4)
    sigflags_forwarded(w, rep, 'C13.T13')
    depend(rep, w, 'rules_c09', ('C09.R1',), 'C13.TD9',
           'the script paths (script-hash, graftroot surrogate, graftap script) run their signature checks inside EVAL: '
           'plugins, contracts and limits of the run reach every sub-tape (C09.R1 re-evaluated)', floor=20)
    sigfields_plumbed(w, rep, 'C13.T10')
    signed_message_from_vm(w, rep, 'C13.T11')
    rep.explanation = (
        'Necessary structural conditions for "exactly the intended holder can unlock", decided on the templates '
        'embedded in tools.py by a stack-effect and integrity type system (completeness side: the lock is '
        'stack-compatible with its builder-made witness; soundness side: with an arbitrary adversarial stack the key '
        'of every signature check and every evaluated script is a template constant or authenticated against one, '
        'and the verdict derives from a check), plus sigflags plumbing and parameter usage. That the right trusted '
        'key is used, cross-pairing rejection and everything cryptographic are not decided.')
    rep.assumptions += ['hash and point-commitment ops are binding (collision resistance / discrete log)',
                        'concatenated commitments have fixed-length parts']


def run_c14(w: World, rep: Report):
    rep.rule('C14.T0', 'transfer functions of the template engine agree in arity with the real handlers', floor=1)
    rep.rule('C14.T1', 'stack discipline of the delegate-key lock with its witness', floor=1)
    rep.rule('C14.T2', 'certificate fields (delegate key, begin, end, may-delegate) are authenticated by a '
             'check_sig_stack-verify under the authorising key before they decide anything; chain recursion '
             'argument is authenticated', floor=4)
    rep.rule('C14.T3', 'sigflags plumbing', floor=3)
    rep.rule('C14.T4', 'both window bounds are enforced; the negated end check is preceded by a verified begin check', floor=4)
    rep.rule('C14.T5', 'no dead certificate fields', floor=2)
    rep.rule('C14.T6', 'every builder parameter is used', floor=4)
    rep.rule('C14.T7', 'split offsets of the lock agree with the Certificate layout (32 / 36 / 40 / 41)', floor=2)
    t0_model(w, rep, 'C14.T0')
    rep.rule('C14.TV', 'the time instruction the certificate window relies on has its documented decision table', floor=1)
    from .rules_c16 import timestamp_table
    timestamp_table(w, rep, 'C14.TV')
    cx = Ctx.of(w)
    for lock in C14_LOCKS:
        rep.covered('builders', lock)
        t2_integrity(w, rep, 'C14.T2', lock)
        t3_sigflags(w, rep, 'C14.T3', lock, PAIRS.get(lock, WITNESS_OF.get(lock, [])))
        t4_negated_time(w, rep, 'C14.T4', lock)
        t5_dead_fields(w, rep, 'C14.T5', lock)
        t6_params_used(w, rep, 'C14.T6', lock)
        # both bounds: two time checks on distinct authenticated fields per complete path
        for v in cx.variants(lock):
            paths = cx.run_lock(v, supply=True)
            bad = []
            for p in paths:
                p.auth_set()
                cs = p.time_checks
                ver = [c for c, vf, _ in cs if vf]
                neg = [c for c, vf, _ in cs if not vf]
                if not ver or not neg:
                    bad.append(f'path {"/".join(p.branch) or "main"}: the window has {len(ver)} verified lower-bound and '
                               f'{len(neg)} negated upper-bound checks (one of each is required)')
                    continue
                if ver[0].ident == neg[0].ident or ver[0].origin == neg[0].origin:
                    bad.append('begin and end are checked against the same certificate slice')
                # negated one must be verified afterwards: constraints contain not F(end)
                cid = neg[0].hole.id if neg[0].hole else ('item', neg[0].ident)
                want = L.f_not(F_time(cid))
                if not any(L.equivalent(c, want)[0] for c in p.constraints if c[0] != 'const'):
                    bad.append('the negated end-of-window check is never verified')
            rep.check('C14.T4', f'{_vtag(v)}|window-both-bounds', not bad, line=v.line, file=REL, why=bad[0] if bad else '')
            # delegation flag: a recursive call happens only under a condition with an authenticated conjunct
            for p in paths:
                if 'recursive-call' in p.events:
                    ok = bool(getattr(p, 'branch_items', [])) and _necessary_trusted(p, p.branch_items[-1])
                    rep.check('C14.T2', f'{_vtag(v)}|delegation-needs-authenticated-flag', ok, line=v.line, file=REL,
                              why='' if ok else 'further delegation is decided by a value the certificate does not authenticate')
        _split_layout(w, rep, cx, lock)
    t1_pair(w, rep, 'C14.T1', 'make_delegate_key_lock', 'make_delegate_key_witness')
    ctor_field_agreement(w, rep, 'C14.T8')
    cert_padding(w, rep, 'C14.T7')
    from .report import depend
    depend(rep, w, 'rules_c02', ('C02.R1', 'C02.R2', 'C02.R3', 'C02.R4', 'C02.R5'), 'C14.TD2',
           'the signature instructions the delegation locks rely on (allowed flags per bit, one message builder, length '
           'guards, result mapping - C02.R2-R5)', floor=10)
    depend(rep, w, 'rules_c09', ('C09.R1', 'C09.R2', 'C09.R3'), 'C14.TD9',
           'the clock thresholds (flags) configured for a run hold inside DEF/CALL, IF, TRY and LOOP bodies too - the time '
           'checks of these locks run inside such bodies (C09.R2/R3 re-evaluated)', floor=16)
    depend(rep, w, 'rules_c19', ('C19.R2',), 'C14.TD19',
           'the verdict for a witness does not depend on what the process verified before: no instruction writes '
           'process-global state (C19.R2 re-evaluated)', floor=10)
    depend(rep, w, 'rules_c06', ('C06.R9',), 'C14.TD6',
           'the chain lock gates further delegation with `@c and`: AND pads with zero bytes, so a may-delegate byte of x00 '
           'stays false whatever the length of the witness-supplied marker (C06.R9 re-evaluated)', floor=3)
    from .rules_c04 import _no_memo_in_tree_classes
    _no_memo_in_tree_classes(w, rep, rule='C14.T12', markers=('preimage',), floor=1)
    depend(rep, w, 'rules_c08', ('C08.R1',), 'C14.TD8',
           'the execution timestamp the certificate windows are checked against is the embedder\'s: no code stores under a '
           'str key of the run cache, so a supplied `timestamp` (0 included) is never replaced (C08.R1 re-evaluated)', floor=18)
    sigfields_plumbed(w, rep, 'C14.T10')
    rep.explanation = (
        'Necessary structural conditions of the delegation locks, decided by typing their templates: every '
        'certificate slice that decides something (delegate key, begin, end, may-delegate) descends from the '
        'message of a verified check_sig_stack under the authorising key; both window bounds are enforced, the '
        'negated upper bound after a verified lower bound (which supplies the slack clause); further delegation '
        'requires the authenticated flag; the recursive call is typed under an assumption checked at each call '
        'site; split offsets equal the Certificate layout. Certificate pack/unpack round trip and all '
        'cryptography are not decided.')
    rep.assumptions += ['ed25519 signatures are unforgeable (a verified check_sig_stack under a trusted key authenticates its message)']


def _necessary_trusted(p: Path, it: Item) -> bool:
    if it.check and it.check[0] == 'and':
        return any(_necessary_trusted(p, x) for x in it.check[1:])
    return p.trusted(it)


def _split_layout(w: World, rep: Report, cx: Ctx, lock: str):
    """Offsets used with split agree with Certificate.preimage: 32-byte key, 4+4 byte ts, 1 flag byte, sig."""
    sizes, lwhy = _cert_layout(w)
    layout_ok = sizes[:4] == [32, 4, 4, 1]
    # the may-delegate flag is decoded by comparing the byte with 0xff (the value preimage() writes for True);
    # truthiness of a one-byte string is always True
    ufi = w.repo.func('tools', 'Certificate.unpack')
    flag_cmp = any(isinstance(n, ast.Compare) and len(n.ops) == 1 and isinstance(n.ops[0], ast.Eq) and
                   isinstance(n.comparators[0], ast.Constant) and n.comparators[0].value in (255, b'\xff')
                   for n in ast.walk(ufi.node))
    if not flag_cmp:
        layout_ok = False
        lwhy += '; the may-delegate byte is not decoded by comparison with 0xff'
    for v in cx.variants(lock):
        offs = []
        tree = cx.tree(v)
        prev = None
        for n in _walk_nodes(tree):
            if n.kind == 'op' and n.name == 'OP_SPLIT' and prev is not None and prev.kind == 'op' and prev.name == 'OP_PUSH':
                lit = prev.operands[0].literal() if isinstance(prev.operands[0], Tok) else None
                offs.append(lit)
            if n.kind != 'comment':
                prev = n
        ok = layout_ok and offs == [41, 40, 36, 32]
        rep.check('C14.T7', f'{_vtag(v)}|split-offsets', ok, line=v.line, file=REL,
                  why='' if ok else (f'the lock splits the certificate at {offs}; the Certificate layout needs 41, 40, 36, 32' if layout_ok
                                     else f'Certificate.unpack reads fields of sizes {sizes} ({lwhy}); the locks assume 32, 4, 4, 1, 64'))


def _cert_layout(w: World):
    """Field sizes that Certificate.unpack reads, in order: from progressive re-slicing (`x, data = data[:N], data[N:]`,
    `data[0]`, `data[1:]`) or from one struct format."""
    import struct as _struct
    import re as _re
    fi = w.repo.func('tools', 'Certificate.unpack')
    for n in ast.walk(fi.node):
        if isinstance(n, ast.Call) and dotted(n.func) in ('struct.unpack', 'unpack') and n.args and \
                isinstance(n.args[0], ast.Constant) and isinstance(n.args[0].value, str):
            fmt = n.args[0].value
            order = fmt[0] if fmt[:1] in '@=<>!' else ''
            sizes = []
            try:
                for cnt, ch in _re.findall(r'(\d*)([a-zA-Z?])', fmt[len(order):]):
                    if ch in 'sp':
                        sizes.append(_struct.calcsize(order + cnt + ch))
                    else:
                        sizes += [_struct.calcsize(order + ch)] * (int(cnt) if cnt else 1)
            except _struct.error:
                return [], f'unreadable struct format {fmt!r}'
            return sizes, f'struct format {fmt!r}'
    # every name that holds a piece of the input is tracked as an interval [lo, hi) of the original buffer (hi None =
    # up to the end), through re-slicing of a shrinking remainder as well as through absolute slices
    params = [p for p in fi.params if p not in ('cls', 'self')]
    if not params:
        return [], 'no input parameter'
    iv = {params[0]: (0, None)}
    pieces = []

    def const(e):
        if e is None:
            return None
        if isinstance(e, ast.Constant) and isinstance(e.value, int):
            return e.value
        return 'x'

    def sub(e):
        """interval of a subscript of a tracked name, or None"""
        if isinstance(e, ast.Subscript) and isinstance(e.value, ast.Name) and e.value.id in iv:
            lo, hi = iv[e.value.id]
            if isinstance(e.slice, ast.Slice):
                a, b = const(e.slice.lower), const(e.slice.upper)
                if a == 'x' or b == 'x' or e.slice.step is not None or (a or 0) < 0 or (b is not None and b < 0):
                    return None
                nlo = lo + (a or 0)
                nhi = (lo + b) if b is not None else hi
                return (nlo, nhi)
            k = const(e.slice)
            if isinstance(k, int) and k >= 0:
                return (lo + k, lo + k + 1)
        return None

    def visit_value(e):
        for x in ast.walk(e):
            r = sub(x)
            if r is not None:
                return r
        return None
    for st in fi.node.body:
        if not isinstance(st, ast.Assign) or len(st.targets) != 1:
            continue
        tg, val = st.targets[0], st.value
        pairs = list(zip(tg.elts, val.elts)) if isinstance(tg, ast.Tuple) and isinstance(val, ast.Tuple) and \
            len(tg.elts) == len(val.elts) else [(tg, val)]
        new = {}
        for t, v in pairs:
            r = sub(v) if isinstance(v, ast.Subscript) else visit_value(v)
            if r is None or not isinstance(t, ast.Name):
                continue
            if t.id in iv and r[1] is None and r[0] >= iv[t.id][0] and isinstance(v, ast.Subscript):
                new[t.id] = r           # the remainder shrinks
            else:
                pieces.append(r)
                if isinstance(v, ast.Subscript):
                    new[t.id] = r
        iv.update(new)
    pieces = sorted(set(pieces), key=lambda p: p[0])
    sizes = [(hi - lo) if hi is not None else 64 for lo, hi in pieces]
    return sizes, 'slicing'


def cert_padding(w: World, rep: Report, rule: str):
    """Certificate.preimage writes each timestamp as 4 bytes big-endian: the signed encoding padded with zero bytes
    on the *left*.  Padding on the right shifts small values by whole bytes."""
    fi = w.repo.func('tools', 'Certificate.preimage')
    left, right = 0, []
    for n in ast.walk(fi.node):
        if isinstance(n, ast.Call) and isinstance(n.func, ast.Attribute):
            if n.func.attr == 'rjust' and n.args and isinstance(n.args[0], ast.Constant) and n.args[0].value == 4:
                left += 1
            if n.func.attr == 'ljust':
                right.append(n.lineno)
            if n.func.attr == 'to_bytes' and n.args and isinstance(n.args[0], ast.Constant) and n.args[0].value == 4 and \
                    (len(n.args) > 1 and isinstance(n.args[1], ast.Constant) and n.args[1].value == 'big'):
                left += 1
        if isinstance(n, (ast.Assign, ast.AugAssign)):
            v = n.value
            tg = n.targets[0] if isinstance(n, ast.Assign) else n.target
            if isinstance(tg, ast.Name) and isinstance(v, ast.BinOp) and isinstance(v.op, ast.Add):
                zero = lambda e: isinstance(e, ast.Constant) and isinstance(e.value, bytes) and set(e.value) <= {0} and e.value
                if zero(v.left) and isinstance(v.right, ast.Name) and v.right.id == tg.id:
                    left += 1
                if isinstance(n, ast.Assign) and zero(v.right) and isinstance(v.left, ast.Name) and v.left.id == tg.id:
                    right.append(n.lineno)
            if isinstance(n, ast.AugAssign) and isinstance(tg, ast.Name) and isinstance(n.op, ast.Add) and \
                    isinstance(v, ast.Constant) and isinstance(v.value, bytes) and set(v.value) <= {0} and v.value:
                right.append(n.lineno)
    ok = left >= 2 and not right
    rep.check(rule, 'tools.Certificate.preimage|timestamps-left-padded-to-4', ok, line=right[0] if right else fi.node.lineno,
              file=REL, why='' if ok else
              ('a timestamp is padded on the right (line %d): values below 2^23 are shifted left by whole bytes, the '
               'certificate then certifies another window and does not round-trip' % right[0]) if right else
              'the two timestamps are not visibly padded on the left to 4 bytes')


def run_c15(w: World, rep: Report):
    rep.rule('C15.T0', 'transfer functions of the template engine agree in arity with the real handlers', floor=1)
    rep.rule('C15.T1', 'stack discipline of each HTLC / PTLC lock with its witnesses', floor=6)
    rep.rule('C15.T2', 'integrity: keys are template constants or authenticated by their hash commitment; verdict from a signature check', floor=10)
    rep.rule('C15.T3', 'sigflags plumbing', floor=8)
    rep.rule('C15.T4', 'the refund key is accepted only behind a verified check_timestamp on int(time())+timeout; '
             'the claim path does not accept it', floor=10)
    rep.rule('C15.T6', 'every builder parameter (digest/preimage, keys, timeout, hash_size, sigflags) is used', floor=20)
    rep.rule('C15.T8', 'hash-lock idiom: the claim arm is taken exactly on equality of the hash of the supplied '
             'preimage with the template digest, with the digest size of the builder', floor=4)
    t0_model(w, rep, 'C15.T0')
    rep.rule('C15.TV', 'the time instruction the refund path relies on has its documented decision table '
             '(t >= c and within slack)', floor=1)
    from .rules_c16 import timestamp_table
    timestamp_table(w, rep, 'C15.TV')
    cx = Ctx.of(w)
    for lock in C15_LOCKS:
        rep.covered('builders', lock)
        t2_integrity(w, rep, 'C15.T2', lock)
        t3_sigflags(w, rep, 'C15.T3', lock, PAIRS.get(lock, []))
        t4_time(w, rep, 'C15.T4', lock)
        t6_params_used(w, rep, 'C15.T6', lock)
        for wn in PAIRS.get(lock, []):
            t1_pair(w, rep, 'C15.T1', lock, wn)
        if 'htlc' in lock:
            _hash_lock(w, rep, cx, lock)
    # PTLC: the arm selected by the witness constant true commits to the receiver key (with the tweak point
    # folded in by the builder), the other arm to the refund key
    rep.rule('C15.T9', 'PTLC arms: true selects the receiver (tweaked) key, false the refund key', floor=1)
    for v in cx.variants('make_ptlc_lock'):
        paths = cx.run_lock(v, supply=True)
        bad = ''
        seen = {}
        for p in paths:
            p.auth_set()
            arm = p.branch[0] if p.branch else 'main'
            for key, ftok, op in p.sig_checks:
                seen[arm] = _key_params(p, key)
        if not ({'receiver_pubkey'} <= seen.get('then', set()) and 'refund_pubkey' not in seen.get('then', set())):
            bad = f'the arm taken on `true` checks the signature under {sorted(seen.get("then", []))}, expected the receiver key'
        elif not ({'refund_pubkey'} <= seen.get('else', set()) and 'receiver_pubkey' not in seen.get('else', set())):
            bad = f'the arm taken on `false` checks the signature under {sorted(seen.get("else", []))}, expected the refund key'
        rep.check('C15.T9', f'{_vtag(v)}|arm-keys', not bad, line=v.line, file=REL, why=bad)
    fi = cx.fi('make_ptlc_lock')
    agg = [n for n in ast.walk(fi.node) if isinstance(n, ast.Call) and dotted(n.func) == 'aggregate_points']
    ok = len(agg) == 1 and sorted(ast.unparse(e) for e in getattr(agg[0].args[0], 'elts', [])) == ['receiver_pubkey', 'tweak_point']
    rep.check('C15.T9', 'tools.make_ptlc_lock|tweak-folded-into-receiver', ok, line=fi.node.lineno, file=REL,
              why='' if ok else 'the point lock is not receiver_pubkey + tweak_point')
    from .report import depend
    depend(rep, w, 'rules_c02', ('C02.R1', 'C02.R2', 'C02.R3', 'C02.R4', 'C02.R5'), 'C15.TD2',
           'the signature instruction both paths end in (allowed flags per bit, one message builder, length guards, '
           'result mapping - C02.R2-R5)', floor=10)
    depend(rep, w, 'rules_c09', ('C09.R2', 'C09.R3'), 'C15.TD9',
           'the clock thresholds (flags) configured for a run hold inside DEF/CALL, IF, TRY and LOOP bodies too - the time '
           'checks of these locks run inside such bodies (C09.R2/R3 re-evaluated)', floor=16)
    depend(rep, w, 'rules_c19', ('C19.R2',), 'C15.TD19',
           'the verdict for a witness does not depend on what the process verified before: no instruction writes '
           'process-global state (C19.R2 re-evaluated)', floor=10)
    # the PTLC claim key is x + t for the tweak scalar the caller gives (the lock was built from t*G of that very scalar):
    # the witness builder may not re-clamp or otherwise rewrite it
    rep.rule('C15.T14', 'make_ptlc_witness adds the tweak scalar as given (no clamp_scalar / hashing of the parameter)', floor=1)
    pw = w.repo.func('tools', 'make_ptlc_witness')
    rewr = [c for c in ast.walk(pw.node) if isinstance(c, ast.Call) and isinstance(c.func, ast.Name) and
            c.func.id in ('clamp_scalar', 'sha256', 'derive_key_from_seed', 'H_small', 'H_big') and
            any(isinstance(y, ast.Name) and y.id == 'tweak_scalar' for a in c.args for y in ast.walk(a))]
    rep.check('C15.T14', 'tools.make_ptlc_witness|tweak-scalar-used-as-given', not rewr, line=rewr[0].lineno if rewr else pw.node.lineno,
              file=REL, why='' if not rewr else f'`{ast.unparse(rewr[0])[:40]}` rewrites the tweak: the witness signs under x + t\' while '
              f'the lock holds X + t*G, so the builder\'s own claim witness is rejected for tweaks that are not already in that form')
    no_falsy_default_on_numbers(w, rep, 'C15.T12')
    exact_number_formatting(w, rep, 'C15.T13')
    depend(rep, w, 'rules_c11', ('C11.R8',), 'C15.TD11',
           'an operand a builder writes into its template (digest size, timeout, flags) compiles to the number written or '
           'is refused - a size that does not fit is never wrapped into another one, which would give a lock nobody can '
           'claim (C11.R8 re-evaluated)', floor=8)
    sigfields_plumbed(w, rep, 'C15.T10')
    signed_message_from_vm(w, rep, 'C15.T11')
    rep.explanation = (
        'Necessary structural conditions of the hash/point time-locked contracts, decided on their templates: '
        'stack compatibility with the builder-made witnesses, trusted or commitment-authenticated keys, the '
        'refund key only behind a verified time check on int(time())+timeout and never on the claim arm, the '
        'claim arm selected by the hash comparison with the template digest, sigflags and parameter plumbing. '
        'Which of the two trusted keys is the receiver and everything cryptographic are not decided.')


def _hash_lock(w: World, rep: Report, cx: Ctx, lock: str):
    for v in cx.variants(lock):
        tree = [n for n in cx.tree(v) if n.kind != 'comment']
        # expected prefix:  <hash op> push x{digest} equal if { claim } else { refund }
        ok, why = True, ''
        names = [(n.name if n.kind == 'op' else n.kind) for n in tree]
        want_hash = 'OP_SHA256' if 'sha256' in lock else 'OP_SHAKE256'
        if names[:3] != [want_hash, 'OP_PUSH', 'OP_EQUAL'] or len(tree) < 4 or tree[3].kind != 'if':
            ok, why = False, f'the lock does not start with {want_hash[3:].lower()} / push digest / equal / if (found {names[:4]})'
        else:
            dig = tree[1].operands[0]
            ps = set()
            for h in dig.holes.values():
                ps |= h.params
            if not ({'digest', 'preimage'} & ps):
                ok, why = False, 'the value compared with the hash of the witness preimage is not the builder\'s digest'
            if want_hash == 'OP_SHAKE256':
                sz = tree[0].operands[0]
                sp = set()
                for h in sz.holes.values():
                    sp |= h.params
                if 'hash_size' not in sp:
                    ok, why = False, 'the preimage is hashed with a size other than the builder\'s hash_size'
            # claim arm = then-branch: must hold the receiver key; refund arm = else
            then_params, else_params = set(), set()
            for n in _walk_nodes(tree[3].then):
                if n.kind == 'op':
                    for o in n.operands:
                        for h in getattr(o, 'holes', {}).values():
                            then_params |= h.params
            for n in _walk_nodes(tree[3].orelse or []):
                if n.kind == 'op':
                    for o in n.operands:
                        for h in getattr(o, 'holes', {}).values():
                            else_params |= h.params
            if 'receiver_pubkey' not in then_params or 'refund_pubkey' in then_params:
                ok, why = False, 'the arm taken on a matching preimage does not commit to the receiver key only'
            if 'refund_pubkey' not in else_params or 'receiver_pubkey' in else_params:
                ok, why = False, 'the arm taken on a non-matching preimage does not commit to the refund key only'
        rep.check('C15.T8', f'{_vtag(v)}|hash-lock-idiom', ok, line=v.line, file=REL, why=why)


# ---------------------------------------------------------------------------
def c03_builders(w: World, rep: Report, rule='C03.R3'):
    """make_multisig_lock: one push per list element, quorum in slot 2, len(pubkeys) in slot 3."""
    cx = Ctx.of(w)
    for v in cx.variants('make_multisig_lock'):
        tree = [n for n in cx.tree(v) if n.kind != 'comment']
        ok, why = True, ''
        if len(tree) != 2 or tree[0].kind != 'repeat' or tree[1].kind != 'op' or \
                tree[1].name not in ('OP_CHECK_MULTISIG', 'OP_CHECK_MULTISIG_VERIFY'):
            ok, why = False, f'template is not `(push key)* check_multisig flags m n` (found {[n.kind for n in tree]})'
        else:
            rp, ms = tree
            body = [n for n in rp.body if n.kind != 'comment']
            if len(body) != 1 or body[0].kind != 'op' or body[0].name != 'OP_PUSH':
                ok, why = False, 'the repeated segment is not exactly one push per key'
            over = ast.unparse(rp.count)
            flags, m, n = ms.operands
            mp = set().union(*[h.params for h in m.holes.values()]) if m.holes else set()
            ntxt = [h.text.replace(' ', '') for h in n.holes.values()]
            if mp != {'quorum_size'} or m.plain.lower() != 'd{}':
                ok, why = False, f'operand m (slot 2) is `{m.plain}` from {sorted(mp)}, expected d{{quorum_size}}'
            elif ntxt != [f'len({over})'] or n.plain.lower() != 'd{}':
                ok, why = False, f'operand n (slot 3) is {ntxt}, expected the number of pushed keys len({over})'
        rep.check(rule, f'{_vtag(v)}|multisig-operands', ok, line=v.line, file=REL, why=why)
    # quorum <= number of unique keys guard
    fi = cx.fi('make_multisig_lock')
    from .guards import edge_formula
    gcfg = w.cfg(fi)
    qp = next((p for p in fi.params if fi.annotations.get(p, '') == 'int'), 'quorum_size')
    kp = next((p for p in fi.params if fi.annotations.get(p, '').startswith('list')), 'pubkeys')
    wants = [L.formula(ast.parse(f'{qp} <= len(set({kp}))', mode='eval').body)]
    ok = False
    for t in gcfg.nodes:
        if t.kind == 'test' and t.guard is not None:
            try:
                f = edge_formula(gcfg, t, True, subst=False)
            except Exception:
                continue
            if any(L.equivalent(f, x)[0] for x in wants):
                ok = True
    rep.check(rule, 'tools.make_multisig_lock|quorum-le-unique-keys', ok, line=fi.node.lineno, file=REL,
              why='' if ok else 'the builder no longer requires quorum_size <= number of unique public keys')


def c04_builders(w: World, rep: Report):
    rep.rule('C04.R2', 'in every builder template the operand of eval is trusted or authenticated on every path', floor=4)
    cx = Ctx.of(w)
    n = 0
    known = set(PAIRS) | {x for v0 in PAIRS.values() for x in v0} | set(WITNESS_OF) | {x for v0 in WITNESS_OF.values() for x in v0}
    for fi in cx.ex.builders():
        try:
            variants = cx.ex.variants(fi)
        except AnalysisError:
            if fi.name in known:
                raise
            # a builder added after this rule set was written whose source is not a static template: the properties
            # speak about the builders they name; this one is left out (noted in the evidence)
            rep.note(f'builder {fi.name} is not a static template and not one the properties name: not examined')
            continue
        for v in variants:
            try:
                tree = cx.tree(v)
            except AnalysisError:
                continue
            if not any(x.kind == 'op' and x.name == 'OP_EVAL' for x in _walk_nodes(tree)):
                continue
            n += 1
            paths = cx.run_lock(v, supply=True)
            bad = []
            for p in paths:
                p.auth_set()
                for kind, item, where in p.obligations:
                    if kind == 'eval-script' and not p.trusted(item):
                        bad.append(f'path {"/".join(p.branch) or "main"}: a witness-supplied script reaches eval without '
                                   f'being compared (equal_verify) with a commitment or signed by a trusted key')
            rep.check('C04.R2', f'{_vtag(v)}|eval-operand-authenticated', not bad, line=v.line, file=REL,
                      why=bad[0] if bad else '')
    if n < 4:
        raise AnalysisError(f'only {n} templates with eval found')


def c05_builders(w: World, rep: Report):
    rep.rule('C05.R3', 'non-native taproot lock: eval operand authenticated against the trusted root, check_sig key is '
             'the trusted root, sigflags plumbed, stack-compatible with both taproot witnesses', floor=4)
    cx = Ctx.of(w)
    lock = 'make_nonnative_taproot_lock'
    t2_integrity(w, rep, 'C05.R3', lock)
    t3_sigflags(w, rep, 'C05.R3', lock, [])
    for wn in PAIRS[lock]:
        t1_pair(w, rep, 'C05.R3', lock, wn)
    # the root is computed by the same expression in the native and the non-native builder
    # (holes resolved through the builders' single-assignment locals)
    def root_exprs(name):
        out = set()
        for v in cx.variants(name):
            tree = [n for n in _walk_nodes(cx.tree(v)) if n.kind == 'op' and n.name == 'OP_PUSH']
            for n in tree:
                t = n.operands[0]
                for h in getattr(t, 'holes', {}).values():
                    if 'aggregate_points' in h.resolved_text:
                        out.add(h.resolved_text.replace(' ', ''))
        return out
    rep.rule('C05.R5', 'the taproot witness builders sign what the lock checks: sigflags reach the lock\'s check and the '
             'witness\'s get_message, a hand-made signature carries its flag byte', floor=3)
    t3_sigflags(w, rep, 'C05.R5', 'make_taproot_lock', PAIRS['make_taproot_lock'])
    # a flag byte is one unsigned byte: the signed minimal codec int_to_bytes gives two bytes from 0x80 on
    tm5 = w.repo.module('tools')
    bad5 = []
    for fn in [f for f in ast.walk(tm5.tree) if isinstance(f, ast.FunctionDef) and
               any(a.arg == 'sigflags' for a in f.args.args + f.args.kwonlyargs)]:
        tainted = {'sigflags'}
        for _ in range(3):
            for st in ast.walk(fn):
                if isinstance(st, ast.Assign) and any(isinstance(y, ast.Name) and y.id in tainted for y in ast.walk(st.value)):
                    tainted |= {t.id for t in st.targets if isinstance(t, ast.Name)}
        for c in ast.walk(fn):
            if isinstance(c, ast.Call) and isinstance(c.func, ast.Name) and c.func.id == 'int_to_bytes' and \
                    any(isinstance(y, ast.Name) and y.id in tainted for a in c.args for y in ast.walk(a)):
                bad5.append((fn.name, c.lineno, ast.unparse(c)[:40]))
    rep.check('C05.R5', 'tools|flag-byte-encoded-unsigned', not bad5, line=bad5[0][1] if bad5 else None, file=REL,
              why='' if not bad5 else f'{bad5[0][0]}: `{bad5[0][2]}` encodes the sigflags with the signed minimal codec: flags with bit '
              f'0x80 set become two bytes, the signature item is 66 bytes long and every lock rejects the builder\'s own witness')
    sigflags_forwarded(w, rep, 'C05.R8')
    signed_message_from_vm(w, rep, 'C05.R6')
    sigfields_plumbed(w, rep, 'C05.R7')
    a, b = root_exprs('make_taproot_lock'), root_exprs(lock)
    ok = len(a) == 1 and a == b
    rep.check('C05.R3', 'tools|native-and-nonnative-root-same-formula', ok, file=REL,
              why='' if ok else f'the native and non-native taproot builders compute their root differently: {sorted(a)} vs {sorted(b)}')


def c16_builders(w: World, rep: Report):
    rep.rule('C16.R4', 'verdict formula of the three timestamp lock builders equals the documented window', floor=5)
    cx = Ctx.of(w)
    spec = {
        'make_timestamp_after_lock': lambda hs: F_time(hs[0]),
        'make_timestamp_before_lock': lambda hs: L.f_not(('lit', ('ge', hs[0]), True)),
        'make_timestamp_between_lock': lambda hs: L.f_and([F_time(hs[0]), L.f_not(('lit', ('ge', hs[1]), True))]),
    }
    doc = {'make_timestamp_after_lock': 't >= ts and slack', 'make_timestamp_before_lock': 't < ts',
           'make_timestamp_between_lock': '(t >= begin and slack) and t < end'}
    for name, mk in spec.items():
        for v in cx.variants(name):
            paths = cx.run_lock(v, supply=False)
            if len(paths) != 1:
                raise AnalysisError(f'{name}: template branches')
            p = paths[0]
            hs = []
            for c, vf, pos in p.time_checks:
                hs.append(c.hole.id if c.hole is not None else ('item', c.ident))
            want = mk(hs) if len(hs) >= (2 if 'between' in name else 1) else None
            parts = [c for c in p.constraints]
            verified_form = not p.stack
            if p.stack:
                top = p.stack[-1]
                if top.boolf is None:
                    rep.check('C16.R4', f'{_vtag(v)}|window', False, line=v.line, file=REL,
                              why='the lock does not leave a time-check result as its verdict')
                    continue
                parts.append(top.boolf)
            got = L.f_and(parts)
            if want is None:
                eq, cex = False, None
            else:
                eq, cex, _ = L.equivalent(got, want)
            why = ''
            if not eq:
                why = (f'{name} accepts exactly when {_show_time(got)}; documented: {doc[name]}' +
                       (f' - they differ e.g. when {_show_env(cex)}' if cex else ''))
            rep.check('C16.R4', f'{_vtag(v)}|window', eq, line=v.line, file=REL, why=why,
                      facts={'code': _show_time(got), 'documented': doc[name], 'verify_form': verified_form})
            # constraint provenance: the holes are the builder's ts arguments in order
            order = [sorted(c.params) for c, vf, pos in p.time_checks]
            want_order = [['ts']] if 'between' not in name else [['begin_ts'], ['end_ts']]
            ok = order == want_order
            rep.check('C16.R4', f'{_vtag(v)}|constraint-arguments', ok, line=v.line, file=REL,
                      why='' if ok else f'time constraints come from {order}, expected {want_order}')


def _show_time(f) -> str:
    if f[0] == 'const':
        return str(f[1])
    if f[0] == 'lit':
        k = f[1]
        if k[0] == 'ge':
            s = f't >= c{k[1] if not isinstance(k[1], tuple) else k[1][1]}'
            return s if f[2] else f'not({s})'
        if k[0] == 'slack':
            return 'slack' if f[2] else 'not(slack)'
        return str(k)
    if f[0] == 'not':
        return f'not({_show_time(f[1])})'
    j = ' and ' if f[0] == 'and' else ' or '
    return '(' + j.join(_show_time(x) for x in f[1]) + ')'


def _show_env(env) -> str:
    out = []
    for k, v in env.items():
        if k[0] == 'ge':
            out.append(f't {">=" if v else "<"} c{k[1] if not isinstance(k[1], tuple) else k[1][1]}')
        elif k[0] == 'slack':
            out.append('within slack' if v else 'beyond slack (t - now >= threshold > 0)')
    return ', '.join(out)


def ctor_field_agreement(w, rep, rule: str):
    """Positional construction of the package's dataclasses (Certificate, Script, ScriptLeaf ..): a positional
    argument spelled like a field of the class must land in that field.  (A reordered field list with a
    positional call site left behind silently stores a value in the wrong field - e.g. the delegation flag
    in the signature slot.)"""
    import ast as _ast
    rep.rule(rule, 'every positional constructor argument named like a dataclass field is passed in that field\'s position; '
             'no more positional arguments than fields', floor=2)
    tools = w.repo.module('tools')
    fields = {}
    for cname, cd in tools.classes.items():
        is_dc = any((isinstance(d, _ast.Name) and d.id == 'dataclass') or
                    (isinstance(d, _ast.Call) and isinstance(d.func, _ast.Name) and d.func.id == 'dataclass')
                    for d in cd.decorator_list)
        if is_dc:
            fields[cname] = [st.target.id for st in cd.body if isinstance(st, _ast.AnnAssign) and isinstance(st.target, _ast.Name)]
    n = 0
    for fi in w.repo.all_funcs(['tools']):
        for c in _ast.walk(fi.node):
            if not (isinstance(c, _ast.Call) and isinstance(c.func, _ast.Name)):
                continue
            cname = c.func.id
            if cname == 'cls' and fi.cls in fields:
                cname = fi.cls
            if cname not in fields or not c.args:
                continue
            fl = fields[cname]
            n += 1
            why = ''
            if len(c.args) > len(fl):
                why = f'{len(c.args)} positional arguments for {len(fl)} fields'
            for i, a in enumerate(c.args):
                nm = a.id if isinstance(a, _ast.Name) else (a.attr if isinstance(a, _ast.Attribute) else None)
                if nm in fl and i < len(fl) and fl[i] != nm and fl.index(nm) != i:
                    why = (f'argument `{_ast.unparse(a)}` is passed in position {i}, which is field `{fl[i]}` of {cname}; '
                           f'field `{nm}` is at position {fl.index(nm)} - the value lands in the wrong field')
                    break
            rep.check(rule, f'tools.{fi.qualname}|{cname}(...)@{sum(1 for _ in [0])}|{len(c.args)}-positional', not why,
                      line=c.lineno, file=REL, why=why)
    if n == 0:
        rep.check(rule, 'tools|positional-dataclass-constructions', True, trivial=True)


def sigfields_plumbed(w: World, rep: Report, rule: str):
    """Every builder that signs on behalf of the caller runs its signing script on the caller's sigfields as
    given: the cache handed to `run_script` is the `sigfields` parameter itself or a full copy / union of it,
    never a filtered or rebuilt subset (a dropped field is left out of the signed message and the witness
    no longer matches what the lock reconstructs)."""
    import ast as _ast
    rep.rule(rule, 'builders hand the caller\'s sigfields to their signing run whole (the parameter, a copy, or a union '
             'with it) and never rebind the parameter to a subset', floor=4)
    n = 0
    for fi in w.repo.all_funcs(['tools']):
        if fi.parent is not None or fi.cls is not None or 'sigfields' not in fi.params:
            continue
        cfg = w.cfg(fi)
        kinds = w.kinds(fi)
        calls = cfg.nodes_with_call(lambda c: isinstance(c.func, _ast.Name) and c.func.id == 'run_script')
        for nd, c in calls:
            arg = None
            if len(c.args) >= 2:
                arg = c.args[1]
            for k in c.keywords:
                if k.arg == 'cache_vals':
                    arg = k.value
            if arg is None:
                continue
            n += 1
            k = kinds.of(arg, nd)
            ok, why = True, ''
            for l in k.leaves():
                srcs = []
                if l.tag == 'param' and l.name == 'sigfields':
                    continue
                if l.tag == 'copy':
                    srcs = [l.src]
                elif l.tag == 'dict':
                    srcs = list(l.spreads)
                if srcs and any(x.tag == 'param' and x.name == 'sigfields' for s2 in srcs for x in s2.leaves()):
                    continue
                ok = False
                why = (f'the signing run of {fi.name} gets `{_ast.unparse(arg)[:50]}` ({l.tag}) as its cache, not the '
                       f'caller\'s sigfields as given: a field left out is not signed, the witness fails against the lock '
                       f'that rebuilds the message from all sigfields')
            rep.check(rule, f'tools.{fi.name}|run_script@{len([1 for m, _ in calls if m.id <= nd.id])}|cache-is-sigfields',
                      ok, line=nd.line, file=REL, why=why)
    if n == 0:
        raise AnalysisError('no builder runs a signing script on a sigfields parameter')


def signed_message_from_vm(w: World, rep: Report, rule: str, floor: int = 2):
    """A builder that makes a signature itself (outside OP_SIGN) signs, on every path, the item a VM run of its
    signing script left on the stack - never a message it assembled on its own: the lock's OP_CHECK_SIG
    rebuilds the message with OP_GET_MESSAGE (index order, flag masks, signature extensions), and only the
    same builder is guaranteed to give the same bytes for every sigfields dictionary."""
    import ast as _ast
    rep.rule(rule, 'every signature a builder makes outside the VM is over the item its signing run '
             '(`run_script` of a get_message script) left on the stack, on every path', floor=floor)
    n = 0
    for fi in w.repo.all_funcs(['tools']):
        if fi.parent is not None or fi.cls is not None or 'sigfields' not in fi.params:
            continue
        cfg = w.cfg(fi)
        kinds = w.kinds(fi)

        def signing(c):
            if isinstance(c.func, _ast.Name) and c.func.id == 'sign_with_scalar' and len(c.args) >= 2:
                return True
            return isinstance(c.func, _ast.Attribute) and c.func.attr == 'sign' and len(c.args) == 1
        for nd, c in cfg.nodes_with_call(signing):
            n += 1
            m = c.args[-1]
            k = kinds.of(m, nd)
            bad = ''
            alts = k.alts if k.tag == 'join' else [k]
            for a in alts:
                st = a.stack if a.tag == 'stack_item' and getattr(a, 'how', None) == 'get' else None
                src = st.src if st is not None and st.tag == 'unpack' and getattr(st, 'index', None) == 1 else None
                if not (src is not None and src.tag == 'call' and src.name == 'run_script'):
                    bad = (f'{fi.name} signs `{_ast.unparse(m)[:40]}` which on some path is {a.tag}, not the item its signing '
                           f'run left on the stack: a message assembled by the builder need not be the one OP_GET_MESSAGE '
                           f'rebuilds (index order of the fields, masks, extensions) and the witness is then rejected')
                    break
            k2 = len([1 for q, _ in cfg.nodes_with_call(signing) if q.id <= nd.id])
            rep.check(rule, f'tools.{fi.name}|sign@{k2}|message-is-the-vm-item', not bad, line=nd.line, file=REL, why=bad)
    if n == 0:
        raise AnalysisError('no builder makes a signature outside the VM any more (inventory changed)')


def exact_number_formatting(w: World, rep: Report, rule: str, floor: int = 1):
    """Numbers a builder writes into script source are written exactly: an f-string hole with a float presentation
    type or a precision (`{ts:.0f}`, `{n:e}`, `{x:g}`, `%`) rounds integers above 2**53, `round()` / `float()` on the
    way do the same.  Checked on every f-string of tools.py (holes reached through helpers included, since it is
    the formatting construct itself that is examined)."""
    import re as _re
    rep.rule(rule, 'numbers are written into script templates exactly: no float presentation type / precision in an '
             'f-string hole, no float() / round() applied to a builder\'s integer argument', floor=floor)
    m = w.repo.module('tools')
    bad = []
    n = 0
    for fv in [x for x in ast.walk(m.tree) if isinstance(x, ast.FormattedValue)]:
        n += 1
        if fv.format_spec is not None:
            spec = ''.join(v.value for v in fv.format_spec.values if isinstance(v, ast.Constant) and isinstance(v.value, str))
            if _re.search(r'[eEfFgG%]$', spec) or '.' in spec:
                bad.append((fv.lineno, f'{{{ast.unparse(fv.value)[:20]}:{spec}}}'))
    for c in [x for x in ast.walk(m.tree) if isinstance(x, ast.Call) and isinstance(x.func, ast.Name) and x.func.id in ('float', 'round')]:
        for fn in [f for f in ast.walk(m.tree) if isinstance(f, ast.FunctionDef) and any(y is c for y in ast.walk(f))]:
            ints = {a.arg for a in fn.args.args + fn.args.kwonlyargs if a.annotation is not None and
                    ast.unparse(a.annotation).replace("'", '') in ('int', 'int|None', 'int | None')}
            if any(isinstance(y, ast.Name) and y.id in ints for a in c.args for y in ast.walk(a)):
                bad.append((c.lineno, ast.unparse(c)[:30]))
    rep.check(rule, 'tools|numbers-written-exactly', not bad, line=bad[0][0] if bad else None, file=REL,
              why='' if not bad else f'`{bad[0][1]}` goes through a float: integers of 2**53 and more are rounded before they '
              f'are compiled into the script, so the lock enforces another value than the one it was built for',
              facts={'f_string_holes_examined': n})
    if n < 50:
        raise AnalysisError('tools.py: f-string holes not found (inventory changed)')


def no_falsy_default_on_numbers(w: World, rep: Report, rule: str, floor: int = 1):
    """A numeric argument of a builder (timeout, timestamp, size, count) is replaced by a default only when it is
    *absent* (`is None`), never when it is merely falsy: `t = t or D`, `t if t else D`, `if not t: t = D` turn the
    legitimate value 0 into the default (a PTLC with timeout 0 gets a day; t = 0 becomes "now")."""
    rep.rule(rule, 'no builder replaces a numeric argument by a default on falsiness (`x or d`, `x if x else d`, '
             '`if not x: x = d`): 0 is a value', floor=floor)
    m = w.repo.module('tools')
    n = 0
    bad = []
    for fn in [f for f in ast.walk(m.tree) if isinstance(f, ast.FunctionDef)]:
        nums = set()
        a = fn.args
        pos = a.posonlyargs + a.args
        defaults = dict(zip([x.arg for x in pos[len(pos) - len(a.defaults):]], a.defaults))
        defaults.update({x.arg: d for x, d in zip(a.kwonlyargs, a.kw_defaults) if d is not None})
        for x in pos + a.kwonlyargs:
            ann = ast.unparse(x.annotation).replace("'", '').replace(' ', '') if x.annotation is not None else ''
            d = defaults.get(x.arg)
            if ann.split('|')[0] in ('int', 'float') or (isinstance(d, ast.Constant) and type(d.value) in (int, float)) or \
                    (isinstance(d, ast.BinOp) and not ann):
                nums.add(x.arg)
        if not nums:
            continue
        n += 1
        for x in ast.walk(fn):
            p = None
            if isinstance(x, ast.BoolOp) and isinstance(x.op, ast.Or) and isinstance(x.values[0], ast.Name) and \
                    x.values[0].id in nums:
                p = x.values[0].id
            if isinstance(x, ast.IfExp):
                t = x.test
                if isinstance(t, ast.UnaryOp) and isinstance(t.op, ast.Not):
                    t = t.operand
                if isinstance(t, ast.Name) and t.id in nums:
                    p = t.id
            if isinstance(x, ast.If):
                t = x.test
                if isinstance(t, ast.UnaryOp) and isinstance(t.op, ast.Not) and isinstance(t.operand, ast.Name) and \
                        t.operand.id in nums and any(isinstance(s2, ast.Assign) and any(isinstance(tg, ast.Name) and tg.id == t.operand.id
                                                                                         for tg in s2.targets) for s2 in x.body):
                    p = t.operand.id
            if p is not None:
                bad.append((fn.name, p, x.lineno, ast.unparse(x)[:40]))
    rep.check(rule, 'tools|numeric-arguments-defaulted-only-when-absent', not bad, line=bad[0][2] if bad else None, file=REL,
              why='' if not bad else f'{bad[0][0]}: `{bad[0][3]}` replaces {bad[0][1]} = 0 by the default - the lock is built for '
              f'another value than the caller asked for', facts={'functions_with_numeric_parameters': n})
    if n < 10:
        raise AnalysisError('tools.py: builders with numeric parameters not found (inventory changed)')


def sigflags_forwarded(w: World, rep: Report, rule: str, floor: int = 10):
    """A builder that takes `sigflags` hands it to every other builder it calls that takes `sigflags` too (a lock or
    witness composed from others permits / signs with the flags its caller asked for), and every builder's default
    for the parameter is the documented '00' (no field may be left out unless the caller says so)."""
    rep.rule(rule, "builders forward their sigflags to every builder they call that accepts it; the default of the parameter "
             "is '00' everywhere", floor=floor)
    m = w.repo.module('tools')
    fns = {f.name: f for f in m.tree.body if isinstance(f, ast.FunctionDef)}

    def params(f):
        return [a.arg for a in f.args.posonlyargs + f.args.args + f.args.kwonlyargs]
    takes = {n for n, f in fns.items() if 'sigflags' in params(f)}
    n_calls = 0
    for name in sorted(takes):
        f = fns[name]
        a = f.args
        pos = a.posonlyargs + a.args
        dflt = dict(zip([x.arg for x in pos[len(pos) - len(a.defaults):]], a.defaults))
        dflt.update({x.arg: d for x, d in zip(a.kwonlyargs, a.kw_defaults) if d is not None})
        d = dflt.get('sigflags')
        okd = d is None or (isinstance(d, ast.Constant) and d.value == '00')
        rep.check(rule, f'tools.{name}|sigflags-default-00', okd, line=f.lineno, file=REL,
                  why='' if okd else f"{name} defaults sigflags to {ast.unparse(d)}: a lock or witness built without asking for flags "
                  f"permits / uses a flag that leaves a sigfield out of the signed message")
        for c in [x for x in ast.walk(f) if isinstance(x, ast.Call) and isinstance(x.func, ast.Name) and x.func.id in takes
                  and x.func.id != name]:
            n_calls += 1
            callee = fns[c.func.id]
            cp = params(callee)
            idx = cp.index('sigflags')
            passed = None
            if len(c.args) > idx and not any(isinstance(z, ast.Starred) for z in c.args):
                passed = c.args[idx]
            for k in c.keywords:
                if k.arg == 'sigflags':
                    passed = k.value
            okc = passed is not None and any(isinstance(y, ast.Name) and y.id == 'sigflags' for y in ast.walk(passed))
            rep.check(rule, f'tools.{name}|calls {c.func.id}@{c.lineno - f.lineno}|sigflags-forwarded', okc, line=c.lineno, file=REL,
                      why='' if okc else f'{name} calls {c.func.id} without its sigflags: that part is built for flags 00 while the rest '
                      f'uses the caller\'s flags - the builder\'s own lock and witness no longer agree')
    if n_calls < 5:
        raise AnalysisError('tools.py: composed builders with sigflags not found (inventory changed)')
