"""Structural normalisations run before everything else in `inline.normalise`.

Each one undoes a packaging of code that leaves behaviour alone, so that the rules - written against plain
module-level functions with straight-line bodies - see the same program whichever packaging the repository
uses.  All of them are identities on the pinned tree (nothing there is packaged this way).

  * static-method namespaces: a class holding only constants and @staticmethod functions is dissolved into
    module-level functions (`C.m` -> `_C__m`, `C.K` -> the constant); `name = C.m` makes `name` the function.
  * decorators: `@deco def f(..)` with `deco` a module-level wrapper factory (`def deco(fn): def w(..): ..fn(..)..;
    return w`) becomes `f` = the wrapper body calling the undecorated function, which the inliner then folds in.
  * context managers: `with cm(a): body` for a `@contextmanager` generator `pre; yield; post` becomes
    `pre; body; post` (or `pre; try: body finally: post` when the generator yields inside try/finally).
  * generators: `for T in IT: yield E` consumed by `list(..)` or a for loop becomes the comprehension /
    the loop with `x = E` as first statement (lazy order preserved); any other generator that only yields in
    statement position becomes a list builder, `list(g(..))` becomes `g(..)`.

What cannot be expanded is left as it is; the call then stays opaque to the inliner and the properties that
read the code fail closed (exit 2), never silently.
"""
from __future__ import annotations
import ast
import copy

from .inline import _Renamer as Renamer, _stored_names as stored_names, _simple_arg as simple_arg


def _is_name(e, name: str) -> bool:
    return isinstance(e, ast.Name) and e.id == name


def _deco_name(d: ast.AST) -> str | None:
    if isinstance(d, ast.Name):
        return d.id
    if isinstance(d, ast.Attribute):
        return d.attr
    if isinstance(d, ast.Call):
        return _deco_name(d.func)
    return None


def _doc(fn) -> ast.stmt | None:
    if fn.body and isinstance(fn.body[0], ast.Expr) and isinstance(fn.body[0].value, ast.Constant) and \
            isinstance(fn.body[0].value.value, str):
        return fn.body[0]
    return None


def _refs(modules: dict, name: str, skip=()) -> int:
    n = 0
    for m in modules.values():
        for x in ast.walk(m.tree):
            if any(x is s for s in skip):
                continue
            if isinstance(x, ast.Name) and x.id == name:
                n += 1
            elif isinstance(x, ast.alias) and x.name == name:
                n += 1
    return n


# ---------------------------------------------------------------------------------------------------------
# static-method namespaces
# ---------------------------------------------------------------------------------------------------------

def lift_static_classes(modules: dict, names=('functions', 'parsing', 'tools')) -> int:
    done = 0
    for mn in names:
        m = modules.get(mn)
        if m is None:
            continue
        for cls in [s for s in m.tree.body if isinstance(s, ast.ClassDef)]:
            if cls.bases or cls.keywords or cls.decorator_list:
                continue
            consts, meths, ok = {}, [], True
            for s in cls.body:
                if isinstance(s, ast.Expr) and isinstance(s.value, ast.Constant):
                    continue
                if isinstance(s, ast.Assign) and len(s.targets) == 1 and isinstance(s.targets[0], ast.Name) and \
                        isinstance(s.value, ast.Constant):
                    consts[s.targets[0].id] = s.value
                elif isinstance(s, ast.FunctionDef) and len(s.decorator_list) == 1 and \
                        _is_name(s.decorator_list[0], 'staticmethod'):
                    meths.append(s)
                elif isinstance(s, ast.Pass):
                    continue
                else:
                    ok = False
            if not ok or not meths:
                continue
            # every use of the class is `C.<member>`
            uses_ok = True
            for mod in modules.values():
                parents = {}
                for p in ast.walk(mod.tree):
                    for c in ast.iter_child_nodes(p):
                        parents[id(c)] = p
                for x in ast.walk(mod.tree):
                    if isinstance(x, ast.Name) and x.id == cls.name:
                        p = parents.get(id(x))
                        if not (isinstance(p, ast.Attribute) and p.value is x and
                                (p.attr in consts or p.attr in {f.name for f in meths}) and isinstance(p.ctx, ast.Load)):
                            uses_ok = False
            if not uses_ok:
                continue
            new_names = {f.name: f'_{cls.name.lstrip("_")}__{f.name}' for f in meths}

            class T(ast.NodeTransformer):
                def visit_Attribute(self, n):
                    self.generic_visit(n)
                    if isinstance(n.value, ast.Name) and n.value.id == cls.name and isinstance(n.ctx, ast.Load):
                        if n.attr in consts:
                            return ast.copy_location(copy.deepcopy(consts[n.attr]), n)
                        if n.attr in new_names:
                            return ast.copy_location(ast.Name(id=new_names[n.attr], ctx=ast.Load()), n)
                    return n
            lifted = []
            for f in meths:
                g = copy.deepcopy(f)
                g.decorator_list = []
                g.name = new_names[f.name]
                lifted.append(g)
            i = m.tree.body.index(cls)
            m.tree.body[i:i + 1] = lifted
            for mod in modules.values():
                T().visit(mod.tree)
            # `alias = _C__m` at module level: the alias *is* the function
            for g in lifted:
                aliases = [s for s in m.tree.body if isinstance(s, ast.Assign) and len(s.targets) == 1 and
                           isinstance(s.targets[0], ast.Name) and _is_name(s.value, g.name)]
                defined = {s.name for s in m.tree.body if isinstance(s, (ast.FunctionDef, ast.ClassDef))}
                if len(aliases) == 1 and aliases[0].targets[0].id not in defined:
                    new = aliases[0].targets[0].id
                    old = g.name
                    m.tree.body.remove(aliases[0])
                    g.name = new
                    for mod in modules.values():
                        for x in ast.walk(mod.tree):
                            if isinstance(x, ast.Name) and x.id == old:
                                x.id = new
            ast.fix_missing_locations(m.tree)
            done += 1
    return done


# ---------------------------------------------------------------------------------------------------------
# decorators
# ---------------------------------------------------------------------------------------------------------

def _wrapper_factory(fn: ast.FunctionDef):
    """(param naming the wrapped function, wrapper def) for `def deco(fn): [doc]; def w(..): ..; return w`."""
    args = fn.args
    if len(args.args) != 1 or args.vararg or args.kwarg or args.kwonlyargs or args.posonlyargs:
        return None
    body = [s for s in fn.body if not (isinstance(s, ast.Expr) and isinstance(s.value, ast.Constant))]
    if len(body) != 2 or not isinstance(body[0], ast.FunctionDef) or not isinstance(body[1], ast.Return):
        return None
    w = body[0]
    if not _is_name(body[1].value, w.name):
        return None
    if any(_deco_name(d) != 'wraps' for d in w.decorator_list):
        return None
    if any(isinstance(x, (ast.Yield, ast.YieldFrom, ast.Nonlocal, ast.Global, ast.Lambda)) for x in ast.walk(w)):
        return None
    if any(isinstance(x, ast.FunctionDef) for x in ast.walk(w) if x is not w):
        return None
    return args.args[0].arg, w


def expand_decorators(modules: dict, names=('functions', 'parsing', 'tools')) -> int:
    done = 0
    for mn in names:
        m = modules.get(mn)
        if m is None:
            continue
        factories = {}
        for s in m.tree.body:
            if isinstance(s, ast.FunctionDef) and not s.decorator_list:
                wf = _wrapper_factory(s)
                if wf:
                    factories[s.name] = (s, *wf)
        if not factories:
            continue
        out = []
        for s in m.tree.body:
            if not (isinstance(s, ast.FunctionDef) and s.decorator_list and
                    all(isinstance(d, ast.Name) and d.id in factories for d in s.decorator_list)):
                out.append(s)
                continue
            cur = s
            pre = []
            # innermost decorator is applied first
            for k, d in enumerate(reversed(s.decorator_list)):
                fac, fparam, w = factories[d.id]
                impl = copy.deepcopy(cur)
                impl.decorator_list = []
                impl.name = f'_{s.name.lstrip("_")}__impl{k if k else ""}'
                new = copy.deepcopy(w)
                new.decorator_list = []
                new.name = s.name
                wa = new.args
                impl_args = impl.args.posonlyargs + impl.args.args
                if wa.vararg or wa.kwarg:
                    # generic wrapper (named..., *args, **kwargs): specialise it to the wrapped function's signature
                    named = wa.posonlyargs + wa.args
                    if len(named) > len(impl_args) or wa.kwonlyargs or impl.args.vararg or impl.args.kwarg:
                        new = None
                    else:
                        ren = {a.arg: impl_args[i].arg for i, a in enumerate(named) if a.arg != impl_args[i].arg}
                        va, kw = (wa.vararg.arg if wa.vararg else None), (wa.kwarg.arg if wa.kwarg else None)
                        rest = [a.arg for a in impl_args[len(named):]] + [a.arg for a in impl.args.kwonlyargs]
                        okc = [True]

                        class C(ast.NodeTransformer):
                            def visit_Call(self, c):
                                self.generic_visit(c)
                                stars = [a for a in c.args if isinstance(a, ast.Starred)]
                                dstars = [k2 for k2 in c.keywords if k2.arg is None]
                                if not stars and not dstars:
                                    return c
                                if not (_is_name(c.func, fparam) and len(stars) == (1 if va else 0) and
                                        len(dstars) == (1 if kw else 0) and
                                        all(_is_name(a.value, va) for a in stars) and
                                        all(_is_name(k2.value, kw) for k2 in dstars) and
                                        (not stars or c.args[-1] is stars[0])):
                                    okc[0] = False
                                    return c
                                c.args = [a for a in c.args if not isinstance(a, ast.Starred)] + \
                                    [ast.Name(id=r, ctx=ast.Load()) for r in rest]
                                c.keywords = [k2 for k2 in c.keywords if k2.arg is not None]
                                return c
                        new.body = [Renamer({}, ren).visit(b) for b in new.body]
                        new.body = [C().visit(b) for b in new.body]
                        other = [x for x in ast.walk(new) if isinstance(x, ast.Name) and x.id in (va, kw)]
                        if not okc[0] or other:
                            new = None
                        else:
                            new.args = copy.deepcopy(impl.args)
                if new is None:
                    cur = None
                    break
                # the wrapped function is called under the factory's parameter name
                for x in ast.walk(new):
                    if isinstance(x, ast.Name) and x.id == fparam:
                        x.id = impl.name
                # functools.wraps: the public object carries the wrapped function's docstring
                d0, dw = _doc(impl), _doc(new)
                if d0 is not None:
                    if dw is not None:
                        new.body[0] = copy.deepcopy(d0)
                    else:
                        new.body.insert(0, copy.deepcopy(d0))
                if new.returns is None:
                    new.returns = copy.deepcopy(impl.returns)
                ast.copy_location(new, s)
                pre.append(impl)
                cur = new
            if cur is None:
                out.append(s)
                continue
            out += pre + [cur]
            done += 1
        m.tree.body = out
        # a factory nothing refers to any more is packaging only
        for name, (fac, _, _) in factories.items():
            if _refs(modules, name, skip=[x for x in ast.walk(fac)]) == 0 and fac in m.tree.body:
                m.tree.body.remove(fac)
        ast.fix_missing_locations(m.tree)
    return done


# ---------------------------------------------------------------------------------------------------------
# context managers
# ---------------------------------------------------------------------------------------------------------

def _cm_parts(fn: ast.FunctionDef):
    """(pre, yielded value or None, post, use_finally) for a @contextmanager generator with one top-level yield."""
    if len(fn.decorator_list) != 1 or _deco_name(fn.decorator_list[0]) != 'contextmanager':
        return None
    a = fn.args
    if a.vararg or a.kwarg or a.kwonlyargs:
        return None
    body = [s for s in fn.body if not (isinstance(s, ast.Expr) and isinstance(s.value, ast.Constant))]
    ys = [x for x in ast.walk(fn) if isinstance(x, (ast.Yield, ast.YieldFrom))]
    if len(ys) != 1 or isinstance(ys[0], ast.YieldFrom):
        return None
    if any(isinstance(x, (ast.Return, ast.FunctionDef, ast.Lambda, ast.Global, ast.Nonlocal)) for s in body for x in ast.walk(s)):
        return None
    for i, s in enumerate(body):
        if isinstance(s, ast.Expr) and s.value is ys[0]:
            return body[:i], ys[0].value, body[i + 1:], False
        if isinstance(s, ast.Try) and not s.handlers and not s.orelse and len(s.body) == 1 and \
                isinstance(s.body[0], ast.Expr) and s.body[0].value is ys[0]:
            return body[:i], ys[0].value, list(s.finalbody) + body[i + 1:], True
    return None


def _escapes(stmts) -> bool:
    """return anywhere, or break/continue not enclosed by a loop inside the block."""
    def rec(ss, in_loop):
        for s in ss:
            if isinstance(s, ast.Return):
                return True
            if isinstance(s, (ast.Break, ast.Continue)) and not in_loop:
                return True
            if isinstance(s, (ast.FunctionDef, ast.ClassDef)):
                continue
            for fld in ('body', 'orelse', 'finalbody'):
                sub = getattr(s, fld, None)
                if isinstance(sub, list) and sub and isinstance(sub[0], ast.stmt):
                    if rec(sub, in_loop or (isinstance(s, (ast.For, ast.While)) and fld == 'body')):
                        return True
            for h in getattr(s, 'handlers', []) or []:
                if rec(h.body, in_loop):
                    return True
            for c in getattr(s, 'cases', []) or []:
                if rec(c.body, in_loop):
                    return True
        return False
    return rec(stmts, False)


def expand_context_managers(modules: dict, names=('functions', 'parsing', 'tools')) -> int:
    done = 0
    counter = [0]
    for mn in names:
        m = modules.get(mn)
        if m is None:
            continue
        cms = {}
        for s in m.tree.body:
            if isinstance(s, ast.FunctionDef) and s.decorator_list:
                p = _cm_parts(s)
                if p:
                    cms[s.name] = (s, p)
        if not cms:
            continue

        def expand_block(stmts):
            out = []
            for s in stmts:
                for fld in ('body', 'orelse', 'finalbody'):
                    sub = getattr(s, fld, None)
                    if isinstance(sub, list) and sub and isinstance(sub[0], ast.stmt):
                        setattr(s, fld, expand_block(sub))
                for h in getattr(s, 'handlers', []) or []:
                    h.body = expand_block(h.body)
                for c in getattr(s, 'cases', []) or []:
                    c.body = expand_block(c.body)
                if isinstance(s, ast.With) and len(s.items) == 1 and isinstance(s.items[0].context_expr, ast.Call) and \
                        isinstance(s.items[0].context_expr.func, ast.Name) and s.items[0].context_expr.func.id in cms:
                    call = s.items[0].context_expr
                    fn, (pre, yv, post, fin) = cms[call.func.id]
                    params = [a.arg for a in fn.args.posonlyargs + fn.args.args]
                    if call.keywords and any(k.arg is None or k.arg not in params for k in call.keywords) or \
                            any(isinstance(a, ast.Starred) for a in call.args) or _escapes(s.body):
                        out.append(s)
                        continue
                    bound = dict(zip(params, call.args))
                    for k in call.keywords:
                        bound[k.arg] = k.value
                    defaults = fn.args.defaults
                    for i, pn in enumerate(params):
                        j = i - (len(params) - len(defaults))
                        if pn not in bound and j >= 0:
                            bound[pn] = defaults[j]
                    if set(bound) != set(params):
                        out.append(s)
                        continue
                    counter[0] += 1
                    sfx = f'__cm{counter[0]}'
                    stored = stored_names(fn)
                    subst, ren, setup = {}, {v: v + sfx for v in stored if v not in params}, []
                    for pn, a in bound.items():
                        if simple_arg(a) and pn not in stored:
                            subst[pn] = a
                        else:
                            ren[pn] = pn + sfx
                            setup.append(ast.Assign(targets=[ast.Name(id=pn + sfx, ctx=ast.Store())], value=copy.deepcopy(a)))
                    R = lambda ss: [Renamer(subst, ren).visit(copy.deepcopy(x)) for x in ss]
                    new = setup + R(pre)
                    if s.items[0].optional_vars is not None:
                        val = Renamer(subst, ren).visit(copy.deepcopy(yv)) if yv is not None else ast.Constant(value=None)
                        new.append(ast.Assign(targets=[copy.deepcopy(s.items[0].optional_vars)], value=val))
                    if fin:
                        new.append(ast.Try(body=s.body, handlers=[], orelse=[], finalbody=R(post)))
                    else:
                        new += s.body + R(post)
                    for x in new:
                        ast.copy_location(x, s)
                        ast.fix_missing_locations(x)
                    out += new
                    nonlocal_done[0] += 1
                    continue
                out.append(s)
            return out
        nonlocal_done = [0]
        for fn in [x for x in ast.walk(m.tree) if isinstance(x, ast.FunctionDef) and x.name not in cms]:
            fn.body = expand_block(fn.body)
        done += nonlocal_done[0]
        for name, (fn, _) in cms.items():
            if _refs(modules, name, skip=[x for x in ast.walk(fn)]) == 0 and fn in m.tree.body:
                m.tree.body.remove(fn)
        ast.fix_missing_locations(m.tree)
    return done


# ---------------------------------------------------------------------------------------------------------
# generators
# ---------------------------------------------------------------------------------------------------------

def _own_nodes(fn):
    """Nodes of fn not inside a nested function / lambda / class."""
    todo = list(fn.body)
    while todo:
        n = todo.pop()
        yield n
        for c in ast.iter_child_nodes(n):
            if isinstance(c, (ast.FunctionDef, ast.AsyncFunctionDef, ast.Lambda, ast.ClassDef)):
                continue
            todo.append(c)


def _is_generator(fn: ast.FunctionDef) -> bool:
    return any(isinstance(x, (ast.Yield, ast.YieldFrom)) for x in _own_nodes(fn))


def _simple_gen(fn: ast.FunctionDef):
    """(target, iter, element) for `def g(..): [doc]; for T in IT: yield E`."""
    body = [s for s in fn.body if not (isinstance(s, ast.Expr) and isinstance(s.value, ast.Constant))]
    if len(body) == 1 and isinstance(body[0], ast.For) and not body[0].orelse and len(body[0].body) == 1 and \
            isinstance(body[0].body[0], ast.Expr) and isinstance(body[0].body[0].value, ast.Yield) and \
            body[0].body[0].value.value is not None:
        f = body[0]
        if not any(isinstance(x, (ast.Yield, ast.YieldFrom)) for x in ast.walk(f.iter)) and \
                not any(isinstance(x, (ast.Yield, ast.YieldFrom)) for x in ast.walk(f.body[0].value.value)):
            return f.target, f.iter, f.body[0].value.value
    return None


def generators_to_lists(modules: dict, names=('functions', 'parsing', 'tools', 'classes')) -> int:
    done = 0
    counter = [0]
    for mn in names:
        m = modules.get(mn)
        if m is None:
            continue
        gens = {}
        for s in m.tree.body:
            if isinstance(s, ast.FunctionDef) and not s.decorator_list and _is_generator(s):
                gens[s.name] = s
        # nested generator functions (a helper defined inside the function that consumes it)
        nested = []
        for outer in [x for x in ast.walk(m.tree) if isinstance(x, ast.FunctionDef)]:
            for s in outer.body:
                if isinstance(s, ast.FunctionDef) and not s.decorator_list and _is_generator(s):
                    nested.append((outer, s))
        if not gens and not nested:
            continue
        # only generators used by direct call everywhere
        parents = {}
        for mod in modules.values():
            for p in ast.walk(mod.tree):
                for c in ast.iter_child_nodes(p):
                    parents[id(c)] = p

        def only_called(name, scope_trees):
            for t in scope_trees:
                for x in ast.walk(t):
                    if isinstance(x, ast.Name) and x.id == name and isinstance(x.ctx, ast.Load):
                        p = parents.get(id(x))
                        if not (isinstance(p, ast.Call) and p.func is x):
                            return False
                    if isinstance(x, ast.alias) and x.name == name:
                        return False
            return True

        def convertible(g):
            own = list(_own_nodes(g))
            if any(isinstance(x, ast.YieldFrom) for x in own):
                return False
            ys = [x for x in own if isinstance(x, ast.Yield)]
            stmts = [x for x in own if isinstance(x, ast.Expr) and isinstance(x.value, ast.Yield)]
            if len(ys) != len(stmts) or any(y.value is None for y in ys):
                return False
            if any(isinstance(x, ast.Return) and x.value is not None for x in own):
                return False
            return True

        def to_list_builder(g):
            counter[0] += 1
            acc = f'__yielded{counter[0]}'

            class Y(ast.NodeTransformer):
                def visit_FunctionDef(self, n):
                    if n is g:
                        self.generic_visit(n)
                    return n

                def visit_Lambda(self, n):
                    return n

                def visit_Expr(self, n):
                    if isinstance(n.value, ast.Yield):
                        return ast.copy_location(ast.Expr(value=ast.Call(
                            func=ast.Attribute(value=ast.Name(id=acc, ctx=ast.Load()), attr='append', ctx=ast.Load()),
                            args=[n.value.value], keywords=[])), n)
                    return n

                def visit_Return(self, n):
                    return ast.copy_location(ast.Return(value=ast.Name(id=acc, ctx=ast.Load())), n)
            Y().visit(g)
            i = 1 if _doc(g) is not None else 0
            g.body.insert(i, ast.Assign(targets=[ast.Name(id=acc, ctx=ast.Store())], value=ast.List(elts=[], ctx=ast.Load())))
            g.body.append(ast.Return(value=ast.Name(id=acc, ctx=ast.Load())))
            g.returns = None
            ast.fix_missing_locations(g)

        def rewrite_uses(name, g, scope_trees, simple):
            """list(g(..)) -> comprehension / g(..);  for x in g(..) -> loop over the generator's own iterable."""
            params = [a.arg for a in g.args.posonlyargs + g.args.args]

            def bind(call):
                if any(isinstance(a, ast.Starred) for a in call.args) or any(k.arg is None or k.arg not in params for k in call.keywords):
                    return None
                b = dict(zip(params, call.args))
                for k in call.keywords:
                    b[k.arg] = k.value
                if set(b) != set(params) or not all(simple_arg(a) or isinstance(a, (ast.BinOp, ast.Call)) for a in b.values()):
                    return None
                # an argument expression is substituted, so it must be used once and be free of effects we could reorder
                return b

            def inst(call):
                if simple is None:
                    return None
                b = bind(call)
                if b is None:
                    return None
                T, IT, E = simple
                # arguments that are not plain names/constants may only be used in the iterable (evaluated once, first)
                for pn, a in b.items():
                    if not simple_arg(a):
                        uses_e = sum(1 for x in ast.walk(E) if isinstance(x, ast.Name) and x.id == pn)
                        uses_it = sum(1 for x in ast.walk(IT) if isinstance(x, ast.Name) and x.id == pn)
                        if uses_e or uses_it != 1:
                            return None
                counter[0] += 1
                ren = {x.id: f'{x.id}__g{counter[0]}' for x in ast.walk(T) if isinstance(x, ast.Name) and x.id != '_'}
                R = Renamer(b, ren)
                return (R.visit(copy.deepcopy(T)), R.visit(copy.deepcopy(IT)), R.visit(copy.deepcopy(E)))

            class U(ast.NodeTransformer):
                def visit_Call(self, c):
                    self.generic_visit(c)
                    if isinstance(c.func, ast.Name) and c.func.id in ('list', 'tuple') and len(c.args) == 1 and not c.keywords \
                            and isinstance(c.args[0], ast.Call) and _is_name(c.args[0].func, name):
                        got = inst(c.args[0])
                        if got:
                            T, IT, E = got
                            comp = ast.ListComp(elt=E, generators=[ast.comprehension(target=T, iter=IT, ifs=[], is_async=0)])
                            if c.func.id == 'tuple':
                                c.args = [comp]
                                return c
                            return ast.copy_location(comp, c)
                        if c.func.id == 'list':
                            return c.args[0]
                    return c

                def visit_For(self, f):
                    self.generic_visit(f)
                    if isinstance(f.iter, ast.Call) and _is_name(f.iter.func, name) and not f.orelse:
                        got = inst(f.iter)
                        if got:
                            T, IT, E = got
                            first = ast.Assign(targets=[f.target], value=E)
                            ast.copy_location(first, f)
                            f.target = T
                            f.iter = IT
                            f.body = [first] + f.body
                            for x in ast.walk(f.target):
                                if isinstance(x, ast.Name):
                                    x.ctx = ast.Store()
                    return f
            for t in scope_trees:
                U().visit(t)
                ast.fix_missing_locations(t)

        all_trees = [mod.tree for mod in modules.values()]
        for name, g in gens.items():
            if not only_called(name, all_trees) or not convertible(g):
                continue
            simple = _simple_gen(g)
            rewrite_uses(name, g, all_trees, simple)
            if _refs(modules, name, skip=[x for x in ast.walk(g)]) == 0:
                if g in m.tree.body:
                    m.tree.body.remove(g)
            else:
                to_list_builder(g)
            done += 1
        for outer, g in nested:
            if g not in outer.body or not only_called(g.name, [outer]) or not convertible(g):
                continue
            # recursion inside a nested generator: `for x in g(sub): yield x` / `yield from` is not handled
            if any(isinstance(x, ast.Name) and x.id == g.name for x in ast.walk(g)):
                continue
            simple = _simple_gen(g)
            rewrite_uses(g.name, g, [outer], simple)
            if not any(isinstance(x, ast.Name) and x.id == g.name for x in ast.walk(outer) if x is not g):
                outer.body.remove(g)
            else:
                to_list_builder(g)
            done += 1
        ast.fix_missing_locations(m.tree)
    return done


# ---------------------------------------------------------------------------------------------------------
# equivalent spellings of small expressions and dict idioms
# ---------------------------------------------------------------------------------------------------------

class _Idioms(ast.NodeTransformer):
    """`bytes([e])` -> `e.to_bytes(1, 'big')`;  statement `d.pop(k, None)` -> `if k in d: del d[k]`;
    statement `d.setdefault(k, v)` -> `if k not in d: d[k] = v`;  `d.get(k)` / `d.get(k, None|False)` used only for
    its truth (if / while / not / and / or / conditional-expression test) -> `k in d and d[k]`."""

    def __init__(self):
        self.count = 0

    @staticmethod
    def _simple(e) -> bool:
        return simple_arg(e) or (isinstance(e, ast.Subscript) and simple_arg(e.value) and simple_arg(e.slice)) or \
            isinstance(e, ast.JoinedStr) and all(isinstance(v, ast.Constant) or (isinstance(v, ast.FormattedValue) and simple_arg(v.value))
                                                 for v in e.values)

    def visit_Call(self, n):
        self.generic_visit(n)
        # sep.join(<generator>) materialises its argument anyway: the same as joining the list comprehension
        if isinstance(n.func, ast.Attribute) and n.func.attr == 'join' and len(n.args) == 1 and not n.keywords and \
                isinstance(n.args[0], ast.GeneratorExp) and isinstance(n.func.value, ast.Constant):
            g = n.args[0]
            n.args = [ast.copy_location(ast.ListComp(elt=g.elt, generators=g.generators), g)]
            self.count += 1
            return n
        if isinstance(n.func, ast.Name) and n.func.id == 'bytes' and len(n.args) == 1 and not n.keywords and \
                isinstance(n.args[0], (ast.List, ast.Tuple)) and len(n.args[0].elts) == 1 and \
                not isinstance(n.args[0].elts[0], ast.Starred):
            self.count += 1
            return ast.copy_location(ast.Call(
                func=ast.Attribute(value=n.args[0].elts[0], attr='to_bytes', ctx=ast.Load()),
                args=[ast.Constant(value=1), ast.Constant(value='big')], keywords=[]), n)
        return n

    # ---- struct decodes of fixed-width big-endian integers -------------------------------------------
    _FMT = {'B': (1, False), 'b': (1, True), 'H': (2, False), 'h': (2, True), 'I': (4, False), 'i': (4, True),
            'L': (4, False), 'l': (4, True), 'Q': (8, False), 'q': (8, True)}

    @classmethod
    def _fields(cls, fmt):
        if not isinstance(fmt, str) or fmt[:1] not in ('!', '>') or len(fmt) < 2:
            return None
        out = []
        for ch in fmt[1:]:
            if ch not in cls._FMT:
                return None
            out.append(cls._FMT[ch])
        return out

    @staticmethod
    def _decode(src: ast.AST, signed: bool, width: int) -> ast.AST:
        if signed and width == 1:
            return ast.Call(func=ast.Name(id='bytes_to_int', ctx=ast.Load()), args=[src], keywords=[])
        kws = [ast.keyword(arg='signed', value=ast.Constant(value=True))] if signed else []
        return ast.Call(func=ast.Attribute(value=ast.Name(id='int', ctx=ast.Load()), attr='from_bytes', ctx=ast.Load()),
                        args=[src, ast.Constant(value='big')], keywords=kws)

    @staticmethod
    def _is_unpack(c):
        return isinstance(c, ast.Call) and _deco_name(c.func) == 'unpack' and len(c.args) == 2 and not c.keywords and \
            isinstance(c.args[0], ast.Constant)

    def visit_Subscript(self, n):
        self.generic_visit(n)
        # struct.unpack('!H', X)[0]  ->  int.from_bytes(X, 'big')
        if self._is_unpack(n.value) and isinstance(n.slice, ast.Constant) and n.slice.value == 0:
            f = self._fields(n.value.args[0].value)
            if f is not None and len(f) == 1:
                self.count += 1
                return ast.copy_location(self._decode(n.value.args[1], f[0][1], f[0][0]), n)
        return n

    def visit_Assign(self, n):
        self.generic_visit(n)
        if len(n.targets) != 1 or not isinstance(n.targets[0], (ast.Tuple, ast.List)):
            return n
        tg = n.targets[0].elts
        v = n.value
        if any(isinstance(t, ast.Starred) for t in tg):
            return n
        read = v.args[1] if self._is_unpack(v) else v
        is_read = isinstance(read, ast.Call) and isinstance(read.func, ast.Attribute) and read.func.attr == 'read' and \
            len(read.args) == 1 and not read.keywords and isinstance(read.args[0], ast.Constant) and simple_arg(read.func.value)
        if not is_read:
            return n
        total = read.args[0].value

        def rd(k):
            return ast.Call(func=copy.deepcopy(read.func), args=[ast.Constant(value=k)], keywords=[])
        out = None
        if self._is_unpack(v):
            # a, b = struct.unpack('!BH', tape.read(3))  ->  one read and decode per field, in order
            f = self._fields(v.args[0].value)
            if f is not None and len(f) == len(tg) and sum(w for w, _ in f) == total:
                out = [ast.Assign(targets=[t], value=self._decode(rd(w), sg, w)) for t, (w, sg) in zip(tg, f)]
        elif total == len(tg):
            # i, j = tape.read(2)  (bytes unpack to their integer values)  ->  one single-byte read each
            out = [ast.Assign(targets=[t], value=ast.Subscript(value=rd(1), slice=ast.Constant(value=0), ctx=ast.Load()))
                   for t in tg]
        if out is None:
            return n
        self.count += 1
        for x in out:
            ast.copy_location(x, n)
            ast.fix_missing_locations(x)
        return out

    def visit_Expr(self, n):
        self.generic_visit(n)
        c = n.value
        if isinstance(c, ast.Call) and isinstance(c.func, ast.Attribute) and not c.keywords:
            d = c.func.value
            if c.func.attr == 'pop' and len(c.args) == 2 and isinstance(c.args[1], ast.Constant) and c.args[1].value is None \
                    and self._simple(d) and self._simple(c.args[0]):
                self.count += 1
                k = c.args[0]
                new = ast.If(test=ast.Compare(left=copy.deepcopy(k), ops=[ast.In()], comparators=[copy.deepcopy(d)]),
                             body=[ast.Delete(targets=[ast.Subscript(value=copy.deepcopy(d), slice=copy.deepcopy(k), ctx=ast.Del())])],
                             orelse=[])
                return ast.fix_missing_locations(ast.copy_location(new, n))
            if c.func.attr == 'setdefault' and len(c.args) == 2 and self._simple(d) and self._simple(c.args[0]):
                self.count += 1
                k = c.args[0]
                new = ast.If(test=ast.Compare(left=copy.deepcopy(k), ops=[ast.NotIn()], comparators=[copy.deepcopy(d)]),
                             body=[ast.Assign(targets=[ast.Subscript(value=copy.deepcopy(d), slice=copy.deepcopy(k), ctx=ast.Store())],
                                              value=c.args[1])],
                             orelse=[])
                return ast.fix_missing_locations(ast.copy_location(new, n))
        return n

    def _truth(self, e):
        """e stands in a position where only its truth matters."""
        if isinstance(e, ast.Call) and isinstance(e.func, ast.Attribute) and e.func.attr == 'get' and not e.keywords and \
                (len(e.args) == 1 or (len(e.args) == 2 and isinstance(e.args[1], ast.Constant) and
                                      (e.args[1].value is None or e.args[1].value is False))) and \
                self._simple(e.func.value) and self._simple(e.args[0]):
            self.count += 1
            d, k = e.func.value, e.args[0]
            return ast.copy_location(ast.BoolOp(op=ast.And(), values=[
                ast.Compare(left=copy.deepcopy(k), ops=[ast.In()], comparators=[copy.deepcopy(d)]),
                ast.Subscript(value=copy.deepcopy(d), slice=copy.deepcopy(k), ctx=ast.Load())]), e)
        if isinstance(e, ast.UnaryOp) and isinstance(e.op, ast.Not):
            e.operand = self._truth(e.operand)
        elif isinstance(e, ast.BoolOp):
            e.values = [self._truth(v) for v in e.values]
        return e

    def visit_If(self, n):
        self.generic_visit(n)
        n.test = self._truth(n.test)
        return n

    def visit_While(self, n):
        self.generic_visit(n)
        n.test = self._truth(n.test)
        return n

    def visit_IfExp(self, n):
        self.generic_visit(n)
        n.test = self._truth(n.test)
        return n


class _LocalAnn(ast.NodeTransformer):
    """Inside a function body `x: T = v` is `x = v` (annotations of locals are neither evaluated nor stored) and a
    bare `x: T` is nothing.  Class bodies and the module level are left alone (dataclass fields, module annotations)."""

    def __init__(self):
        self.count = 0
        self.depth = 0

    def visit_FunctionDef(self, n):
        self.depth += 1
        self.generic_visit(n)
        self.depth -= 1
        return n

    def visit_ClassDef(self, n):
        d, self.depth = self.depth, 0
        self.generic_visit(n)
        self.depth = d
        return n

    def visit_AnnAssign(self, n):
        if self.depth == 0 or not n.simple or not isinstance(n.target, ast.Name):
            return n
        self.count += 1
        if n.value is None:
            return ast.copy_location(ast.Pass(), n)
        return ast.copy_location(ast.Assign(targets=[n.target], value=n.value), n)


def canonical_idioms(modules: dict, names=('functions', 'classes', 'parsing', 'tools')) -> int:
    done = 0
    for mn in names:
        m = modules.get(mn)
        if m is None:
            continue
        la = _LocalAnn()
        la.visit(m.tree)
        done += la.count
        t = _Idioms()
        t.visit(m.tree)
        if t.count:
            ast.fix_missing_locations(m.tree)
        done += t.count
    return done


# ---------------------------------------------------------------------------------------------------------
# functools.partial over module-level functions
# ---------------------------------------------------------------------------------------------------------

def specialise_partials(modules: dict, names=('functions', 'parsing', 'tools')) -> int:
    """`NAME = partial(F, c1, .., k=c)` at module level, F a module-level function and the bound arguments literals,
    becomes `def NAME(<remaining parameters>)` with F's body and the bound parameters replaced by the literals."""
    done = 0
    for mn in names:
        m = modules.get(mn)
        if m is None:
            continue
        defs = {s.name: s for s in m.tree.body if isinstance(s, ast.FunctionDef)}
        out = []
        for st in m.tree.body:
            c = st.value if isinstance(st, ast.Assign) and len(st.targets) == 1 and isinstance(st.targets[0], ast.Name) else None
            if not (isinstance(c, ast.Call) and _deco_name(c.func) == 'partial' and c.args and isinstance(c.args[0], ast.Name)
                    and c.args[0].id in defs and all(isinstance(a, ast.Constant) for a in c.args[1:])
                    and all(k.arg and isinstance(k.value, ast.Constant) for k in c.keywords)):
                out.append(st)
                continue
            f = defs[c.args[0].id]
            a = f.args
            if a.vararg or a.kwarg or a.posonlyargs or f.decorator_list:
                out.append(st)
                continue
            params = [x.arg for x in a.args]
            bound = dict(zip(params, c.args[1:]))
            for k in c.keywords:
                bound[k.arg] = k.value
            if any(k not in params + [x.arg for x in a.kwonlyargs] for k in bound) or \
                    any(k in stored_names(f) for k in bound):
                out.append(st)
                continue
            g = copy.deepcopy(f)
            g.name = st.targets[0].id
            npos = len(a.args)
            keep_idx = [i for i, x in enumerate(a.args) if x.arg not in bound]
            ndef = len(a.defaults)
            g.args.defaults = [d for i, d in zip(range(npos - ndef, npos), copy.deepcopy(a.defaults)) if i in keep_idx]
            g.args.args = [x for i, x in enumerate(g.args.args) if i in keep_idx]
            kw = [(x, d) for x, d in zip(g.args.kwonlyargs, g.args.kw_defaults) if x.arg not in bound]
            g.args.kwonlyargs = [x for x, _ in kw]
            g.args.kw_defaults = [d for _, d in kw]
            g.body = [Renamer(bound, {}).visit(b) for b in g.body]
            ast.copy_location(g, st)
            ast.fix_missing_locations(g)
            out.append(g)
            done += 1
        m.tree.body = out
        for name, f in defs.items():
            if done and f in m.tree.body and _refs(modules, name, skip=[x for x in ast.walk(f)]) == 0 and name.startswith('_'):
                m.tree.body.remove(f)
    return done


def run_all(modules: dict) -> dict:
    return {
        'partials_specialised': specialise_partials(modules),
        'idioms_canonicalised': canonical_idioms(modules),
        'static_classes_lifted': lift_static_classes(modules),
        'decorators_expanded': expand_decorators(modules),
        'context_managers_expanded': expand_context_managers(modules),
        'generators_converted': generators_to_lists(modules),
    }
