"""C08 - scripts can read but never alter interpreter-owned (str-keyed) cache values."""
from __future__ import annotations
import ast
from .report import Report, AnalysisError
from .summary import World, node_events
from .model import dotted, FuncRef, Unknown
from .kinds import K

LEVEL = 'proof'
REL = 'tapescript/functions.py'
MUTATORS = ('update', 'pop', 'popitem', 'clear', 'setdefault', '__setitem__', '__delitem__')
VALUE_MUTATORS = ('append', 'extend', 'insert', 'remove', 'pop', 'clear', 'sort', 'reverse',
                  'update', 'add', 'discard', 'setdefault', 'popitem', '__setitem__', '__delitem__',
                  '__iadd__')


def cache_params(w: World) -> dict[str, set[str]]:
    """function key -> names that denote the run's cache (interprocedural fixpoint seeded
    with the third parameter of every handler and of run_tape)."""
    denote: dict[str, set[str]] = {}
    for fname, fi in w.handlers.items():
        denote.setdefault(fi.key, set()).add(fi.params[2])
    rt = w.repo.func('functions', 'run_tape')
    denote.setdefault(rt.key, set()).add(rt.params[2])
    # the top-level drivers hold the cache too: any name passed as run_tape's cache argument
    for fi in w.repo.all_funcs(['functions']):
        for n in ast.walk(fi.node):
            if isinstance(n, ast.Call) and isinstance(n.func, ast.Name) and n.func.id == 'run_tape':
                a = n.args[2] if len(n.args) > 2 else None
                for kw in n.keywords:
                    if kw.arg == rt.params[2]:
                        a = kw.value
                if isinstance(a, ast.Name):
                    denote.setdefault(fi.key, set()).add(a.id)
    changed = True
    while changed:
        changed = False
        for key in list(denote):
            mod, q = key.split('.', 1)
            fi = w.repo.modules[mod].funcs[q]
            names = denote[key]
            # local aliases  x = cache
            for n in ast.walk(fi.node):
                if isinstance(n, ast.Assign) and isinstance(n.value, ast.Name) and n.value.id in names:
                    for t in n.targets:
                        if isinstance(t, ast.Name) and t.id not in names:
                            names.add(t.id)
                            changed = True
            for fr, call in w.calls(fi):
                m = w.repo.modules.get(fr.module)
                if not m or fr.name not in m.funcs:
                    continue
                callee = m.funcs[fr.name]
                for i, a in enumerate(call.args):
                    if isinstance(a, ast.Name) and a.id in names and i < len(callee.params):
                        s = denote.setdefault(callee.key, set())
                        if callee.params[i] not in s:
                            s.add(callee.params[i])
                            changed = True
                for kw in call.keywords:
                    if kw.arg and isinstance(kw.value, ast.Name) and kw.value.id in names \
                            and kw.arg in callee.params:
                        s = denote.setdefault(callee.key, set())
                        if kw.arg not in s:
                            s.add(kw.arg)
                            changed = True
    return denote


def _alias_closure(fi, name: str) -> set[str]:
    """Locals that may hold the very object `name` holds: `u = name`, `u = name if c else other`, `u = u if .. else ..`
    after such a binding (copies made by list(..) / dict(..) / displays are other objects)."""
    out = {name}
    changed = True
    while changed:
        changed = False
        for st in ast.walk(fi.node):
            if not (isinstance(st, ast.Assign) and len(st.targets) == 1 and isinstance(st.targets[0], ast.Name)):
                continue
            u = st.targets[0].id
            if u in out:
                continue
            v = st.value
            cands = [v]
            while cands:
                c = cands.pop()
                if isinstance(c, ast.IfExp):
                    cands += [c.body, c.orelse]
                elif isinstance(c, ast.BoolOp):
                    cands += list(c.values)
                elif isinstance(c, ast.Name) and c.id in out:
                    out.add(u)
                    changed = True
                    break
    return out


def key_class(w: World, k: K, module: str) -> tuple[str, str]:
    """('bytes'|'nonstr'|'str'|'unknown', description)"""
    if k.tag == 'const':
        if isinstance(k.value, bytes):
            return 'bytes', f'bytes constant {k.value!r}'
        if isinstance(k.value, str):
            return 'str', f'str constant {k.value!r}'
        return 'nonstr', f'{type(k.value).__name__} constant'
    if k.tag == 'tape_read':
        return 'bytes', 'bytes read from the tape'
    if k.tag == 'stack_item':
        return 'bytes', 'stack item (bytes by Stack.put)'
    if k.tag == 'slice':
        c, d = key_class(w, k.src, module)
        return (c if c == 'bytes' else 'unknown'), 'slice of ' + d
    if k.tag == 'global':
        ref = k.get('ref')
        if isinstance(ref, tuple) and ref[0] == 'table':
            try:
                v = w.repo.table(ref[1], ref[2])
            except AnalysisError:
                return 'unknown', f'module-level {k.name} (not evaluable)'
            if isinstance(v, str):
                return 'str', f'module-level str {k.name}={v!r}'
            if isinstance(v, bytes):
                return 'bytes', f'module-level bytes {k.name}'
            if isinstance(v, (tuple, int, frozenset)) and not isinstance(v, bool):
                return 'nonstr', f'module-level sentinel {k.name} of type {type(v).__name__}'
        return 'unknown', f'global {k.name}'
    if k.tag == 'join':
        cls = [key_class(w, a, module) for a in k.alts]
        order = ['unknown', 'str', 'nonstr', 'bytes']
        worst = min(cls, key=lambda c: order.index(c[0]))
        return worst
    if k.tag == 'fstr':
        return 'str', 'f-string'
    if k.tag == 'call' and k.name == 'str':
        return 'str', 'str(...) of script data'
    if k.tag == 'call' and k.name == 'bytes':
        return 'bytes', 'bytes(...)'
    if k.tag == 'mcall' and k.method == 'decode':
        return 'str', '.decode() of script data'
    if k.tag == 'mcall' and k.method in ('encode', 'digest', 'to_bytes'):
        return 'bytes', f'.{k.method}()'
    if k.tag == 'binop':
        l, r = key_class(w, k.left, module), key_class(w, k.right, module)
        if l[0] == r[0] == 'bytes':
            return 'bytes', 'concatenation of bytes'
        if 'str' in (l[0], r[0]):
            return 'str', 'expression involving str'
    if k.tag == 'elem':
        return 'unknown', 'loop element'
    return 'unknown', k.tag


def run(w: World, rep: Report):
    rep.rule('C08.R1', 'every mutation site of the run cache reachable from run_tape uses a key that '
             'cannot be a str (bytes constant, bytes read from tape/stack, or a private non-str sentinel)',
             floor=18)
    rep.rule('C08.R2', 'a value loaded from a str-keyed cache entry is never mutated in place', floor=3)
    rep.rule('C08.R3', 'the cache does not escape: it is passed only to handlers, run_tape and the plugin '
             'runner, returned by run_script, and never stored into another object', floor=1)
    rep.rule('C08.T', 'trusted-base check: Tape.read returns a slice of the bytes field; Stack.put admits '
             'only bytes', floor=2)
    denote = cache_params(w)
    n_mut = 0
    loads = 0
    for key in sorted(denote):
        mod, q = key.split('.', 1)
        fi = w.repo.modules[mod].funcs[q]
        names = denote[key]
        cfg = w.cfg(fi)
        kinds = w.kinds(fi)
        rep.covered('functions', key)

        def is_cache(e):
            return isinstance(e, ast.Name) and e.id in names

        per_fn_idx = {}
        extra_sites = []
        for n in cfg.nodes:
            for ev in list(node_events(n)) + [('extra',)]:
                site = None
                if ev[0] == 'extra':
                    if not extra_sites:
                        continue
                    how0, k0, n0 = extra_sites.pop()
                    if n0 is not n:
                        extra_sites.append((how0, k0, n0))
                        continue
                    site = (how0, k0)
                if site is not None:
                    pass
                elif ev[0] in ('store', 'del') and isinstance(ev[1], ast.Subscript) and is_cache(ev[1].value):
                    site = (ev[0], ev[1].slice)
                elif ev[0] == 'aug' and isinstance(ev[1].target, ast.Subscript) and is_cache(ev[1].target.value):
                    site = ('aug', ev[1].target.slice)
                elif ev[0] == 'aug' and is_cache(ev[1].target):
                    site = ('whole', None)
                elif ev[0] == 'call' and isinstance(ev[1].func, ast.Attribute) and is_cache(ev[1].func.value) \
                        and ev[1].func.attr in MUTATORS:
                    c = ev[1]
                    if c.func.attr == 'update' and len(c.args) == 1 and isinstance(c.args[0], ast.Dict) and \
                            c.args[0].keys and all(k is not None for k in c.args[0].keys) and not c.keywords:
                        # update({k1: .., k2: ..}): one store per literal key
                        for kx in c.args[0].keys[1:]:
                            extra_sites.append(('update', kx, n))
                        site = ('update', c.args[0].keys[0])
                    elif c.func.attr in ('clear', 'popitem', 'update'):
                        site = ('whole', None)
                    else:
                        site = (c.func.attr, c.args[0] if c.args else None)
                elif ev[0] == 'store' and is_cache_target_unpack(ev[1], names):
                    site = None
                if site is None:
                    continue
                n_mut += 1
                how, kexpr = site
                if kexpr is None:
                    cls, desc = 'unknown', 'whole-dictionary mutation'
                else:
                    cls, desc = key_class(w, kinds.of(kexpr, n), mod)
                ktxt = ast.unparse(kexpr) if kexpr is not None else '*'
                base = f'{key}|{how}|{_norm_key(ktxt)}'
                per_fn_idx[base] = per_fn_idx.get(base, 0) + 1
                tag = base if per_fn_idx[base] == 1 else f'{base}#{per_fn_idx[base]}'
                ok = cls in ('bytes', 'nonstr')
                rep.check('C08.R1', tag, ok, line=n.line, file=w.repo.rel(fi.module.path),
                          why='' if ok else f'cache mutated under a key that is/may be a str: {desc}',
                          facts={'key': ktxt, 'class': cls, 'desc': desc})
        # R2: loads under str keys whose value is then mutated
        for n in cfg.nodes:
            if n.ast is None or n.kind == 'except':
                continue
            root = n.ast if n.kind != 'for' else n.ast.iter
            for x in ast.walk(root):
                if isinstance(x, ast.Subscript) and isinstance(x.ctx, ast.Load) and is_cache(x.value):
                    cls, desc = key_class(w, kinds.of(x.slice, n), mod)
                    if cls == 'bytes':
                        continue
                    loads += 1
                    par = cfg.parent.get(id(x))
                    bad = ''
                    # direct receiver of a mutating method / aug-assign target handled in R1
                    if isinstance(par, ast.Attribute) and par.attr in VALUE_MUTATORS and \
                            isinstance(cfg.parent.get(id(par)), ast.Call):
                        bad = f'`{ast.unparse(cfg.parent.get(id(par)))[:50]}` mutates the loaded value'
                    if isinstance(par, ast.Subscript) and isinstance(par.ctx, (ast.Store, ast.Del)):
                        bad = 'element store into the loaded value'
                    # bound to a local that is later mutated
                    if isinstance(par, ast.Assign) and par.value is x:
                        for t in par.targets:
                            if isinstance(t, ast.Name):
                                for al in _alias_closure(fi, t.id):
                                    bad = bad or _local_mutated(fi, al)
                    if isinstance(par, ast.IfExp):
                        gp = cfg.parent.get(id(par))
                        if isinstance(gp, ast.Assign):
                            for t in gp.targets:
                                if isinstance(t, ast.Name):
                                    bad = bad or _local_mutated(fi, t.id)
                    rep.check('C08.R2', f'{key}|load|{_norm_key(ast.unparse(x.slice))}|L{_ordinal(cfg, x)}', not bad,
                              line=n.line, file=w.repo.rel(fi.module.path), why=bad)
        # R3: escape
        for n in cfg.nodes:
            for ev in node_events(n):
                if ev[0] == 'store':
                    tgt, val = ev[1], ev[2]
                    if isinstance(val, ast.Name) and val.id in names and not isinstance(tgt, ast.Name):
                        rep.check('C08.R3', f'{key}|escape|store', False, line=n.line,
                                  file=w.repo.rel(fi.module.path),
                                  why=f'the cache is stored into `{ast.unparse(tgt)}`')
                if ev[0] == 'call':
                    c = ev[1]
                    passes = [a for a in c.args if isinstance(a, ast.Name) and a.id in names] + \
                             [k.value for k in c.keywords if isinstance(k.value, ast.Name) and k.value.id in names]
                    if not passes:
                        continue
                    nm = dotted(c.func) or ast.unparse(c.func)
                    fr = w.resolve_call(fi, c) if isinstance(c.func, ast.Name) else None
                    ok = False
                    if fr is not None and f'{fr.module}.{fr.name}' in denote:
                        ok = True       # analysed callee
                    elif nm in ('len', 'type', 'isinstance', 'id'):
                        ok = True
                    elif key == 'functions.run_plugins' and isinstance(c.func, ast.Name):
                        # plugin(tape, stack, cache): dead under the premise (no plugin installed)
                        ok = True
                    elif key == 'functions.run_tape' and isinstance(c.func, ast.Name) and \
                            _is_dispatch(cfg, c):
                        ok = True
                    if not ok:
                        rep.check('C08.R3', f'{key}|escape|call:{nm}', False, line=n.line,
                                  file=w.repo.rel(fi.module.path),
                                  why=f'the cache is handed to `{nm}`, which is not analysed')
    rep.check('C08.R3', 'functions|cache-flows', True, file=REL,
              facts={'functions_holding_the_cache': len(denote)}, trivial=True)
    if n_mut < 18:
        raise AnalysisError(f'only {n_mut} cache mutation sites found (expected >= 18)')

    # trusted base
    tr = w.repo.func('classes', 'Tape.read')
    cfg = w.cfg(tr)
    rets = [n for n in cfg.nodes if n.kind == 'stmt' and isinstance(n.ast, ast.Return)]
    ok = bool(rets)
    for rn in rets:
        k = w.kinds(tr).of(rn.ast.value, rn)
        if not all(l.tag == 'slice' and l.src.tag == 'attr' and l.src.attr == 'data' for l in k.leaves()):
            ok = False
    ann = None
    cd = w.repo.module('classes').classes['Tape']
    for st in cd.body:
        if isinstance(st, ast.AnnAssign) and isinstance(st.target, ast.Name) and st.target.id == 'data':
            ann = ast.unparse(st.annotation)
    rep.check('C08.T', 'classes.Tape.read|returns-slice-of-data', ok and ann == 'bytes',
              line=tr.node.lineno, file='tapescript/classes.py',
              why='' if ok and ann == 'bytes' else 'Tape.read no longer returns a slice of the bytes field `data`')
    sp = w.repo.func('classes', 'Stack.put')
    cfg = w.cfg(sp)
    appends = cfg.nodes_with_call(lambda c: isinstance(c.func, ast.Attribute) and c.func.attr == 'append')
    tests = [t for t in cfg.nodes if t.kind == 'test' and ast.unparse(t.ast).replace(' ', '') in
             ('type(item)isbytes', 'isinstance(item,bytes)')]
    edges = [(t, s, lab) for t in tests for s, lab in t.succ if lab is True]
    ok = bool(appends) and bool(edges) and all(cfg.must_pass(cfg.entry, n, through_edges=edges) for n, _ in appends)
    rep.check('C08.T', 'classes.Stack.put|bytes-only', ok, line=sp.node.lineno, file='tapescript/classes.py',
              why='' if ok else 'Stack.put no longer rejects non-bytes items before storing them')

    from .report import depend
    depend(rep, w, 'rules_c19', ('C19.R3', 'C19.R4'), 'C08.TD19',
           'the embedder\'s own dictionaries (cache_vals and the shared default) are only read or copied: no run adds a '
           'str-keyed entry such as the default timestamp to them (C19.R3/R4 re-evaluated)', floor=20)
    # R4: the accessor of the interpreter-owned values looks them up under the decoded (str) name only.  If it also
    # tries the raw bytes key, a script that wrote b'timestamp' / b'sigfield1' answers for the protected entry.
    rep.rule('C08.R4', 'OP_GET_VALUE consults the cache only under the str it decoded from its operand: no lookup or '
             'membership test with a key that may be bytes (script-writable) on any path', floor=2)
    gv = w.handler_for('OP_GET_VALUE')
    gcfg, gk = w.cfg(gv), w.kinds(gv)
    cname = gv.params[2]
    n4 = 0
    for nd in gcfg.nodes:
        if nd.ast is None or nd.kind == 'except':
            continue
        for x in ast.walk(nd.ast):
            keyexpr = None
            if isinstance(x, ast.Subscript) and isinstance(x.value, ast.Name) and x.value.id == cname and \
                    isinstance(x.ctx, ast.Load):
                keyexpr, what = x.slice, 'lookup'
            elif isinstance(x, ast.Compare) and len(x.ops) == 1 and isinstance(x.ops[0], (ast.In, ast.NotIn)) and \
                    isinstance(x.comparators[0], ast.Name) and x.comparators[0].id == cname:
                keyexpr, what = x.left, 'membership test'
            elif isinstance(x, ast.Call) and isinstance(x.func, ast.Attribute) and x.func.attr == 'get' and \
                    isinstance(x.func.value, ast.Name) and x.func.value.id == cname and x.args:
                keyexpr, what = x.args[0], 'lookup'
            if keyexpr is None:
                continue
            n4 += 1
            try:
                kc, desc = key_class(w, gk.of(keyexpr, nd), 'functions')
            except Exception:
                kc, desc = 'unknown', 'not classifiable'
            ok = kc == 'str'
            rep.check('C08.R4', f'functions.{gv.name}|{what}@{n4}', ok, line=getattr(x, 'lineno', gv.node.lineno),
                      file='tapescript/functions.py',
                      why='' if ok else f'the {what} uses a key that is or may be {desc}: a bytes entry written by a script can '
                      f'stand in for the interpreter-owned value of the same spelling')
    if n4 < 2:
        raise AnalysisError('OP_GET_VALUE: cache lookups not found')
    rep.explanation = (
        'Non-interference of scripts with str-keyed cache entries, decided as: every statement that '
        'can mutate the run\'s cache in any function reachable from run_tape (interprocedural '
        'fixpoint over who holds the cache) uses a key whose kind cannot be str; values loaded '
        'under non-bytes keys are never mutated in place; the cache does not escape to unanalysed '
        'code. Under the premise of the property (no plugin or contract installed) this implies '
        'that str-keyed entries are unchanged at every step of every script, including failed runs.')
    rep.assumptions += ['premise of C08: no plugin and no contract installed (the loop body of run_plugins '
                        'and contract methods are not analysed)',
                        'Python dict semantics: a store under a bytes/tuple key never changes a str-keyed entry']
    rep.trusted_base = ['CPython ast module', 'tsa analyser', 'Python dict semantics',
                        'Tape.read returns bytes / Stack.put admits only bytes (checked as C08.T)']


def is_cache_target_unpack(t, names):
    return False


def _norm_key(s: str) -> str:
    return s.replace(' ', '')[:40]


def _ordinal(cfg, node) -> int:
    return getattr(node, 'col_offset', 0) * 0 + _load_index(cfg, node)


def _load_index(cfg, node) -> int:
    """Ordinal of this load among loads with the same key text inside the function
    (stable under line shifts)."""
    txt = ast.unparse(node)
    idx = 0
    for st in cfg.body:
        for x in ast.walk(st):
            if isinstance(x, ast.Subscript) and isinstance(x.ctx, ast.Load) and ast.unparse(x) == txt:
                idx += 1
                if x is node:
                    return idx
    return idx


def _local_mutated(fi, name: str) -> str:
    for n in ast.walk(fi.node):
        if isinstance(n, ast.Call) and isinstance(n.func, ast.Attribute) and n.func.attr in VALUE_MUTATORS \
                and isinstance(n.func.value, ast.Name) and n.func.value.id == name:
            return f'value loaded from the cache is mutated via `{ast.unparse(n)[:50]}`'
        if isinstance(n, ast.Subscript) and isinstance(n.ctx, (ast.Store, ast.Del)) and \
                isinstance(n.value, ast.Name) and n.value.id == name:
            return f'element of the value loaded from the cache is overwritten (`{name}[...]`)'
    return ''


def _is_dispatch(cfg, call: ast.Call) -> bool:
    """`op(tape, stack, cache)` where op was loaded from the opcode tables."""
    return isinstance(call.func, ast.Name) and len(call.args) == 3
