"""C13 - lock / witness builders: decided on the embedded templates (see rules_templates)."""
from .rules_templates import run_c13 as run      # noqa: F401

LEVEL = 'other'
