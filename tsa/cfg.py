"""E2 - statement CFG with guard edges, dominators, reaching definitions.

The repository's guard helpers (``sert / vert / tert / yert (cond, msg)``, discovered
from errors.py, not hard-coded) and ``assert cond`` become two-way branches whose
false edge goes to a raise exit labelled with the exception class.  The equivalent
``if not cond: raise X(..)`` spelling produces the same graph.  Conditions are
lowered with short-circuit semantics so every atom is its own test node.
"""
from __future__ import annotations
import ast
import copy
from .report import AnalysisError
from .model import Repo, FunctionInfo, FuncRef, ClassRef, ExtRef, dotted

BUILTIN_EXC_PARENT = {
    'BaseException': None, 'Exception': 'BaseException', 'KeyboardInterrupt': 'BaseException',
    'SystemExit': 'BaseException', 'GeneratorExit': 'BaseException',
    'ArithmeticError': 'Exception', 'ZeroDivisionError': 'ArithmeticError',
    'OverflowError': 'ArithmeticError', 'AssertionError': 'Exception',
    'AttributeError': 'Exception', 'LookupError': 'Exception', 'IndexError': 'LookupError',
    'KeyError': 'LookupError', 'MemoryError': 'Exception', 'NameError': 'Exception',
    'OSError': 'Exception', 'RuntimeError': 'Exception', 'RecursionError': 'RuntimeError',
    'NotImplementedError': 'RuntimeError', 'StopIteration': 'Exception',
    'SyntaxError': 'Exception', 'TypeError': 'Exception', 'ValueError': 'Exception',
    'UnicodeError': 'ValueError', 'UnicodeDecodeError': 'UnicodeError',
    'ImportError': 'Exception', 'BadSignatureError': 'Exception', 'struct.error': 'Exception',
}


class ExcModel:
    """Exception classes of the package and the guard helpers, read from errors.py."""

    def __init__(self, repo: Repo):
        self.repo = repo
        self.pkg_classes: dict[str, str | None] = {}     # name -> parent name
        self.guards: dict[str, str] = {}                  # helper name -> exception class
        em = repo.module('errors')
        for name, cd in em.classes.items():
            parent = None
            if cd.bases:
                parent = dotted(cd.bases[0])
            self.pkg_classes[name] = parent
        for q, fi in em.funcs.items():
            if '.' in q or not fi.params:
                continue
            cls = self._guard_shape(fi)
            if cls:
                self.guards[q] = cls
        if not self.guards:
            raise AnalysisError('no guard helpers recognised in errors.py')

    @staticmethod
    def _guard_shape(fi: FunctionInfo) -> str | None:
        body = [s for s in fi.node.body
                if not (isinstance(s, ast.Expr) and isinstance(s.value, ast.Constant))]
        p0 = fi.params[0]
        # if cond: return / raise X(msg)
        if (len(body) == 2 and isinstance(body[0], ast.If) and not body[0].orelse
                and isinstance(body[0].test, ast.Name) and body[0].test.id == p0
                and len(body[0].body) == 1 and isinstance(body[0].body[0], ast.Return)
                and body[0].body[0].value is None and isinstance(body[1], ast.Raise)):
            return _raise_class(body[1])
        # if not cond: raise X(msg)
        if (len(body) == 1 and isinstance(body[0], ast.If) and not body[0].orelse
                and isinstance(body[0].test, ast.UnaryOp) and isinstance(body[0].test.op, ast.Not)
                and isinstance(body[0].test.operand, ast.Name) and body[0].test.operand.id == p0
                and len(body[0].body) == 1 and isinstance(body[0].body[0], ast.Raise)):
            return _raise_class(body[0].body[0])
        return None

    def ancestors(self, cls: str) -> list[str]:
        out = []
        seen = set()
        cur: str | None = cls
        while cur and cur not in seen:
            seen.add(cur)
            out.append(cur)
            if cur in self.pkg_classes:
                cur = self.pkg_classes[cur]
            else:
                cur = BUILTIN_EXC_PARENT.get(cur)
        return out

    def catches(self, handler_type: ast.AST | None, cls: str | None) -> bool:
        """Does `except <handler_type>` catch exception class `cls`?  cls None = any."""
        if handler_type is None:
            return True
        names = []
        if isinstance(handler_type, ast.Tuple):
            names = [dotted(e) for e in handler_type.elts]
        else:
            names = [dotted(handler_type)]
        if 'BaseException' in names:
            return True
        if cls is None:
            return False
        anc = self.ancestors(cls)
        return any(n in anc for n in names if n)

    def catches_everything(self, handler_type: ast.AST | None) -> bool:
        return self.catches(handler_type, None)

    def guard_class(self, module: str, call: ast.Call) -> str | None:
        """If `call` is a guard-helper call in `module`, the class it raises."""
        if not isinstance(call.func, ast.Name):
            return None
        r = self.repo.resolve(module, call.func.id)
        if isinstance(r, FuncRef) and r.module == 'errors' and r.name in self.guards:
            return self.guards[r.name]
        return None


def _raise_class(st: ast.Raise) -> str | None:
    if st.exc is None:
        return None
    e = st.exc
    if isinstance(e, ast.Call):
        e = e.func
    return dotted(e)


class Node:
    __slots__ = ('id', 'kind', 'ast', 'stmt', 'succ', 'pred', 'exc', 'guard', 'in_try', 'note')

    def __init__(self, id, kind, node=None, stmt=None):
        self.id = id
        self.kind = kind          # entry exit raise stmt test for join match except
        self.ast = node
        self.stmt = stmt
        self.succ: list[tuple[Node, object]] = []
        self.pred: list[tuple[Node, object]] = []
        self.exc = None           # exception class for raise nodes
        self.guard = None         # guard statement this test belongs to
        self.in_try = False
        self.note = None

    @property
    def line(self):
        n = self.ast if self.ast is not None else self.stmt
        return getattr(n, 'lineno', None)

    def __repr__(self):
        txt = ''
        if self.ast is not None:
            try:
                txt = ast.unparse(self.ast).split('\n')[0][:60]
            except Exception:
                txt = type(self.ast).__name__
        return f'<{self.id}:{self.kind} {txt}>'


def _normalise_ifexp(body: list[ast.stmt]) -> list[ast.stmt]:
    """Rewrite `f(A if c else B)`, `x = A if c else B`, `return A if c else B`
    (IfExp as the whole value / sole positional argument) into if/else statements.
    Behaviour preserving; lets the CFG see the branch."""
    out = []
    for st in body:
        st2 = _norm_stmt(st)
        out.extend(st2)
    return out


def _norm_stmt(st: ast.stmt) -> list[ast.stmt]:
    def mk_if(test, a, b, ref):
        n = ast.If(test=test, body=[a], orelse=[b])
        ast.copy_location(n, ref)
        n._from_ifexp = True       # type: ignore[attr-defined]
        return n

    for fld in ('body', 'orelse', 'finalbody'):
        if hasattr(st, fld) and isinstance(getattr(st, fld), list) and not isinstance(
                st, (ast.FunctionDef, ast.AsyncFunctionDef, ast.ClassDef)):
            setattr(st, fld, _normalise_ifexp(getattr(st, fld)))
    if isinstance(st, ast.Try):
        for h in st.handlers:
            h.body = _normalise_ifexp(h.body)
    if isinstance(st, ast.Match):
        for c in st.cases:
            c.body = _normalise_ifexp(c.body)
    if isinstance(st, ast.Expr) and isinstance(st.value, ast.Call):
        call = st.value
        idx = [i for i, a in enumerate(call.args) if isinstance(a, ast.IfExp)]
        if len(idx) == 1 and not any(isinstance(k.value, ast.IfExp) for k in call.keywords):
            i = idx[0]
            ife = call.args[i]
            others_pure = all(isinstance(a, (ast.Name, ast.Constant, ast.Attribute))
                              for j, a in enumerate(call.args) if j != i)
            recv_pure = isinstance(call.func, (ast.Name, ast.Attribute))
            if others_pure and recv_pure:
                def variant(val):
                    c2 = copy.copy(call)
                    c2.args = list(call.args)
                    c2.args[i] = val
                    e = ast.Expr(value=c2)
                    ast.copy_location(e, st)
                    ast.copy_location(c2, call)
                    return e
                res = mk_if(ife.test, variant(ife.body), variant(ife.orelse), st)
                return _norm_stmt(res)
    if isinstance(st, ast.Assign) and isinstance(st.value, ast.IfExp) and len(st.targets) == 1 \
            and isinstance(st.targets[0], ast.Name):
        ife = st.value
        a = ast.Assign(targets=st.targets, value=ife.body, lineno=st.lineno)
        b = ast.Assign(targets=st.targets, value=ife.orelse, lineno=st.lineno)
        ast.copy_location(a, st)
        ast.copy_location(b, st)
        return _norm_stmt(mk_if(ife.test, a, b, st))
    if isinstance(st, ast.Return) and isinstance(st.value, ast.IfExp):
        ife = st.value
        a = ast.Return(value=ife.body)
        b = ast.Return(value=ife.orelse)
        ast.copy_location(a, st)
        ast.copy_location(b, st)
        return _norm_stmt(mk_if(ife.test, a, b, st))
    return [st]


class CFG:
    def __init__(self, repo: Repo, fi: FunctionInfo, exc: ExcModel | None = None):
        self.repo = repo
        self.fi = fi
        self.module = fi.module.name
        self.exc = exc or ExcModel(repo)
        self.nodes: list[Node] = []
        self.entry = self._new('entry')
        self.exit = self._new('exit')
        self.raises: list[Node] = []
        self._loops: list[tuple[Node, list]] = []        # (continue target, break exits)
        self._tries: list[list[tuple[Node, ast.ExceptHandler]]] = []
        body = copy.deepcopy(fi.node.body)
        body = _normalise_ifexp(body)
        self.body = body
        self.parent: dict[int, ast.AST] = {}
        for st in body:
            for n in ast.walk(st):
                for c in ast.iter_child_nodes(n):
                    self.parent[id(c)] = n
        outs = self._seq(body, [(self.entry, None)])
        for n, lab in outs:
            self._edge(n, self.exit, lab)
        self._rd = None
        self._dom = None
        # a test one of whose edges raises immediately is a guard, whichever way it is spelled
        # (`sert(c, msg)`, `assert c`, `if not c: raise X(msg)`)
        for t in self.nodes:
            if t.kind == 'test' and t.guard is None:
                for s2, lab in t.succ:
                    if lab in (True, False) and self.raise_class_of(s2) is not None:
                        t.guard = t.stmt if t.stmt is not None else t.ast

    # -- construction --------------------------------------------------------
    def _new(self, kind, node=None, stmt=None) -> Node:
        n = Node(len(self.nodes), kind, node, stmt)
        n.in_try = bool(self._tries) if hasattr(self, '_tries') else False
        self.nodes.append(n)
        return n

    def _edge(self, a: Node, b: Node, label=None):
        a.succ.append((b, label))
        b.pred.append((a, label))

    def _connect(self, preds, node):
        for p, lab in preds:
            self._edge(p, node, lab)

    def _raise_to(self, preds, cls, stmt):
        """Route exceptional flow of class `cls` from `preds`."""
        targets = self._exc_targets(cls)
        for t in targets:
            if t is None:
                r = self._new('raise', None, stmt)
                r.exc = cls
                self.raises.append(r)
                self._connect(preds, r)
            else:
                for p, lab in preds:
                    self._edge(p, t, lab if lab is not None else 'exc')

    def _exc_targets(self, cls):
        """Handler entry nodes that may receive `cls` (None entry = function raise exit)."""
        out = []
        for handlers in reversed(self._tries):
            caught_for_sure = False
            for hnode, h in handlers:
                if self.exc.catches(h.type, cls):
                    out.append(hnode)
                    caught_for_sure = True
                    break
                if cls is None:
                    out.append(hnode)       # unknown class: may be caught here
            if caught_for_sure:
                return out
        out.append(None)
        return out

    def _may_raise(self, node: ast.AST) -> bool:
        for n in ast.walk(node):
            if isinstance(n, (ast.Call, ast.Subscript, ast.BinOp, ast.Attribute, ast.Raise,
                              ast.Assert, ast.Delete, ast.Starred, ast.For, ast.comprehension)):
                return True
        return False

    def _exc_edges(self, node: Node):
        """Inside a try body, any statement may transfer to the handlers."""
        if not self._tries:
            return
        if node.ast is not None and not self._may_raise(node.ast):
            return
        for t in self._exc_targets(None):
            if t is not None:
                self._edge(node, t, 'exc')

    def _seq(self, stmts, preds):
        for st in stmts:
            preds = self._stmt(st, preds)
        return preds

    def _cond(self, e: ast.expr, preds, stmt, guard=None):
        """Lower a condition; returns (true_exits, false_exits)."""
        if isinstance(e, ast.BoolOp):
            if isinstance(e.op, ast.And):
                falses = []
                cur = preds
                for v in e.values:
                    t, f = self._cond(v, cur, stmt, guard)
                    falses += f
                    cur = t
                return cur, falses
            else:
                trues = []
                cur = preds
                for v in e.values:
                    t, f = self._cond(v, cur, stmt, guard)
                    trues += t
                    cur = f
                return trues, cur
        if isinstance(e, ast.UnaryOp) and isinstance(e.op, ast.Not):
            t, f = self._cond(e.operand, preds, stmt, guard)
            return f, t
        if isinstance(e, ast.Constant):
            n = self._new('test', e, stmt)
            n.guard = guard
            self._connect(preds, n)
            if e.value:
                return [(n, True)], []
            return [], [(n, False)]
        n = self._new('test', e, stmt)
        n.guard = guard
        self._connect(preds, n)
        self._exc_edges(n)
        return [(n, True)], [(n, False)]

    def _stmt(self, st: ast.stmt, preds):
        if not preds:
            # unreachable code: still build it (rooted nowhere) so inventories see it
            pass
        if isinstance(st, ast.Expr) and isinstance(st.value, ast.Call):
            cls = self.exc.guard_class(self.module, st.value)
            if cls and st.value.args:
                # evaluate argument side effects as part of the test atoms
                t, f = self._cond(st.value.args[0], preds, st, guard=st)
                self._raise_to(f, cls, st)
                return t
        if isinstance(st, ast.Assert):
            t, f = self._cond(st.test, preds, st, guard=st)
            self._raise_to(f, 'AssertionError', st)
            return t
        if isinstance(st, ast.If):
            t, f = self._cond(st.test, preds, st)
            out = self._seq(st.body, t)
            out += self._seq(st.orelse, f) if st.orelse else f
            return out
        if isinstance(st, ast.While):
            head = self._new('join', None, st)
            self._connect(preds, head)
            t, f = self._cond(st.test, [(head, None)], st)
            brk: list = []
            self._loops.append((head, brk))
            out = self._seq(st.body, t)
            self._loops.pop()
            for n, lab in out:
                self._edge(n, head, lab if lab is not None else 'back')
            done = self._seq(st.orelse, f) if st.orelse else f
            return done + brk
        if isinstance(st, ast.For):
            head = self._new('for', st, st)
            self._connect(preds, head)
            self._exc_edges(head)
            brk = []
            self._loops.append((head, brk))
            out = self._seq(st.body, [(head, 'iter')])
            self._loops.pop()
            for n, lab in out:
                self._edge(n, head, lab if lab is not None else 'back')
            done = [(head, 'done')]
            if st.orelse:
                done = self._seq(st.orelse, done)
            return done + brk
        if isinstance(st, ast.Break):
            if not self._loops:
                raise AnalysisError('break outside loop')
            self._loops[-1][1].extend(preds)
            return []
        if isinstance(st, ast.Continue):
            if not self._loops:
                raise AnalysisError('continue outside loop')
            for n, lab in preds:
                self._edge(n, self._loops[-1][0], lab if lab is not None else 'back')
            return []
        if isinstance(st, ast.Return):
            n = self._new('stmt', st, st)
            self._connect(preds, n)
            self._exc_edges(n)
            self._edge(n, self.exit, 'return')
            return []
        if isinstance(st, ast.Raise):
            n = self._new('stmt', st, st)
            self._connect(preds, n)
            self._raise_to([(n, None)], _raise_class(st), st)
            return []
        if isinstance(st, ast.Try):
            if st.finalbody:
                raise AnalysisError(f'{self.fi.key}: try/finally is not modelled')
            hnodes = []
            for h in st.handlers:
                hn = self._new('except', h, st)
                hnodes.append((hn, h))
            self._tries.append(hnodes)
            for hn, _ in hnodes:
                hn.in_try = len(self._tries) > 1
            out = self._seq(st.body, preds)
            self._tries.pop()
            if st.orelse:
                out = self._seq(st.orelse, out)
            for hn, h in hnodes:
                out += self._seq(h.body, [(hn, None)])
            return out
        if isinstance(st, ast.With):
            n = self._new('stmt', st, st)
            n.note = 'with-enter'
            self._connect(preds, n)
            self._exc_edges(n)
            return self._seq(st.body, [(n, None)])
        if isinstance(st, ast.Match):
            n = self._new('match', st.subject, st)
            self._connect(preds, n)
            self._exc_edges(n)
            out = []
            has_wild = False
            for i, c in enumerate(st.cases):
                cpreds = [(n, ('case', i))]
                if c.guard is not None:
                    t, f = self._cond(c.guard, cpreds, st)
                    cpreds = t
                out += self._seq(c.body, cpreds)
                if isinstance(c.pattern, ast.MatchAs) and c.pattern.pattern is None \
                        and c.guard is None:
                    has_wild = True
            if not has_wild:
                out.append((n, ('case', None)))
            return out
        # simple statement
        n = self._new('stmt', st, st)
        self._connect(preds, n)
        self._exc_edges(n)
        return [(n, None)]

    # -- queries ---------------------------------------------------------------
    def ancestors(self, node: ast.AST) -> list[ast.AST]:
        """Lexical ancestors (innermost first) of an ast node of this function body."""
        out = []
        cur = self.parent.get(id(node))
        while cur is not None:
            out.append(cur)
            cur = self.parent.get(id(cur))
        return out

    def loops_around(self, n: 'Node') -> list[ast.AST]:
        """For/While statements lexically enclosing node n (outermost first)."""
        a = n.ast if n.ast is not None else n.stmt
        if a is None:
            return []
        anc = self.ancestors(a)
        return [x for x in reversed(anc) if isinstance(x, (ast.For, ast.While))]

    def raise_class_of(self, n: 'Node'):
        """Exception class if control at node n raises immediately: a raise exit, or a
        `raise X(..)` statement.  None otherwise."""
        if n.kind == 'raise':
            return n.exc or '?'
        if n.kind == 'stmt' and isinstance(n.ast, ast.Raise):
            for s, _ in n.succ:
                if s.kind == 'raise':
                    return s.exc or '?'
            return _raise_class(n.ast) or '?'
        return None

    def stmt_nodes(self):
        return [n for n in self.nodes if n.kind in ('stmt', 'test', 'for', 'match', 'except')]

    def find(self, pred) -> list[Node]:
        return [n for n in self.nodes if n.ast is not None and pred(n)]

    def nodes_with_call(self, match) -> list[tuple[Node, ast.Call]]:
        """All (node, call) where `match(call)` is true, in source order."""
        out = []
        for n in self.nodes:
            if n.ast is None or n.kind in ('except',):
                continue
            root = n.ast
            if n.kind == 'for':
                root = n.ast.iter
            if n.kind == 'stmt' and isinstance(n.ast, ast.With):
                root = ast.Module(body=[], type_ignores=[])
                root.body = [ast.Expr(value=i.context_expr) for i in n.ast.items]
            for c in ast.walk(root):
                if isinstance(c, ast.Call) and match(c):
                    out.append((n, c))
        out.sort(key=lambda x: (getattr(x[1], 'lineno', 0), getattr(x[1], 'col_offset', 0)))
        return out

    def reachable_from(self, start: list[Node], blocked_nodes=(), blocked_edges=()) -> set[int]:
        bn = {n.id for n in blocked_nodes}
        be = {(a.id, b.id, lab) for a, b, lab in blocked_edges}
        seen = set()
        todo = [n for n in start if n.id not in bn]
        while todo:
            n = todo.pop()
            if n.id in seen:
                continue
            seen.add(n.id)
            for s, lab in n.succ:
                if s.id in bn or (n.id, s.id, lab) in be:
                    continue
                if s.id not in seen:
                    todo.append(s)
        return seen

    def must_pass(self, src: Node, dst: Node, through_nodes=(), through_edges=()) -> bool:
        """Every path src -> dst passes through one of the nodes/edges given
        (vacuously true if dst is unreachable from src)."""
        r = self.reachable_from([src], blocked_nodes=through_nodes, blocked_edges=through_edges)
        return dst.id not in r

    def reaches(self, src: Node, dst: Node) -> bool:
        return dst.id in self.reachable_from([src])

    def dominators(self) -> dict[int, set[int]]:
        if self._dom is not None:
            return self._dom
        reach = self.reachable_from([self.entry])
        ids = sorted(reach)
        dom = {i: set(ids) for i in ids}
        dom[self.entry.id] = {self.entry.id}
        changed = True
        while changed:
            changed = False
            for i in ids:
                if i == self.entry.id:
                    continue
                n = self.nodes[i]
                ps = [p.id for p, _ in n.pred if p.id in reach]
                new = set(ids)
                for p in ps:
                    new &= dom[p]
                new |= {i}
                if new != dom[i]:
                    dom[i] = new
                    changed = True
        self._dom = dom
        return dom

    def dominates(self, a: Node, b: Node) -> bool:
        d = self.dominators()
        return b.id in d and a.id in d[b.id]

    def paths(self, src: Node, is_target, cap: int = 4096, edge_visits: int = 1):
        """Enumerate paths (lists of (node, label-taken)) from src to nodes satisfying
        is_target; each edge used at most `edge_visits` times per path."""
        out = []
        overflow = [False]

        def rec(n, path, used):
            if len(out) >= cap:
                overflow[0] = True
                return
            if is_target(n):
                out.append(path + [(n, None)])
                return
            for s, lab in n.succ:
                k = (n.id, s.id, lab)
                c = used.get(k, 0)
                if c >= edge_visits:
                    continue
                used[k] = c + 1
                rec(s, path + [(n, lab)], used)
                used[k] = c
        rec(src, [], {})
        if overflow[0]:
            raise AnalysisError(f'{self.fi.key}: path enumeration cap {cap} exceeded')
        return out

    def dominating_conditions(self, node: 'Node'):
        """[(test node, polarity)]: atoms that hold on every path from the entry to `node` (the path must
        take that edge of the test).  `not`, and/or and if/else orientation are already lowered away."""
        out = []
        for t in self.nodes:
            if t.kind != 'test':
                continue
            for lab in (True, False):
                edges = [(t, s2, l2) for s2, l2 in t.succ if l2 is lab]
                if edges and self.must_pass(self.entry, node, through_edges=edges):
                    out.append((t, lab))
        return out

    # -- reaching definitions ------------------------------------------------
    def node_defs(self, n: Node) -> list[tuple[str, str, object]]:
        """(name, how, payload) defined by node n."""
        out = []
        if n.kind == 'entry':
            for p in self.fi.params:
                out.append((p, 'param', None))
            # free variables from an enclosing function are treated as params of unknown kind
            return out
        a = n.ast
        if n.kind == 'for':
            for name in _target_names(a.target):
                out.append((name, 'iter', a))
            return out
        if n.kind == 'except':
            if a.name:
                out.append((a.name, 'exc', a))
            return out
        if n.kind != 'stmt':
            for w in ast.walk(a) if a is not None else []:
                if isinstance(w, ast.NamedExpr) and isinstance(w.target, ast.Name):
                    out.append((w.target.id, 'assign', w.value))
            return out
        if isinstance(a, ast.Assign):
            for t in a.targets:
                out += _assign_defs(t, a.value)
        elif isinstance(a, ast.AnnAssign) and a.value is not None:
            out += _assign_defs(a.target, a.value)
        elif isinstance(a, ast.AugAssign):
            if isinstance(a.target, ast.Name):
                out.append((a.target.id, 'aug', a))
        elif isinstance(a, (ast.FunctionDef, ast.AsyncFunctionDef, ast.ClassDef)):
            out.append((a.name, 'def', a))
        elif isinstance(a, (ast.Import, ast.ImportFrom)):
            for al in a.names:
                out.append(((al.asname or al.name).split('.')[0], 'import', a))
        elif isinstance(a, ast.With):
            for it in a.items:
                if it.optional_vars is not None:
                    for name in _target_names(it.optional_vars):
                        out.append((name, 'with', it.context_expr))
        for w in ast.walk(a):
            if isinstance(w, ast.NamedExpr) and isinstance(w.target, ast.Name):
                out.append((w.target.id, 'assign', w.value))
        return out

    def reaching(self) -> dict[int, dict[str, set[int]]]:
        """IN sets: node id -> {var: {defining node ids}}."""
        if self._rd is not None:
            return self._rd
        gen = {}
        for n in self.nodes:
            gen[n.id] = {name for name, _, _ in self.node_defs(n)}
        IN = {n.id: {} for n in self.nodes}
        OUT = {n.id: {} for n in self.nodes}
        work = [self.entry]
        inq = {self.entry.id}
        while work:
            n = work.pop()
            inq.discard(n.id)
            i = {}
            for p, _ in n.pred:
                for v, ds in OUT[p.id].items():
                    i.setdefault(v, set()).update(ds)
            IN[n.id] = i
            o = {v: set(ds) for v, ds in i.items()}
            for v in gen[n.id]:
                o[v] = {n.id}
            if o != OUT[n.id]:
                OUT[n.id] = o
                for s, _ in n.succ:
                    if s.id not in inq:
                        inq.add(s.id)
                        work.append(s)
        self._rd = IN
        return IN

    def defs_reaching(self, var: str, at: Node) -> list[tuple[Node, str, object]]:
        """Definitions of `var` reaching node `at` (before it executes)."""
        IN = self.reaching()
        out = []
        for did in sorted(IN.get(at.id, {}).get(var, ())):
            dn = self.nodes[did]
            for name, how, payload in self.node_defs(dn):
                if name == var:
                    out.append((dn, how, payload))
        return out

    def node_of(self, target: ast.AST) -> Node | None:
        """The CFG node whose ast contains `target` (identity)."""
        for n in self.nodes:
            if n.ast is None:
                continue
            root = n.ast
            if n.kind == 'for':
                if target is root:
                    return n
                for w in ast.walk(root.iter):
                    if w is target:
                        return n
                for w in ast.walk(root.target):
                    if w is target:
                        return n
                continue
            if n.kind == 'except':
                if target is root:
                    return n
                continue
            if n.kind == 'stmt' and isinstance(root, (ast.With,)):
                for it in root.items:
                    for w in ast.walk(it):
                        if w is target:
                            return n
                continue
            if n.kind == 'stmt' and isinstance(root, (ast.FunctionDef, ast.AsyncFunctionDef,
                                                      ast.ClassDef)):
                if target is root:
                    return n
                continue
            for w in ast.walk(root):
                if w is target:
                    return n
        return None


def _target_names(t) -> list[str]:
    return [n.id for n in ast.walk(t) if isinstance(n, ast.Name)]


def _assign_defs(t, value):
    out = []
    if isinstance(t, ast.Name):
        out.append((t.id, 'assign', value))
    elif isinstance(t, (ast.Tuple, ast.List)):
        if isinstance(value, (ast.Tuple, ast.List)) and len(value.elts) == len(t.elts) \
                and not any(isinstance(e, ast.Starred) for e in list(value.elts) + list(t.elts)):
            for a, b in zip(t.elts, value.elts):
                out += _assign_defs(a, b)
        else:
            for i, e in enumerate(t.elts):
                for name in _target_names(e):
                    out.append((name, 'unpack', (value, i, len(t.elts))))
    return out


_cfg_cache: dict[tuple[int, str], CFG] = {}


def cfg_of(repo: Repo, fi: FunctionInfo) -> CFG:
    k = (id(repo), fi.key)
    if k not in _cfg_cache:
        if not hasattr(repo, '_excmodel'):
            repo._excmodel = ExcModel(repo)       # type: ignore[attr-defined]
        _cfg_cache[k] = CFG(repo, fi, repo._excmodel)   # type: ignore[attr-defined]
    return _cfg_cache[k]
