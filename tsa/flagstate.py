"""Return-flag typestate (shared by C01.R1 and C06.R1).

The control flag is discovered from the code: it is the cache key stored by the
handler registered as OP_RETURN.  Abstract state of the key: CLEAR / SET / MAYBE,
plus whether the function's *own* tape has been terminated by the statement that
set the flag.  The engine walks CFG paths of a function and applies:

  call reaching run_tape      -> MAYBE   (entry state must be CLEAR: reported)
  del cache[K], cache.pop(K)  -> CLEAR
  cache[K] = v                -> SET
  `K in cache` / `K not in`   -> refines both arms, contradictory arms are dropped
  X.pointer = len(X.data)     -> X terminated
  call of another handler     -> that handler's own summary (recursive, memoised)
"""
from __future__ import annotations
import ast
from .report import AnalysisError
from .model import FuncRef, dotted
from .summary import World, node_events
from .cfg import Node

CLEAR, SET, MAYBE = 'CLEAR', 'SET', 'MAYBE'


class Outcome:
    __slots__ = ('state', 'term', 'trace', 'problems', 'exit_kind', 'consumed', 'flag_guard')

    def __init__(self, state, term, trace, problems, exit_kind):
        self.state = state
        self.term = term
        self.trace = trace
        self.problems = problems
        self.exit_kind = exit_kind
        self.consumed = any(t.endswith(': del') or t.endswith(': pop') for t in trace)
        self.flag_guard = any('eval_return' in t and t.endswith('True') for t in trace)

    def sig(self):
        return (self.state, self.term, self.exit_kind, self.consumed, self.flag_guard,
                tuple(p[0] + '@' + str(p[1]) for p in self.problems))


class FlagEngine:
    def __init__(self, world: World):
        self.w = world
        self.repo = world.repo
        self.ret_handler = world.handler_for('OP_RETURN')
        self.key_expr = self._discover_key()
        self.key_id = self._key_id(self.key_expr, 'functions')
        self._memo: dict = {}
        self._active: set = set()
        rt = self.repo.func('functions', 'run_tape')
        self.run_tape = rt

    # -- key discovery ------------------------------------------------------
    def _discover_key(self) -> ast.AST:
        fi = self.ret_handler
        cache = fi.params[2]
        keys = []
        for n in ast.walk(fi.node):
            if isinstance(n, ast.Assign):
                for t in n.targets:
                    if isinstance(t, ast.Subscript) and isinstance(t.value, ast.Name) \
                            and t.value.id == cache:
                        keys.append(t.slice)
        if len(keys) != 1:
            raise AnalysisError(f'OP_RETURN handler stores {len(keys)} cache keys; expected '
                                f'exactly one control flag')
        return keys[0]

    def _key_id(self, e: ast.AST, module: str) -> str | None:
        if isinstance(e, ast.Constant):
            return 'const:' + repr(e.value)
        if isinstance(e, ast.Name):
            r = self.repo.resolve(module, e.id)
            # a module-level sentinel: identify by the defining module + name
            for mn in (module, 'functions'):
                m = self.repo.modules.get(mn)
                if m is None:
                    continue
                if e.id in m.imports:
                    src, orig = m.imports[e.id]
                    if not src.startswith('ext:'):
                        return f'name:{src}.{orig}'
                for st in m.tree.body:
                    if isinstance(st, (ast.Assign, ast.AnnAssign)):
                        tg = st.targets if isinstance(st, ast.Assign) else [st.target]
                        if any(isinstance(t, ast.Name) and t.id == e.id for t in tg):
                            v = st.value
                            if isinstance(v, ast.Constant):
                                return 'const:' + repr(v.value)
                            return f'name:{mn}.{e.id}'
            return None
        return None

    def key_type(self) -> str:
        """'str' / 'bytes' / 'other' - the Python type of the control-flag key."""
        kid = self.key_id or ''
        if kid.startswith('const:'):
            v = ast.literal_eval(kid[6:])
            return type(v).__name__
        return 'other'

    def is_key(self, e: ast.AST, module: str) -> bool:
        return self._key_id(e, module) == self.key_id and self.key_id is not None

    # -- classification of calls --------------------------------------------
    def _reaches_run_tape(self, fi) -> bool:
        return fi.name == 'run_tape' or self.w.reaches(fi, 'run_tape')

    def touches_flag(self, fi) -> bool:
        mod = fi.module.name
        for n in ast.walk(fi.node):
            if isinstance(n, ast.Subscript) and self.is_key(n.slice, mod):
                return True
            if isinstance(n, ast.Compare) and self.is_key(n.left, mod):
                return True
            if isinstance(n, ast.Call) and isinstance(n.func, ast.Attribute) \
                    and n.func.attr in ('pop', 'setdefault') and n.args \
                    and self.is_key(n.args[0], mod):
                return True
        return False

    def relevant(self, fi, _seen=None) -> bool:
        """Does the function (transitively) run tapes or touch the flag?"""
        _seen = _seen if _seen is not None else set()
        if fi.key in _seen:
            return False
        _seen.add(fi.key)
        if fi.name == 'run_tape' or self.touches_flag(fi):
            return True
        for fr, _ in self.w.calls(fi):
            m = self.repo.modules.get(fr.module)
            if m and fr.name in m.funcs and self.relevant(m.funcs[fr.name], _seen):
                return True
        return False

    # -- run_tape prologue ---------------------------------------------------
    def dispatch_loop(self):
        """The fetch/dispatch `while` of run_tape (contains a call of a value loaded
        from the opcode table)."""
        cfg = self.w.cfg(self.run_tape)
        for st in cfg.body:
            if isinstance(st, ast.While):
                for n in ast.walk(st):
                    if isinstance(n, ast.Name) and isinstance(n.ctx, ast.Load) and n.id in ('opcodes', 'nopcodes'):
                        return st
        raise AnalysisError('run_tape: fetch/dispatch loop not recognised')

    def prologue_effect(self, state_in: str) -> set[str]:
        """States possible at the fetch-loop head of run_tape given `state_in` at the call."""
        cfg = self.w.cfg(self.run_tape)
        loop = self.dispatch_loop()
        heads = [n for n in cfg.nodes if n.kind == 'join' and n.stmt is loop]
        if len(heads) != 1:
            raise AnalysisError('run_tape: loop head not found')
        head = heads[0]
        outs = self._walk(self.run_tape, state_in, stop_at=head, inline_run_tape=False)
        return {o.state for o in outs if o.exit_kind == 'stop'}

    # -- the walker ----------------------------------------------------------
    def summary(self, fi, state_in: str = CLEAR) -> list[Outcome]:
        key = (fi.key, state_in)
        if key in self._memo:
            return self._memo[key]
        if key in self._active:
            raise AnalysisError(f'recursive handler chain through {fi.key} without run_tape')
        self._active.add(key)
        try:
            outs = self._walk(fi, state_in)
        finally:
            self._active.discard(key)
        uniq = {}
        for o in outs:
            uniq.setdefault(o.sig(), o)
        self._memo[key] = list(uniq.values())
        return self._memo[key]

    def _walk(self, fi, state_in, stop_at: Node | None = None, inline_run_tape=True):
        cfg = self.w.cfg(fi)
        mod = fi.module.name
        own_tape = fi.params[0] if fi.params else None
        results: list[Outcome] = []
        seen_sig = set()
        budget = [20000]

        def apply_node(n: Node, st, term, trace, problems):
            """Apply the events of node n; returns list of (state, term, trace, problems)."""
            cur = [(st, term, trace, problems)]
            if n.ast is None:
                return cur
            for ev in node_events(n):
                nxt = []
                for (s, t, tr, pr) in cur:
                    nxt += self._apply_event(fi, n, ev, s, t, tr, pr, own_tape, inline_run_tape)
                cur = nxt
            return cur

        def rec(n: Node, st, term, trace, problems, used):
            budget[0] -= 1
            if budget[0] < 0:
                raise AnalysisError(f'{fi.key}: flag-state path budget exceeded')
            if stop_at is not None and n is stop_at:
                results.append(Outcome(st, term, trace, problems, 'stop'))
                return
            if n is cfg.exit:
                results.append(Outcome(st, term, trace, problems, 'exit'))
                return
            if n.kind == 'raise':
                results.append(Outcome(st, term, trace, problems, 'raise'))
                return
            # R1b: a node that may raise while the flag is unresolved / propagating
            if n.ast is not None and n.kind in ('stmt', 'for', 'match') and st in (SET, MAYBE):
                if self._may_raise_pending(fi, n, st, term):
                    problems = problems + [('R1b', n.line, f'statement `{_txt(n)}` may raise '
                                            f'while the return flag is {st}')]
            for (s2, t2, tr2, pr2) in apply_node(n, st, term, trace, problems):
                for succ, lab in n.succ:
                    s3 = s2
                    tr3 = tr2
                    if n.kind == 'test':
                        ref = self._refine(n.ast, mod, lab, s2)
                        if ref is None:
                            continue            # infeasible arm
                        s3 = ref
                        if s2 != CLEAR or ref != s2:
                            tr3 = tr2 + [f'L{n.line}: test `{_txt(n)}` {lab}']
                    if lab == 'exc' or succ.kind == 'except':
                        # by the invariant under proof an exception never propagates
                        # while the flag is SET (R1b); the handler starts CLEAR when the
                        # protected region was entered CLEAR
                        s3 = CLEAR if st == CLEAR else s2
                    k = (n.id, succ.id, lab)
                    c = used.get(k, 0)
                    if c >= 2:          # twice: a loop body is entered, left through its back edge and re-tested
                        continue
                    sig = (succ.id, s3, t2, len(pr2))
                    used[k] = c + 1
                    rec(succ, s3, t2, tr3, pr2, used)
                    used[k] = c

        rec(cfg.entry, state_in, False, [], [], {})
        return results

    def _refine(self, test: ast.AST, mod: str, lab, st):
        """Refine the flag state along a test edge; None = infeasible."""
        if isinstance(test, ast.Compare) and len(test.ops) == 1 \
                and isinstance(test.ops[0], (ast.In, ast.NotIn)) and self.is_key(test.left, mod):
            present = (lab is True) if isinstance(test.ops[0], ast.In) else (lab is False)
            if present:
                return None if st == CLEAR else SET
            return None if st == SET else CLEAR
        if isinstance(test, ast.Call) and isinstance(test.func, ast.Attribute) \
                and test.func.attr == 'get' and test.args and self.is_key(test.args[0], mod):
            if lab is True:
                return None if st == CLEAR else SET
            return st
        return st

    def _may_raise_pending(self, fi, n: Node, st, term) -> bool:
        for ev in node_events(n):
            if ev[0] == 'call':
                c = ev[1]
                hc = self._handler_or_pkg(fi, c)
                if hc is not None and hc is self.ret_handler:
                    continue
                name = dotted(c.func) or ''
                if name in ('len',):
                    continue
                if isinstance(c.func, ast.Attribute) and c.func.attr in ('pop', 'get') \
                        and c.args and self.is_key(c.args[0], fi.module.name):
                    continue
                if isinstance(c.func, ast.Attribute) and c.func.attr in ('reset_pointer',):
                    continue
                return True
            if ev[0] == 'aug':
                if isinstance(ev[1].target, ast.Name):
                    continue
                return True
        if isinstance(n.ast, ast.Raise):
            return True
        return False

    def _handler_or_pkg(self, fi, call: ast.Call):
        fr = self.w.resolve_call(fi, call)
        if fr is None:
            return None
        m = self.repo.modules.get(fr.module)
        if m is None or fr.name not in m.funcs:
            return None
        return m.funcs[fr.name]

    def _apply_event(self, fi, n, ev, st, term, trace, problems, own_tape, inline_run_tape):
        mod = fi.module.name
        kind = ev[0]
        if kind == 'store':
            t, v = ev[1], ev[2]
            if isinstance(t, ast.Subscript) and self.is_key(t.slice, mod):
                return [(SET, term, trace + [f'L{n.line}: set'], problems)]
            if isinstance(t, ast.Attribute) and t.attr == 'pointer' and own_tape \
                    and isinstance(t.value, ast.Name) and t.value.id == own_tape:
                if _is_len_of_data(v, own_tape):
                    return [(st, True, trace + [f'L{n.line}: own tape terminated'], problems)]
                return [(st, False, trace, problems)]
            if isinstance(t, ast.Name) and isinstance(v, ast.Dict):
                # a fresh cache: `cache = {...}`
                has = any(k is not None and self.is_key(k, mod) for k in v.keys)
                spread = any(k is None for k in v.keys)
                if t.id == 'cache' or _looks_like_cache(fi, t.id):
                    if has:
                        return [(SET, term, trace + [f'L{n.line}: fresh cache holds key'], problems)]
                    return [(CLEAR, term, trace + [f'L{n.line}: fresh cache'
                                                   + (' (+embedder values)' if spread else '')],
                             problems)]
            return [(st, term, trace, problems)]
        if kind == 'del':
            t = ev[1]
            if isinstance(t, ast.Subscript) and self.is_key(t.slice, mod):
                return [(CLEAR, term, trace + [f'L{n.line}: del'], problems)]
            return [(st, term, trace, problems)]
        if kind == 'call':
            c = ev[1]
            if isinstance(c.func, ast.Attribute) and c.func.attr == 'pop' and c.args \
                    and self.is_key(c.args[0], mod):
                return [(CLEAR, term, trace + [f'L{n.line}: pop'], problems)]
            if isinstance(c.func, ast.Attribute) and c.func.attr == 'clear' and not c.args \
                    and isinstance(c.func.value, ast.Name) and _looks_like_cache(fi, c.func.value.id):
                return [(CLEAR, term, trace + [f'L{n.line}: cache.clear()'], problems)]
            callee = self._handler_or_pkg(fi, c)
            if callee is None:
                return [(st, term, trace, problems)]
            if callee.name == 'run_tape' and callee.module.name == 'functions':
                if not inline_run_tape:
                    return [(st, term, trace, problems)]
                heads = self.prologue_effect(st)
                pr = problems
                bad = [h for h in heads if h != CLEAR]
                if bad:
                    pr = problems + [('R1', n.line,
                                      f'run_tape entered with the return flag {"/".join(sorted(heads))}'
                                      f' at its fetch loop (call `{_txt(n)}`)')]
                return [(MAYBE, term, trace + [f'L{n.line}: run_tape -> MAYBE'], pr)]
            if not self.relevant(callee):
                return [(st, term, trace, problems)]
            outs = self.summary(callee, st)
            res = []
            same_tape = False
            if self.w.is_handler(callee) and c.args and isinstance(c.args[0], ast.Name) \
                    and own_tape and c.args[0].id == own_tape:
                same_tape = True
            for o in outs:
                if o.exit_kind == 'raise':
                    continue
                t2 = term or (same_tape and o.term)
                if o.state == SET and not (same_tape and o.term) and self.w.is_handler(callee) \
                        and callee is self.ret_handler:
                    t2 = term
                pr = problems + [(p[0], p[1], f'(via {callee.name}) ' + p[2]) for p in o.problems
                                 if p[0] == 'R1']
                res.append((o.state, t2, trace + [f'{callee.name}: {t}' for t in o.trace]
                            + [f'L{n.line}: {callee.name} -> {o.state}'
                               + ('/terminated' if o.term and same_tape else '')],
                            pr))
            if not res:
                res.append((st, term, trace, problems))
            return res
        return [(st, term, trace, problems)]


def _txt(n: Node) -> str:
    try:
        return ast.unparse(n.ast).split('\n')[0][:70]
    except Exception:
        return '?'


def _is_len_of_data(v: ast.AST, tape: str) -> bool:
    return (isinstance(v, ast.Call) and isinstance(v.func, ast.Name) and v.func.id == 'len'
            and len(v.args) == 1 and isinstance(v.args[0], ast.Attribute)
            and v.args[0].attr == 'data' and isinstance(v.args[0].value, ast.Name)
            and v.args[0].value.id == tape)


def _looks_like_cache(fi, name: str) -> bool:
    """A local that is later passed as the cache argument of run_tape / a handler."""
    for n in ast.walk(fi.node):
        if isinstance(n, ast.Call) and isinstance(n.func, ast.Name) and n.func.id == 'run_tape':
            if len(n.args) >= 3 and isinstance(n.args[2], ast.Name) and n.args[2].id == name:
                return True
            for kw in n.keywords:
                if kw.arg == 'cache' and isinstance(kw.value, ast.Name) and kw.value.id == name:
                    return True
    return False
