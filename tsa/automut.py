"""E7 part 2 - automatic per-instance breaking variants for the thorough tier.

For the rule families whose instances are enumerable from the source, one breaking edit is
synthesised *per instance* from the rule's own anchor (drop the keyword, turn the bytes key
into a str key, change one read size, shift one mask, flip one comparison, delete one
guard, swap two table entries).  Edits are positional splices computed from the ast of the
current tree, so the corpus can never go stale; every variant must still parse and must make
the named rule fire - an undetected one is an ANALYSIS-ERROR of the checker."""
from __future__ import annotations
import ast
import os
import random

F = 'tapescript/functions.py'
P = 'tapescript/parsing.py'
C = 'tapescript/classes.py'
T = 'tapescript/tools.py'


def _src(root, rel):
    with open(os.path.join(root, rel), encoding='utf-8') as f:
        return f.read()


def _splice(rel, node, new_text):
    return ('splice', rel, node.lineno, node.col_offset, node.end_lineno, node.end_col_offset, new_text)


def _funcs(tree):
    return {n.name: n for n in tree.body if isinstance(n, ast.FunctionDef)}


def generate(prop: str, root: str, seed: int = 0, cap: int = 160) -> list[dict]:
    out: list[dict] = []
    ftree = ast.parse(_src(root, F))
    ptree = ast.parse(_src(root, P))
    ctree = ast.parse(_src(root, C))
    ttree = ast.parse(_src(root, T))
    fns = _funcs(ftree)

    def V(id, edits, expect, construct=None):
        v = {'id': f'auto-{prop.lower()}-{id}', 'prop': prop, 'kind': 'break', 'edits': edits, 'expect': expect}
        if construct:
            v['construct'] = construct
        out.append(v)

    subtape_handlers = ('OP_DEF', 'OP_IF', 'OP_IF_ELSE', 'OP_EVAL', 'OP_TRY_EXCEPT', 'OP_LOOP')

    # 1. drop one configuration keyword of one sub-tape construction ------------------------------
    if prop in ('C09', 'C07'):
        for hn in subtape_handlers:
            fn = fns.get(hn)
            if fn is None:
                continue
            k = 0
            for n in ast.walk(fn):
                if isinstance(n, ast.Call) and isinstance(n.func, ast.Name) and n.func.id == 'Tape':
                    k += 1
                    for kw in n.keywords:
                        if prop == 'C09' and kw.arg in ('contracts', 'plugins', 'callstack_limit', 'callstack_count'):
                            V(f'{hn}-tape{k}-drop-{kw.arg}', [_splice(F, kw, '**{}')], 'C09.R1', hn)
                        if prop == 'C07' and kw.arg == 'callstack_count' and hn != 'OP_DEF':
                            V(f'{hn}-tape{k}-drop-count', [_splice(F, kw, '**{}')], 'C07.R4b', hn)

    # 2. one cache store / delete under a bytes constant key becomes a str key -----------------------
    if prop == 'C08':
        for hn, fn in fns.items():
            if not (hn.startswith('OP_') or hn == 'NOP'):
                continue
            k = 0
            for n in ast.walk(fn):
                if isinstance(n, ast.Subscript) and isinstance(n.ctx, (ast.Store, ast.Del)) and \
                        isinstance(n.value, ast.Name) and n.value.id == fn.args.args[2].arg and \
                        isinstance(n.slice, ast.Constant) and isinstance(n.slice.value, bytes):
                    k += 1
                    V(f'{hn}-key{k}-str', [_splice(F, n.slice, repr(n.slice.value.decode('latin1')))], 'C08.R1', hn)

    # 3. one constant read size of a VM handler changes -------------------------------------------------
    if prop in ('C11', 'C12', 'C20'):
        block_ops = ('OP_DEF', 'OP_IF', 'OP_IF_ELSE', 'OP_TRY_EXCEPT', 'OP_LOOP')
        for hn, fn in fns.items():
            if not (hn.startswith('OP_') or hn == 'NOP'):
                continue
            tape = fn.args.args[0].arg if fn.args.args else None
            k = 0
            for n in ast.walk(fn):
                if isinstance(n, ast.Call) and isinstance(n.func, ast.Attribute) and n.func.attr == 'read' and \
                        isinstance(n.func.value, ast.Name) and n.func.value.id == tape and n.args and \
                        isinstance(n.args[0], ast.Constant) and isinstance(n.args[0].value, int):
                    k += 1
                    ed = [_splice(F, n.args[0], str(n.args[0].value + 1))]
                    if prop == 'C12' and hn != 'NOP':
                        V(f'{hn}-read{k}-plus1', ed, 'C12.R4')
                    if prop == 'C11' and hn not in block_ops and hn != 'NOP':
                        V(f'{hn}-read{k}-plus1', ed, 'C11.R2')
                    if prop == 'C20' and hn == 'NOP':
                        V(f'{hn}-read{k}-plus1', ed, 'C20.R3')
    if prop == 'C12':
        dec = [n for n in ptree.body if isinstance(n, ast.FunctionDef) and n.name == 'decompile_script']
        if dec:
            k = 0
            for m in ast.walk(dec[0]):
                if isinstance(m, ast.Match):
                    for c in m.cases:
                        for n in ast.walk(c):
                            if isinstance(n, ast.Call) and isinstance(n.func, ast.Attribute) and n.func.attr == 'read' and \
                                    n.args and isinstance(n.args[0], ast.Constant) and isinstance(n.args[0].value, int):
                                k += 1
                                V(f'dec-arm-read{k}-plus1', [_splice(P, n.args[0], str(n.args[0].value + 1))], 'C12.R4')

    # 4. one flag mask shifts by one bit --------------------------------------------------------------------
    if prop == 'C02':
        for hn, rule in (('OP_GET_MESSAGE', 'C02.R1'), ('OP_CHECK_SIG', 'C02.R2'), ('OP_CHECK_TEMPLATE', 'C02.R7')):
            fn = fns.get(hn)
            if fn is None:
                continue
            k = 0
            for n in ast.walk(fn):
                if isinstance(n, ast.BinOp) and isinstance(n.op, ast.BitAnd) and isinstance(n.right, ast.Constant) and \
                        isinstance(n.right.value, int) and n.right.value in (1, 2, 4, 8, 16, 32, 64, 128):
                    k += 1
                    m = n.right.value
                    new = m << 1 if m < 128 else 64
                    V(f'{hn}-mask{k}-{m}-to-{new}', [_splice(F, n.right, bin(new))], rule, hn)

    # 5. one comparison of a time instruction changes strictness ----------------------------------------------
    if prop in ('C16', 'C14', 'C15'):
        flip = {ast.Lt: '<=', ast.LtE: '<', ast.Gt: '>=', ast.GtE: '>'}
        for hn, rule16 in (('OP_CHECK_TIMESTAMP', 'C16.R1'), ('OP_CHECK_EPOCH', 'C16.R2')):
            fn = fns.get(hn)
            if fn is None:
                continue
            src = _src(root, F)
            lines = src.split('\n')
            k = 0
            for st in ast.walk(fn):
                if not isinstance(st, ast.If):
                    continue
                for n in ast.walk(st.test):
                    if isinstance(n, ast.Compare) and len(n.ops) == 1 and type(n.ops[0]) in flip:
                        # operator text sits between left.end and comparator.start on one line
                        l, r = n.left, n.comparators[0]
                        if l.end_lineno != r.lineno:
                            continue
                        seg = lines[l.end_lineno - 1][l.end_col_offset:r.col_offset]
                        new = seg.replace({ast.Lt: '<', ast.LtE: '<=', ast.Gt: '>', ast.GtE: '>='}[type(n.ops[0])],
                                          flip[type(n.ops[0])], 1)
                        if new == seg:
                            continue
                        k += 1
                        ed = [('splice', F, l.end_lineno, l.end_col_offset, r.lineno, r.col_offset, new)]
                        if prop == 'C16':
                            V(f'{hn}-cmp{k}-strictness', ed, rule16)
                        elif hn == 'OP_CHECK_TIMESTAMP':
                            V(f'{hn}-cmp{k}-strictness', ed, f'{prop}.TV')

    # 6. two adjacent entries of the opcode table swap -------------------------------------------------------------
    if prop == 'C06':
        lst = None
        for st in ftree.body:
            if isinstance(st, ast.Assign) and isinstance(st.targets[0], ast.Name) and st.targets[0].id == 'opcodes' \
                    and isinstance(st.value, ast.List):
                lst = st.value
        if lst is not None:
            src = _src(root, F)
            idxs = list(range(len(lst.elts) - 1))
            random.Random(seed).shuffle(idxs)
            for i in sorted(idxs[:24]):
                a, b = lst.elts[i], lst.elts[i + 1]
                ta = ast.get_source_segment(src, a)
                tb = ast.get_source_segment(src, b)
                V(f'opcodes-swap-{i}-{i + 1}', [_splice(F, b, ta), _splice(F, a, tb)], 'C06.R3')
        # and one flag-resolution statement disappears per sub-tape handler
        for hn in ('OP_CALL', 'OP_IF', 'OP_IF_ELSE', 'OP_EVAL', 'OP_TRY_EXCEPT', 'OP_LOOP'):
            fn = fns.get(hn)
            if fn is None:
                continue
            k = 0
            for n in ast.walk(fn):
                if isinstance(n, ast.If) and isinstance(n.test, ast.Compare) and isinstance(n.test.ops[0], ast.In) and \
                        isinstance(n.test.left, ast.Name) and n.test.left.id == '_RETURNED':
                    k += 1
                    V(f'{hn}-flag-resolution{k}-dropped', [_splice(F, n, 'pass')], 'C06.R1', hn)

        # documented stack effect / operands: per handler, one stack pop too many; one stack pop dropped; one extra
        # operand byte read; the first counted loop runs once more
        hs = [n for n, fn in fns.items() if (n.startswith('OP_') or n == 'NOP') and fn.body]
        random.Random(seed + 1).shuffle(hs)
        for hn in sorted(hs[:36]):
            fn = fns[hn]
            if len(fn.args.args) < 3:
                continue
            tp, sp = fn.args.args[0].arg, fn.args.args[1].arg
            first = fn.body[1] if (isinstance(fn.body[0], ast.Expr) and isinstance(fn.body[0].value, ast.Constant)
                                   and len(fn.body) > 1) else fn.body[0]
            src = _src(root, F)
            seg = ast.get_source_segment(src, first)
            ind = ' ' * first.col_offset
            gets = [n for n in ast.walk(fn) if isinstance(n, ast.Expr) is False and isinstance(n, ast.Call)
                    and isinstance(n.func, ast.Attribute) and n.func.attr == 'get' and isinstance(n.func.value, ast.Name)
                    and n.func.value.id == sp]
            runs_sub = any(isinstance(n, ast.Call) and isinstance(n.func, ast.Name) and n.func.id in ('run_tape',)
                           for n in ast.walk(fn))
            from .spec_effects import SPEC, DATA
            spec = SPEC.get(hn)
            if spec is None:
                continue
            if spec.net != DATA:
                V(f'{hn}-extra-pop', [_splice(F, first, f'{sp}.get()\n{ind}{seg}')], 'C06.R4', hn)
            V(f'{hn}-extra-operand-byte', [_splice(F, first, f'{tp}.read(1)\n{ind}{seg}')], 'C06.R5', hn)
            loops = [n for n in ast.walk(fn) if isinstance(n, ast.For) and isinstance(n.iter, ast.Call)
                     and isinstance(n.iter.func, ast.Name) and n.iter.func.id == 'range' and len(n.iter.args) == 1
                     and any(isinstance(x, ast.Call) and isinstance(x.func, ast.Attribute) and x.func.attr in ('get', 'put')
                             and isinstance(x.func.value, ast.Name) and x.func.value.id == sp for x in ast.walk(n))]
            if loops and spec.net != DATA:
                a0 = loops[0].iter.args[0]
                V(f'{hn}-loop-once-more', [_splice(F, a0, f'({ast.get_source_segment(src, a0)}) + 1')], 'C06.R4', hn)

    # 7. one limit guard disappears -----------------------------------------------------------------------------
    if prop == 'C07':
        def guards_in(tree, rel, cls, meth, tag, rule):
            for st in tree.body:
                if isinstance(st, ast.ClassDef) and st.name == cls:
                    for fn in st.body:
                        if isinstance(fn, ast.FunctionDef) and fn.name == meth:
                            k = 0
                            for n in fn.body:
                                if isinstance(n, ast.Expr) and isinstance(n.value, ast.Call) and \
                                        isinstance(n.value.func, ast.Name) and n.value.func.id in ('sert', 'tert', 'vert'):
                                    k += 1
                                    V(f'{tag}-guard{k}-dropped', [_splice(rel, n, 'pass')], rule)
        guards_in(ctree, C, 'Stack', 'put', 'Stack.put', 'C07.R1')
        guards_in(ctree, C, 'Tape', 'read', 'Tape.read', 'C07.R2')
        guards_in(ctree, C, 'Tape', 'move_pointer', 'Tape.move_pointer', 'C07.R2')
        for hn in ('OP_CALL', 'OP_EVAL'):
            fn = fns.get(hn)
            for n in (fn.body if fn else []):
                if isinstance(n, ast.Expr) and isinstance(n.value, ast.Call) and isinstance(n.value.func, ast.Name) and \
                        n.value.func.id == 'sert' and 'callstack' in ast.unparse(n):
                    V(f'{hn}-depth-guard-dropped', [_splice(F, n, 'pass')], 'C07.R4', hn)
        fn = fns.get('OP_LOOP')
        for n in ast.walk(fn) if fn else []:
            if isinstance(n, ast.Expr) and isinstance(n.value, ast.Call) and isinstance(n.value.func, ast.Name) and \
                    n.value.func.id == 'sert':
                V('OP_LOOP-count-guard-dropped', [_splice(F, n, 'pass')], 'C07.R5')
        # every unsigned one-byte / two-byte operand decode turned signed
        k = 0
        for hn, fn in fns.items():
            if not hn.startswith('OP_'):
                continue
            tape = fn.args.args[0].arg
            for n in ast.walk(fn):
                if isinstance(n, ast.Assign) and isinstance(n.value, ast.Call) and \
                        ast.unparse(n.value.func) == 'int.from_bytes' and n.value.args and \
                        isinstance(n.value.args[0], ast.Call) and ast.unparse(n.value.args[0].func) == f'{tape}.read' and \
                        isinstance(n.targets[0], ast.Name):
                    var = n.targets[0].id
                    used_as_size = any(isinstance(m, ast.Call) and isinstance(m.func, ast.Attribute) and m.func.attr == 'read'
                                       and m.args and isinstance(m.args[0], ast.Name) and m.args[0].id == var
                                       for m in ast.walk(fn))
                    if used_as_size:
                        k += 1
                        V(f'{hn}-size{k}-signed', [_splice(F, n.value, f'bytes_to_int({ast.unparse(n.value.args[0])})')],
                          'C07.R3a', hn)

    # 8. one `x{sigflags}` of a builder template is hard-wired -----------------------------------------------------
    owners = {
        'C13': ('make_single_sig_lock', 'make_single_sig_lock2', 'make_multisig_lock', 'make_graftroot_lock',
                'make_single_sig_witness', 'make_single_sig_witness2'),
        'C14': ('make_delegate_key_lock', 'make_delegate_key_chain_lock', 'make_delegate_key_witness',
                'make_delegate_key_chain_witness'),
        'C15': ('make_htlc_sha256_lock', 'make_htlc_shake256_lock', 'make_htlc2_sha256_lock', 'make_htlc2_shake256_lock',
                'make_ptlc_lock', 'make_htlc_witness', 'make_htlc2_witness'),
    }
    if prop in owners:
        tf = _funcs(ttree)
        for bn in owners[prop]:
            fn = tf.get(bn)
            if fn is None:
                continue
            k = 0
            for n in ast.walk(fn):
                if isinstance(n, ast.FormattedValue) and isinstance(n.value, ast.Name) and n.value.id == 'sigflags':
                    k += 1
                    V(f'{bn}-sigflags{k}-hardwired', [_splice(T, n, '00')], f'{prop}.T3', bn)

    # 9. one sub-run loses its additional_flags / one flag snapshot ---------------------------------------------------
    if prop == 'C09':
        for hn in ('OP_CALL', 'OP_IF', 'OP_IF_ELSE', 'OP_EVAL', 'OP_TRY_EXCEPT', 'OP_LOOP'):
            fn = fns.get(hn)
            if fn is None:
                continue
            k = 0
            for n in ast.walk(fn):
                if isinstance(n, ast.Call) and isinstance(n.func, ast.Name) and n.func.id == 'run_tape':
                    for kw in n.keywords:
                        if kw.arg == 'additional_flags':
                            k += 1
                            V(f'{hn}-run{k}-no-additional-flags', [_splice(F, kw, '**{}')], 'C09.R2', hn)

    rnd = random.Random(seed)
    if len(out) > cap:
        rnd.shuffle(out)
        out = out[:cap]
    return out
