"""E5 - linear atoms, boolean formulas over them, truth-table comparison, intervals.

Integer comparisons are brought to the canonical form  L >= 0  (a<b <=> b-a-1>=0),
`L` a linear combination of opaque terms.  An atom and its negation share one
canonical key (negation of L>=0 is -L-1>=0), so `a < b` and `a >= b` are
complementary literals of the same variable in a truth table.
"""
from __future__ import annotations
import ast
import itertools
from .report import AnalysisError


class Lin:
    """sum(coef * term) + const"""
    __slots__ = ('coefs', 'const')

    def __init__(self, coefs=None, const=0):
        self.coefs = {k: v for k, v in (coefs or {}).items() if v != 0}
        self.const = const

    def __add__(self, o):
        c = dict(self.coefs)
        for k, v in o.coefs.items():
            c[k] = c.get(k, 0) + v
        return Lin(c, self.const + o.const)

    def __neg__(self):
        return Lin({k: -v for k, v in self.coefs.items()}, -self.const)

    def __sub__(self, o):
        return self + (-o)

    def scale(self, n):
        return Lin({k: v * n for k, v in self.coefs.items()}, self.const * n)

    def is_const(self):
        return not self.coefs

    def key(self):
        return (tuple(sorted(self.coefs.items())), self.const)

    def __repr__(self):
        parts = [f'{v:+d}*{k}' for k, v in sorted(self.coefs.items())]
        parts.append(f'{self.const:+d}')
        return ' '.join(parts)


def linear(e: ast.AST, subst=None, term=None) -> Lin:
    """Linearise an integer expression.  `subst(name_node) -> ast | None` replaces
    locals by their single definition; `term(ast) -> str` names opaque terms."""
    term = term or (lambda x: ast.unparse(x))
    if isinstance(e, ast.Constant) and isinstance(e.value, int) and not isinstance(e.value, bool):
        return Lin({}, e.value)
    if isinstance(e, ast.Name) and subst is not None:
        r = subst(e)
        if r is not None:
            return linear(r, subst, term)
    if isinstance(e, ast.BinOp):
        if isinstance(e.op, ast.Add):
            return linear(e.left, subst, term) + linear(e.right, subst, term)
        if isinstance(e.op, ast.Sub):
            return linear(e.left, subst, term) - linear(e.right, subst, term)
        if isinstance(e.op, ast.Mult):
            l, r = linear(e.left, subst, term), linear(e.right, subst, term)
            if l.is_const():
                return r.scale(l.const)
            if r.is_const():
                return l.scale(r.const)
        if isinstance(e.op, ast.Pow):
            l, r = linear(e.left, subst, term), linear(e.right, subst, term)
            if l.is_const() and r.is_const() and 0 <= r.const <= 64:
                return Lin({}, l.const ** r.const)
        if isinstance(e.op, ast.LShift):
            l, r = linear(e.left, subst, term), linear(e.right, subst, term)
            if l.is_const() and r.is_const() and 0 <= r.const <= 64:
                return Lin({}, l.const << r.const)
    if isinstance(e, ast.UnaryOp) and isinstance(e.op, ast.USub):
        return -linear(e.operand, subst, term)
    return Lin({term(e): 1}, 0)


# formulas: ('lit', key, polarity, text) | ('and', [..]) | ('or', [..]) | ('not', f) |
#           ('const', bool) | ('opaque', text, polarity)

def _canon(L: Lin):
    """Canonical (key, polarity) for the atom L >= 0."""
    if L.is_const():
        return None, L.const >= 0
    items = sorted(L.coefs.items())
    if items[0][1] > 0:
        return ('ge', tuple(items), L.const), True
    # flip:  L >= 0  <=>  not(-L - 1 >= 0)
    M = -L
    M = Lin(M.coefs, M.const - 1)
    return ('ge', tuple(sorted(M.coefs.items())), M.const), False


def atom_ge(L: Lin):
    key, pol = _canon(L)
    if key is None:
        return ('const', pol)
    return ('lit', key, pol)


def f_not(f):
    if f[0] == 'const':
        return ('const', not f[1])
    if f[0] == 'lit':
        return ('lit', f[1], not f[2])
    if f[0] == 'not':
        return f[1]
    return ('not', f)


def f_and(fs):
    fs = [f for f in fs if f != ('const', True)]
    if any(f == ('const', False) for f in fs):
        return ('const', False)
    if not fs:
        return ('const', True)
    if len(fs) == 1:
        return fs[0]
    return ('and', fs)


def f_or(fs):
    fs = [f for f in fs if f != ('const', False)]
    if any(f == ('const', True) for f in fs):
        return ('const', True)
    if not fs:
        return ('const', False)
    if len(fs) == 1:
        return fs[0]
    return ('or', fs)


def compare_formula(e: ast.Compare, subst=None, term=None, int_ok=None):
    """Formula for a comparison; non-integer comparisons become opaque literals."""
    if len(e.ops) != 1:
        parts = []
        left = e.left
        for op, right in zip(e.ops, e.comparators):
            parts.append(compare_formula(ast.Compare(left=left, ops=[op], comparators=[right]),
                                         subst, term, int_ok))
            left = right
        return f_and(parts)
    op = e.ops[0]
    a, b = e.left, e.comparators[0]
    if isinstance(op, (ast.Lt, ast.LtE, ast.Gt, ast.GtE, ast.Eq, ast.NotEq)) and \
            (int_ok is None or (int_ok(a) and int_ok(b))):
        la, lb = linear(a, subst, term), linear(b, subst, term)
        if isinstance(op, ast.Lt):
            return atom_ge(lb - la + Lin({}, -1))
        if isinstance(op, ast.LtE):
            return atom_ge(lb - la)
        if isinstance(op, ast.Gt):
            return atom_ge(la - lb + Lin({}, -1))
        if isinstance(op, ast.GtE):
            return atom_ge(la - lb)
        if isinstance(op, ast.Eq):
            return f_and([atom_ge(la - lb), atom_ge(lb - la)])
        if isinstance(op, ast.NotEq):
            return f_not(f_and([atom_ge(la - lb), atom_ge(lb - la)]))
    txt = ast.unparse(ast.Compare(left=a, ops=[_positive(op)], comparators=[b]))
    pol = not isinstance(op, (ast.NotEq, ast.NotIn, ast.IsNot))
    return ('lit', ('opaque', txt), pol)


def _positive(op):
    if isinstance(op, ast.NotEq):
        return ast.Eq()
    if isinstance(op, ast.NotIn):
        return ast.In()
    if isinstance(op, ast.IsNot):
        return ast.Is()
    return op


def formula(e: ast.AST, subst=None, term=None, int_ok=None):
    if isinstance(e, ast.BoolOp):
        parts = [formula(v, subst, term, int_ok) for v in e.values]
        return f_and(parts) if isinstance(e.op, ast.And) else f_or(parts)
    if isinstance(e, ast.UnaryOp) and isinstance(e.op, ast.Not):
        return f_not(formula(e.operand, subst, term, int_ok))
    if isinstance(e, ast.Compare):
        return compare_formula(e, subst, term, int_ok)
    if isinstance(e, ast.Constant):
        return ('const', bool(e.value))
    if isinstance(e, ast.Name) and subst is not None:
        r = subst(e)
        if r is not None:
            return formula(r, subst, term, int_ok)
    return ('lit', ('opaque', (term or ast.unparse)(e)), True)


def atoms(f, acc=None):
    acc = acc if acc is not None else []
    if f[0] == 'lit':
        if f[1] not in acc:
            acc.append(f[1])
    elif f[0] in ('and', 'or'):
        for x in f[1]:
            atoms(x, acc)
    elif f[0] == 'not':
        atoms(f[1], acc)
    return acc


def evaluate(f, env) -> bool:
    if f[0] == 'const':
        return f[1]
    if f[0] == 'lit':
        v = env[f[1]]
        return v if f[2] else not v
    if f[0] == 'and':
        return all(evaluate(x, env) for x in f[1])
    if f[0] == 'or':
        return any(evaluate(x, env) for x in f[1])
    if f[0] == 'not':
        return not evaluate(f[1], env)
    raise AnalysisError(f'bad formula {f!r}')


def equivalent(f, g, max_atoms: int = 10):
    """(equal?, counterexample env | None, atoms) by truth table over the union of atoms."""
    al = atoms(f)
    atoms(g, al)
    if len(al) > max_atoms:
        raise AnalysisError(f'too many atoms ({len(al)}) for a truth table')
    for vals in itertools.product((False, True), repeat=len(al)):
        env = dict(zip(al, vals))
        if evaluate(f, env) != evaluate(g, env):
            return False, env, al
    return True, None, al


def implies(f, g, max_atoms: int = 10) -> bool:
    al = atoms(f)
    atoms(g, al)
    if len(al) > max_atoms:
        raise AnalysisError(f'too many atoms ({len(al)}) for a truth table')
    for vals in itertools.product((False, True), repeat=len(al)):
        env = dict(zip(al, vals))
        if evaluate(f, env) and not evaluate(g, env):
            return False
    return True


def show(f) -> str:
    if f[0] == 'const':
        return str(f[1])
    if f[0] == 'lit':
        k = f[1]
        if k[0] == 'opaque':
            s = k[1]
        else:
            s = ' '.join(f'{c:+d}*{t}' for t, c in k[1]) + f' {k[2]:+d} >= 0'
        return s if f[2] else f'not({s})'
    if f[0] == 'not':
        return f'not({show(f[1])})'
    j = ' and ' if f[0] == 'and' else ' or '
    return '(' + j.join(show(x) for x in f[1]) + ')'


def int_interval(f, var: str):
    """If formula f is a conjunction of literals over the single term `var` with unit
    coefficient, return the (lo, hi) closed interval it describes (None = unbounded)."""
    lits = []
    if f[0] == 'lit':
        lits = [f]
    elif f[0] == 'and' and all(x[0] == 'lit' for x in f[1]):
        lits = f[1]
    elif f[0] == 'const' and f[1]:
        return (None, None)
    else:
        return None
    lo, hi = None, None
    for lit in lits:
        k = lit[1]
        if k[0] != 'ge' or len(k[1]) != 1 or k[1][0][0] != var:
            return None
        coef, const = k[1][0][1], k[2]
        # canonical: coef > 0 always.  coef*var + const >= 0
        if coef != 1:
            return None
        if lit[2]:          # var >= -const
            b = -const
            lo = b if lo is None else max(lo, b)
        else:               # not(var + const >= 0)  <=>  var <= -const-1
            b = -const - 1
            hi = b if hi is None else min(hi, b)
    return (lo, hi)
