"""C01 - authorization verdict is exact; a witness cannot truncate or skip the lock."""
from __future__ import annotations
import ast
from .report import Report, AnalysisError
from .summary import World, node_events
from .flagstate import FlagEngine, CLEAR, SET, MAYBE
from .model import dotted, FuncRef
from .kinds import K
from . import linear as L
from .guards import edge_formula, make_subst

LEVEL = 'other'
TITLE = 'authorization verdict is exact'


def _is_false_const(e) -> bool:
    return isinstance(e, ast.Constant) and e.value is False


def _is_true_const(e) -> bool:
    return isinstance(e, ast.Constant) and e.value is True


def run(w: World, rep: Report):
    repo = w.repo
    fi = repo.func('functions', 'run_auth_scripts')
    cfg = w.cfg(fi)
    kinds = w.kinds(fi)
    rel = 'tapescript/functions.py'
    rep.covered('functions', fi.key)
    rep.covered('functions', 'functions.run_script')
    rep.covered('functions', 'functions.run_tape')

    rep.rule('C01.R1', 'the return flag is CLEAR at the fetch loop of every top-level script '
             '(typestate through run_auth_scripts and the run_tape prologue)', floor=2)
    rep.rule('C01.R2', 'every raising step of run_auth_scripts after argument validation lies in a '
             'try whose handler catches every package exception class and returns False', floor=3)
    rep.rule('C01.R3', 'return True is dominated by has_terminated() of each tape run, '
             'len(stack) == 1 and popped item == 0xff', floor=4)
    rep.rule('C01.R4', 'one fresh tape per script on the shared stack and cache', floor=4)
    rep.rule('C01.R5', 'the wrappers run_auth_script / CLI auth reach the verdict only through '
             'run_auth_scripts', floor=1)

    # ---- R1 ---------------------------------------------------------------
    eng = FlagEngine(w)
    rep.note(f'return flag key discovered from OP_RETURN handler: {eng.key_id}')
    outs = eng._walk(fi, CLEAR)
    run_sites = []
    for n in cfg.nodes:
        for ev in node_events(n):
            if ev[0] == 'call':
                callee = eng._handler_or_pkg(fi, ev[1])
                if callee is not None and (callee.name == 'run_tape' or eng._reaches_run_tape(callee)):
                    run_sites.append((n, ev[1], callee))
    problems_by_line = {}
    for o in outs:
        for p in o.problems:
            if p[0] == 'R1':
                problems_by_line.setdefault(p[1], p[2])
    for n, call, callee in run_sites:
        why = problems_by_line.get(n.line, '')
        # a problem reported via a wrapper carries the wrapper's inner line; match by prefix
        if not why:
            for o in outs:
                for p in o.problems:
                    if p[0] == 'R1' and p[2].startswith(f'(via {callee.name})'):
                        # only attribute to this site if the trace passed this line last
                        if any(t.startswith(f'L{n.line}:') for t in o.trace):
                            why = p[2]
        in_loop = bool(_enclosing_loops(cfg, n))
        rep.check('C01.R1', f'functions.run_auth_scripts|{callee.name}|'
                  f'{"loop" if in_loop else "first"}', not why, line=n.line, file=rel, why=why,
                  facts={'call': ast.unparse(call)[:80], 'key': eng.key_id})

    # ---- R2 ---------------------------------------------------------------
    body = [s for s in cfg.body
            if not (isinstance(s, ast.Expr) and isinstance(s.value, ast.Constant))]
    tries = [s for s in body if isinstance(s, ast.Try)]
    ok_shape = len(tries) == 1
    rep.check('C01.R2', 'functions.run_auth_scripts|single-try', ok_shape, file=rel,
              line=tries[0].lineno if tries else fi.node.lineno,
              why='' if ok_shape else f'{len(tries)} try statements at top level')
    if tries:
        tr = tries[0]
        outside = []
        for s in body:
            if s is tr:
                continue
            if isinstance(s, ast.Expr) and isinstance(s.value, ast.Call) and \
                    cfg.exc.guard_class('functions', s.value):
                idx_try = body.index(tr)
                if body.index(s) < idx_try:
                    continue          # argument validation, by design
            if isinstance(s, ast.Return) and (s.value is None or isinstance(s.value, ast.Constant)):
                continue
            if isinstance(s, ast.If) and not s.orelse and len(s.body) == 1 and isinstance(s.body[0], ast.Raise) and \
                    body.index(s) < body.index(tr):
                continue              # argument validation spelled `if not ok: raise TypeError(..)`
            if isinstance(s, ast.Assign) and len(s.targets) == 1 and isinstance(s.targets[0], ast.Name) and \
                    body.index(s) < body.index(tr) and _pure_validation_expr(s.value):
                continue              # a validation condition computed into a local first (type()/len()/all(..) over arguments)
            if _stmt_may_raise(s):
                outside.append(s)
        rep.check('C01.R2', 'functions.run_auth_scripts|outside-try', not outside, file=rel,
                  line=outside[0].lineno if outside else tr.lineno,
                  why='' if not outside else
                  f'statement outside the try can raise: `{ast.unparse(outside[0])[:70]}`')
        nested = [n for n in ast.walk(tr) if isinstance(n, ast.Try) and n is not tr]
        rep.check('C01.R2', 'functions.run_auth_scripts|no-inner-try', not nested, file=rel,
                  line=nested[0].lineno if nested else tr.lineno,
                  why='' if not nested else 'an inner try inside the protected region can swallow the error of a script: '
                  'the run would continue (and may return True) although a script raised')
        else_bad = [s for s in tr.orelse if _stmt_may_raise(s)]
        rep.check('C01.R2', 'functions.run_auth_scripts|try-else', not else_bad, file=rel,
                  line=else_bad[0].lineno if else_bad else tr.lineno,
                  why='' if not else_bad else 'raising statement in the else clause escapes the handler')
        # the handler reached by package exception classes
        classes = list(cfg.exc.pkg_classes) + ['AssertionError', 'IndexError', 'TypeError',
                                               'ValueError', 'RecursionError', 'KeyError',
                                               'ZeroDivisionError', 'MemoryError']
        for cls in classes:
            h = None
            for cand in tr.handlers:
                if cfg.exc.catches(cand.type, cls):
                    h = cand
                    break
            ok = h is not None
            why = '' if ok else f'no handler catches {cls}'
            if ok:
                hb = [s for s in h.body]
                good = (len(hb) >= 1 and isinstance(hb[-1], ast.Return)
                        and _is_false_const(hb[-1].value)
                        and not any(_stmt_may_raise(s) for s in hb))
                if not good:
                    ok = False
                    why = f'handler for {cls} does not simply return False'
            rep.check('C01.R2', f'functions.run_auth_scripts|catch|{cls}', ok, file=rel,
                      line=(h.lineno if h else tr.lineno), why=why)
        # no statement in the try body returns anything but a constant
        # (a raising expression in a return inside the try is still protected)

    # ---- R3 ---------------------------------------------------------------
    ret_true = [n for n in cfg.nodes if n.kind == 'stmt' and isinstance(n.ast, ast.Return)
                and n.ast.value is not None and not _is_false_const(n.ast.value)]
    if not ret_true:
        raise AnalysisError('run_auth_scripts has no non-False return')
    for rn in ret_true:
        if not _is_true_const(rn.ast.value):
            rep.check('C01.R3', f'functions.run_auth_scripts|return|{ast.unparse(rn.ast)[:40]}',
                      False, line=rn.line, file=rel,
                      why='verdict is not the constant True/False')
            continue
        # stack variable = 2nd element of the run_script result / run_tape stack arg
        stack_names = set()
        tape_runs = []          # (node, tape expr, callee)
        for n, call, callee in run_sites:
            if callee.name == 'run_tape' and len(call.args) >= 2 and isinstance(call.args[1], ast.Name):
                stack_names.add(call.args[1].id)
                tape_runs.append((n, call.args[0], callee))
            elif callee.name == 'run_script':
                tape_runs.append((n, None, callee))
        # (a) len(stack) == 1
        len_edges = []
        for t in cfg.nodes:
            if t.kind != 'test':
                continue
            for succ, lab in t.succ:
                if lab not in (True, False):
                    continue
                for sn in stack_names or {'stack'}:
                    want = L.formula(ast.parse(f'len({sn}) == 1', mode='eval').body)
                    try:
                        f = edge_formula(cfg, t, lab)
                    except Exception:
                        continue
                    if L.implies(f, want):
                        len_edges.append((t, succ, lab))
        ok = bool(len_edges) and cfg.must_pass(cfg.entry, rn, through_edges=len_edges)
        # no push between the length check and the return
        rep.check('C01.R3', 'functions.run_auth_scripts|return True|len(stack)==1', ok,
                  line=rn.line, file=rel,
                  why='' if ok else 'return True not dominated by an exact len(stack) == 1 guard',
                  facts={'guards': [repr(e[0]) for e in len_edges]})
        # (b) popped item == b'\xff'
        item_edges = []
        for t in cfg.nodes:
            if t.kind != 'test' or not isinstance(t.ast, ast.Compare) or len(t.ast.ops) != 1:
                continue
            a, b = t.ast.left, t.ast.comparators[0]
            op = t.ast.ops[0]
            for x, y in ((a, b), (b, a)):
                if isinstance(y, ast.Constant) and y.value == b'\xff':
                    kx = kinds.of(x, t)
                    if any(l.tag == 'stack_item' and l.how == 'get' for l in kx.leaves()) \
                            and len(kx.leaves()) == 1:
                        if isinstance(op, ast.Eq):
                            item_edges += [(t, s, lab) for s, lab in t.succ if lab is True]
                        elif isinstance(op, ast.NotEq):
                            item_edges += [(t, s, lab) for s, lab in t.succ if lab is False]
        ok = bool(item_edges) and cfg.must_pass(cfg.entry, rn, through_edges=item_edges)
        rep.check('C01.R3', 'functions.run_auth_scripts|return True|item==0xff', ok,
                  line=rn.line, file=rel,
                  why='' if ok else 'return True not dominated by `popped item == b"\\xff"`',
                  facts={'guards': [repr(e[0]) for e in item_edges]})
        # the length guard must precede the pop that feeds the item guard, with no push between
        if len_edges and item_edges:
            pops_after = True
            for (t, s, lab) in item_edges:
                if not cfg.must_pass(cfg.entry, t, through_edges=len_edges):
                    pops_after = False
            rep.check('C01.R3', 'functions.run_auth_scripts|return True|order', pops_after,
                      line=rn.line, file=rel,
                      why='' if pops_after else 'item guard is not dominated by the length guard')
        # (c) has_terminated on each tape that was run
        for n, texpr, callee in tape_runs:
            if callee.name == 'run_script':
                # tape = element 0 of the result
                tname = _unpack_name(n, 0)
            else:
                tname = texpr.id if isinstance(texpr, ast.Name) else None
            edges = []
            if tname:
                for t in cfg.nodes:
                    if t.kind == 'test' and isinstance(t.ast, ast.Call) and \
                            dotted(t.ast.func) == f'{tname}.has_terminated' and not t.ast.args:
                        # the tape tested must be the one that was run: same reaching defs
                        d_run = {d[0].id for d in cfg.defs_reaching(tname, n)} \
                            if callee.name != 'run_script' else {n.id}
                        d_test = {d[0].id for d in cfg.defs_reaching(tname, t)}
                        if d_test == d_run:
                            edges += [(t, s, lab) for s, lab in t.succ if lab is True]
            # every path from the run to the verdict / to the next run passes the true edge
            dsts = [rn] + [m for m, _, _ in tape_runs if m is not n] + [n]
            ok = bool(edges)
            for d in dsts:
                if d is n:
                    # next iteration of the same site
                    succs = [s for s, lab in n.succ if lab != 'exc']
                    for s in succs:
                        if not cfg.must_pass(s, n, through_edges=edges):
                            ok = False
                elif cfg.reaches(n, d) and not cfg.must_pass(n, d, through_edges=edges):
                    ok = False
            rep.check('C01.R3', f'functions.run_auth_scripts|has_terminated|{callee.name}@'
                      f'{"loop" if any(_enclosing_loops(cfg, n)) else "first"}', ok,
                      line=n.line, file=rel,
                      why='' if ok else f'no has_terminated() guard on the tape run by '
                                        f'`{ast.unparse(n.ast)[:50]}` before the verdict/next script')

    # ---- R4 ---------------------------------------------------------------
    loop_runs = [(n, c) for n, c, cal in run_sites if cal.name == 'run_tape'
                 and any(_enclosing_loops(cfg, n))]
    first_runs = [(n, c) for n, c, cal in run_sites if cal.name == 'run_script']
    if not loop_runs or not first_runs:
        raise AnalysisError('run_auth_scripts: first-script / loop run sites not recognised')
    for n, call in loop_runs:
        loop = _enclosing_loops(cfg, n)[-1]
        kt = kinds.of(call.args[0], n)
        leaves = kt.leaves()
        fresh = len(leaves) == 1 and leaves[0].tag == 'new' and leaves[0].cls == 'Tape'
        why = ''
        if not fresh:
            why = 'tape passed to run_tape is not a Tape constructed in this function'
        else:
            new = leaves[0]
            ctor = new.node
            inside = _within(loop, ctor)
            if not inside:
                fresh = False
                why = 'the Tape is constructed outside the per-script loop (shared between scripts)'
            else:
                data = new.args[0] if new.args else new.kws.get('data')
                lv = set(_names(loop.target))
                if data is None or not _mentions_elem(data, loop):
                    fresh = False
                    why = 'tape data does not come from the loop\'s script'
                ptr = new.kws.get('pointer') or (new.args[1] if len(new.args) > 1 else None)
                if ptr is not None and not (ptr.tag == 'const' and ptr.value == 0):
                    fresh = False
                    why = 'tape constructed with a non-zero pointer'
        rep.check('C01.R4', 'functions.run_auth_scripts|loop|fresh-tape', fresh, line=n.line,
                  file=rel, why=why)
        # shared stack and cache: same objects as the first script's
        for idx, nm in ((1, 'stack'), (2, 'cache')):
            a = call.args[idx] if len(call.args) > idx else None
            ok = False
            if isinstance(a, ast.Name):
                ka = kinds.of(a, n)
                lv = ka.leaves()
                ok = (len(lv) == 1 and lv[0].tag == 'unpack' and lv[0].index == idx
                      and lv[0].src.tag == 'call' and lv[0].src.name == 'run_script')
            rep.check('C01.R4', f'functions.run_auth_scripts|loop|shared-{nm}', ok, line=n.line,
                      file=rel, why='' if ok else
                      f'{nm} passed to run_tape is not the {nm} returned by the first run_script')
        # no pointer manipulation of the tape between construction and verdict
        bad = []
        for m in cfg.nodes:
            if m.ast is None:
                continue
            for ev in node_events(m):
                if ev[0] == 'store' and isinstance(ev[1], ast.Attribute) and ev[1].attr in ('pointer', 'data'):
                    bad.append(m)
                if ev[0] == 'call' and isinstance(ev[1].func, ast.Attribute) and \
                        ev[1].func.attr in ('reset_pointer', 'reset', 'move_pointer', 'read'):
                    bad.append(m)
        rep.check('C01.R4', 'functions.run_auth_scripts|no-pointer-writes', not bad,
                  line=bad[0].line if bad else n.line, file=rel,
                  why='' if not bad else f'run_auth_scripts manipulates a tape position: `{ast.unparse(bad[0].ast)[:60]}`')

    # the loop must iterate over every remaining script
    for n, call in loop_runs:
        loop = _enclosing_loops(cfg, n)[-1]
        hn = [x for x in cfg.nodes if x.kind == 'for' and x.ast is loop][0]
        ki = kinds.of(loop.iter, hn)
        ok = False
        why = 'loop does not iterate scripts[1:]'
        for leaf in ki.leaves():
            if leaf.tag == 'slice' and leaf.src.tag == 'param' and leaf.src.name == fi.params[0]:
                lo, hi = leaf.get('lower'), leaf.get('upper')
                if lo is not None and lo.tag == 'const' and lo.value == 1 and hi is None \
                        and len(ki.leaves()) == 1:
                    ok = True
        # and the loop body may not skip the run (continue / break before run_tape)
        if ok:
            for m in cfg.nodes:
                if m.kind == 'stmt' and isinstance(m.ast, (ast.Break, ast.Continue)):
                    ok = False
            body_first = [s for s, lab in hn.succ if lab == 'iter']
            for s in body_first:
                if not cfg.must_pass(s, hn, through_nodes=[n]) :
                    ok = False
                    why = 'a path through the loop body skips run_tape'
        rep.check('C01.R4', 'functions.run_auth_scripts|loop|all-scripts', ok, line=loop.lineno,
                  file=rel, why='' if ok else why)
    # first script is scripts[0]
    for n, call in first_runs:
        a0 = call.args[0] if call.args else None
        ok = (isinstance(a0, ast.Subscript) and isinstance(a0.value, ast.Name)
              and a0.value.id == fi.params[0] and isinstance(a0.slice, ast.Constant)
              and a0.slice.value == 0)
        if ok:
            d = cfg.defs_reaching(fi.params[0], n)
            ok = all(how == 'param' for _, how, _ in d)
        rep.check('C01.R4', 'functions.run_auth_scripts|first|scripts[0]', ok, line=n.line,
                  file=rel, why='' if ok else 'first script run is not scripts[0]')

    # ---- R5 wrappers ------------------------------------------------------
    wrap = repo.func('functions', 'run_auth_script')
    wc = w.cfg(wrap)
    rets = [n for n in wc.nodes if n.kind == 'stmt' and isinstance(n.ast, ast.Return)]
    ok = bool(rets)
    for r in rets:
        v = r.ast.value
        if not (isinstance(v, ast.Call) and isinstance(v.func, ast.Name)
                and v.func.id == 'run_auth_scripts'):
            ok = False
        else:
            a0 = v.args[0] if v.args else None
            if not (isinstance(a0, ast.List) and len(a0.elts) == 1
                    and isinstance(a0.elts[0], ast.Name) and a0.elts[0].id == wrap.params[0]):
                ok = False
    rep.check('C01.R5', 'functions.run_auth_script|delegates', ok, line=wrap.node.lineno, file=rel,
              why='' if ok else 'run_auth_script does not return run_auth_scripts([script], ...)')

    # ---- R6 primitives the verdict is computed with ------------------------------------------
    rep.rule('C01.R6', 'the primitives the verdict relies on mean what the checks assume: has_terminated is '
             'pointer >= len(data), len(stack) is the item count, Stack.get removes the top item, run_script returns '
             'the objects it ran, run_tape loops until its tape has terminated', floor=5)
    ht = repo.func('classes', 'Tape.has_terminated')
    rets = [n for n in ast.walk(ht.node) if isinstance(n, ast.Return)]
    ok = len(rets) == 1 and rets[0].value is not None
    if ok:
        try:
            eq = L.equivalent(L.formula(rets[0].value), L.formula(ast.parse('self.pointer >= len(self.data)', mode='eval').body))[0]
        except Exception:
            eq = False
        ok = eq
    rep.check('C01.R6', 'classes.Tape.has_terminated|pointer>=len(data)', ok, line=ht.node.lineno, file='tapescript/classes.py',
              why='' if ok else 'has_terminated is no longer exactly pointer >= len(data): a tape can count as finished '
              'with instructions left (or never finish)')
    ln = repo.func('classes', 'Stack.__len__')
    from .rules_c07 import _storage_attr
    storage = _storage_attr(w)
    rets = [n for n in ast.walk(ln.node) if isinstance(n, ast.Return)]
    ok = len(rets) == 1 and ast.unparse(rets[0].value).replace(' ', '') == f'len(self.{storage})'
    rep.check('C01.R6', 'classes.Stack.__len__|item-count', ok, line=ln.node.lineno, file='tapescript/classes.py',
              why='' if ok else 'len(stack) is no longer the number of items on the stack')
    gt = repo.func('classes', 'Stack.get')
    rets = [n for n in ast.walk(gt.node) if isinstance(n, ast.Return)]
    ok = len(rets) == 1 and ast.unparse(rets[0].value).replace(' ', '') == f'self.{storage}.pop()'
    rep.check('C01.R6', 'classes.Stack.get|pops-top', ok, line=gt.node.lineno, file='tapescript/classes.py',
              why='' if ok else 'Stack.get no longer removes and returns the most recently put item')
    rs = repo.func('functions', 'run_script')
    rcfg = w.cfg(rs)
    rk = w.kinds(rs)
    rets = [n for n in rcfg.nodes if n.kind == 'stmt' and isinstance(n.ast, ast.Return)]
    ok = len(rets) == 1 and isinstance(rets[0].ast.value, ast.Tuple) and len(rets[0].ast.value.elts) == 3
    if ok:
        runs = rcfg.nodes_with_call(lambda c: isinstance(c.func, ast.Name) and c.func.id == 'run_tape')
        ok = len(runs) == 1
        if ok:
            rn, rc = runs[0]
            for i, el in enumerate(rets[0].ast.value.elts):
                a = rc.args[i] if i < len(rc.args) else None
                if not (isinstance(el, ast.Name) and isinstance(a, ast.Name) and el.id == a.id):
                    ok = False
                elif {d[0].id for d in rcfg.defs_reaching(el.id, rets[0])} != {d[0].id for d in rcfg.defs_reaching(a.id, rn)}:
                    ok = False
    rep.check('C01.R6', 'functions.run_script|returns-what-it-ran', ok, line=rs.node.lineno, file=rel,
              why='' if ok else 'run_script does not return exactly the (tape, stack, cache) it passed to run_tape')
    rt = repo.func('functions', 'run_tape')
    loops = [n for n in ast.walk(rt.node) if isinstance(n, ast.While)]
    ok = len(loops) == 1 and ast.unparse(loops[0].test).replace(' ', '') == f'not{rt.params[0]}.has_terminated()' \
        and not any(isinstance(n, (ast.Break, ast.Return)) for n in ast.walk(loops[0])) \
        and not any(isinstance(n, ast.Try) for n in ast.walk(rt.node))
    rep.check('C01.R6', 'functions.run_tape|runs-until-terminated', ok, line=rt.node.lineno, file=rel,
              why='' if ok else 'run_tape can stop before its tape has terminated (break / return / swallowed exception '
              'inside the fetch loop)')

    from .report import depend
    depend(rep, w, 'rules_c06', ('C06.R6',), 'C01.TD6',
           'a DEF of a later script takes effect whatever earlier scripts defined (C06.R6 re-evaluated): an earlier definition cannot turn a later DEF into a no-op', floor=3)
    depend(rep, w, 'rules_c07', ('C07.R4b', 'C07.R4c'), 'C01.TD7',
           'the call budget is one budget for the whole list (documented: enforced across the total execution): each '
           'further tape continues from the count of the tape that ran last (C07.R4c re-evaluated)', floor=1)
    depend(rep, w, 'rules_c06', ('C06.R1', 'C06.R1b'), 'C01.TD1',
           'a script ends at its own explicit RETURN wherever it is issued: every construct that runs a sub-tape propagates '
           'or consumes the return flag as specified, with nothing that can raise in between (C06.R1/R1b re-evaluated)', floor=14)
    depend(rep, w, 'rules_c09', ('C09.R1',), 'C01.TD9',
           'the limits the caller configures reach the tape of every script and every sub-tape: a tape built without them '
           'runs under the default call-stack limit and the verdict changes (C09.R1 re-evaluated)', floor=20)
    depend(rep, w, 'rules_c07', ('C07.R1',), 'C01.TD71',
           'junk an earlier script left on the shared stack cannot silently fall off the bottom: the stack grows only '
           'through the checked put, whose guards are exact (C07.R1 re-evaluated)', floor=12)
    rep.explanation = (
        'Decides the structural clauses of C01: (R1) typestate proof that the RETURN control '
        'flag is clear when each later script starts, so state left by an earlier script '
        'cannot make IF/TRY/EVAL/CALL of a later script terminate it; (R2) catch-all '
        'completeness, so the function returns False instead of raising; (R3) dominance of '
        'return True by the three checks, exact comparison constants; (R4) tape freshness and '
        'sharing. Not decided: that each of the 92 handlers raises exactly on invalid scripts. '
        'Note: the three verdict checks are `assert` statements and vanish under python -O '
        '(interpreter flags are outside the quantified configurations).')
    rep.assumptions += [
        'C06.R1 (checked separately) holds, so the only skip mechanisms are the return flag and '
        'tape.pointer',
        'python is not run with -O (the verdict checks are assert statements)',
    ]


def _pure_validation_expr(e: ast.AST) -> bool:
    """Only builtin predicates / constructors over names: type(x), len(x), all([... for ..]), isinstance(..)."""
    PURE = {'type', 'len', 'all', 'any', 'isinstance', 'bool', 'tuple', 'list', 'issubclass'}
    for n in ast.walk(e):
        if isinstance(n, ast.Call):
            if not (isinstance(n.func, ast.Name) and n.func.id in PURE):
                return False
        elif isinstance(n, (ast.Subscript, ast.BinOp, ast.Await, ast.Yield, ast.Lambda)):
            return False
        elif isinstance(n, ast.Attribute):
            return False
    return True


def _stmt_may_raise(s: ast.stmt) -> bool:
    for n in ast.walk(s):
        if isinstance(n, (ast.Call, ast.Subscript, ast.Raise, ast.Assert, ast.BinOp,
                          ast.Delete, ast.For, ast.comprehension)):
            return True
        if isinstance(n, ast.Attribute) and isinstance(n.ctx, ast.Load):
            return True
    return False


def _enclosing_loops(cfg, node):
    """For-statements lexically containing the node (outermost first)."""
    return [l for l in cfg.loops_around(node) if isinstance(l, ast.For)]


def _within(container: ast.AST, node: ast.AST) -> bool:
    ln = getattr(node, 'lineno', None)
    for x in ast.walk(container):
        if x is node:
            return True
    # the kinds engine hands back nodes of the same (copied) tree, identity works; fall
    # back to line span for safety
    if ln is not None and hasattr(container, 'end_lineno'):
        return container.lineno <= ln <= container.end_lineno
    return False


def _names(t):
    return [n.id for n in ast.walk(t) if isinstance(n, ast.Name)]


def _mentions_elem(k: K, loop: ast.For) -> bool:
    for x in k.walk():
        if x.tag == 'elem' and x.get('node') is loop:
            return True
    return False


def _unpack_name(n, idx):
    a = n.ast
    if isinstance(a, ast.Assign) and len(a.targets) == 1 and isinstance(a.targets[0], ast.Tuple):
        e = a.targets[0].elts
        if len(e) > idx and isinstance(e[idx], ast.Name):
            return e[idx].id
    return None
