"""C17 - adapter signatures (narrow): maker <-> checker agreement on the Fiat-Shamir challenge input."""
from __future__ import annotations
import ast
import copy
from .report import Report, AnalysisError
from .summary import World
from .model import dotted

LEVEL = 'other'
REL = 'tapescript/functions.py'


def _inline(fi, e: ast.AST, depth=8) -> ast.AST:
    """Substitute single-assignment locals by their definitions (down to stack pops / library calls)."""
    defs = {}
    for st in fi.node.body:
        if isinstance(st, ast.Assign) and len(st.targets) == 1 and isinstance(st.targets[0], ast.Name):
            defs.setdefault(st.targets[0].id, []).append(st.value)

    class T(ast.NodeTransformer):
        def __init__(self, d):
            self.d = d

        def visit_Name(self, n):
            if isinstance(n.ctx, ast.Load) and n.id in defs and len(defs[n.id]) == 1 and self.d > 0:
                v = defs[n.id][0]
                if isinstance(v, ast.Call) and dotted(v.func) and dotted(v.func).endswith('.get'):
                    return ast.Name(id=f'<pop:{n.id}>', ctx=ast.Load())
                return T(self.d - 1).visit(copy.deepcopy(v))
            return n
    return T(depth).visit(copy.deepcopy(e))


class _Challenge:
    """`clamp_scalar(H_small(a, b, c))`, the hash possibly computed into a local first."""

    def __init__(self, clamp_call, hash_call):
        self.node = clamp_call
        self.hash = hash_call
        self.lineno = clamp_call.lineno
        self.args = [hash_call]          # same shape as the plain nested call


def _challenges(fi):
    """All `clamp_scalar(H_small(a, b, c))` expressions of the handler."""
    defs = {}
    for st in fi.node.body:
        if isinstance(st, ast.Assign) and len(st.targets) == 1 and isinstance(st.targets[0], ast.Name):
            defs.setdefault(st.targets[0].id, []).append(st.value)
    out = []
    for n in ast.walk(fi.node):
        if isinstance(n, ast.Call) and dotted(n.func) == 'clamp_scalar' and n.args:
            a = n.args[0]
            hops = 0
            while isinstance(a, ast.Name) and len(defs.get(a.id, [])) == 1 and hops < 4:
                a = defs[a.id][0]
                hops += 1
            if isinstance(a, ast.Call) and dotted(a.func) == 'H_small' and len(a.args) == 3:
                out.append(_Challenge(n, a))
    return out


def _shape(e: ast.AST) -> str:
    """Outermost constructor of a term with its arity: aggregate_points/2, derive_point_from_scalar/1, <pop>."""
    if isinstance(e, ast.Call):
        nm = (dotted(e.func) or '?').split('.')[-1]
        if nm == 'aggregate_points' and e.args and isinstance(e.args[0], (ast.Tuple, ast.List)):
            return f'aggregate_points/{len(e.args[0].elts)}'
        return f'{nm}/{len(e.args)}'
    if isinstance(e, ast.Name):
        return 'pop' if e.id.startswith('<pop:') else 'name'
    return type(e).__name__


def run(w: World, rep: Report):
    rep.rule('C17.R1', 'the Fiat-Shamir challenge of both adapter makers hashes the same term shape as the checker: '
             'an aggregate of nonce point and tweak point, the signer key, the message', floor=3)
    rep.rule('C17.R2', 'decryption adds the tweak: it puts exactly RT = R + T (popped R, T derived from popped t) and s = sa + t, computed from the popped operands on every path', floor=3)
    chk = w.handler_for('OP_CHECK_ADAPTER_SIG')
    mk_pub = w.handler_for('OP_MAKE_ADAPTER_SIG_PUBLIC')
    mk_prv = w.handler_for('OP_MAKE_ADAPTER_SIG_PRIVATE')
    dec = w.handler_for('OP_DECRYPT_ADAPTER_SIG')
    ref = _challenges(chk)
    if len(ref) != 1:
        raise AnalysisError('OP_CHECK_ADAPTER_SIG: challenge expression not found')
    ref_args = [_inline(chk, a) for a in ref[0].args[0].args]
    ref_shape = [_shape(a) for a in ref_args]
    # the checker itself: first input must aggregate two points
    ok = ref_shape[0] == 'aggregate_points/2'
    rep.check('C17.R1', f'functions.{chk.name}|challenge-input', ok, line=chk.node.lineno, file=REL,
              why='' if ok else f'the checker hashes {ref_shape[0]} as nonce input, expected the aggregate R + T',
              facts={'shape': ref_shape})
    for mk in (mk_pub, mk_prv):
        rep.covered('handlers', mk.name)
        ch = _challenges(mk)
        # the challenge is the one multiplied with the private scalar
        used = []
        for c in ch:
            for n in ast.walk(mk.node):
                if isinstance(n, ast.Assign) and n.value is c.node and isinstance(n.targets[0], ast.Name):
                    var = n.targets[0].id
                    for m in ast.walk(mk.node):
                        if isinstance(m, ast.Call) and (dotted(m.func) or '').endswith('scalar_mul') and \
                                any(isinstance(a, ast.Name) and a.id == var for a in m.args):
                            used.append(c)
        if len(used) != 1:
            raise AnalysisError(f'{mk.name}: challenge multiplied with the signing scalar not found')
        args = [_inline(mk, a) for a in used[0].args[0].args]
        shape = [_shape(a) for a in args]
        # compare modulo "popped vs derived": point-valued leaves count as the same role
        def norm(s):
            return 'point' if s in ('pop', 'derive_point_from_scalar/1') else s
        ok = [norm(s) for s in shape] == [norm(s) for s in ref_shape]
        why = ''
        if not ok:
            why = (f'{mk.name} hashes ({", ".join(shape)}) into its challenge while OP_CHECK_ADAPTER_SIG hashes '
                   f'({", ".join(ref_shape)}): the adapter it makes cannot pass the adapter check')
        rep.check('C17.R1', f'functions.{mk.name}|challenge-input', ok, line=used[0].lineno, file=REL, why=why,
                  facts={'maker': shape, 'checker': ref_shape})
    # R2: what decryption puts, on every path (kinds of the put arguments)
    cfg = w.cfg(dec)
    kinds = w.kinds(dec)
    stack = dec.params[1]
    puts = cfg.nodes_with_call(lambda c: dotted(c.func) == f'{stack}.put' and len(c.args) == 1)

    def is_pop(k):
        if k.tag == 'stack_item':
            return True
        # a popped scalar, clamped
        return k.tag == 'call' and k.name == 'clamp_scalar' and len(k.args) >= 1 and \
            all(x.tag == 'stack_item' for x in k.args[0].leaves())

    def pop_ids(k):
        if k.tag == 'stack_item':
            return {id(k.node)}
        return {id(x.node) for x in k.args[0].leaves()}

    def leaf_kind(l):
        nm = l.name if l.tag == 'call' else (l.method if l.tag == 'mcall' else '')
        if (nm or '').endswith('scalar_add') and len(l.args) == 2 and \
                all(all(is_pop(x) for x in a.leaves()) for a in l.args):
            pops = set()
            for a in l.args:
                for x in a.leaves():
                    pops |= pop_ids(x)
            return 's' if len(pops) == 2 else 'bad:the two summands are the same item'
        if l.tag == 'call' and l.name == 'aggregate_points' and len(l.args) == 1 and l.args[0].tag in ('tuple', 'list') \
                and len(l.args[0].elts) == 2:
            roles = []
            for e in l.args[0].elts:
                for x in e.leaves():
                    if is_pop(x):
                        roles.append('pop')
                    elif x.tag == 'call' and x.name == 'derive_point_from_scalar' and x.args and \
                            all(is_pop(y) for y in x.args[0].leaves()):
                        roles.append('derived')
                    else:
                        roles.append(x.tag)
            return 'RT' if sorted(roles) == ['derived', 'pop'] else f'bad:aggregate of {roles}'
        return f'bad:{l.tag}' + (f' {kinds.path(l)}' if kinds.path(l) else '')
    got = []
    for n, c in puts:
        ks = [leaf_kind(l) for l in kinds.of(c.args[0], n).leaves()]
        got.append((n, ks))
    s_ok = any(ks and all(k == 's' for k in ks) for _, ks in got)
    rt_ok = any(ks and all(k == 'RT' for k in ks) for _, ks in got)
    bad = [(n, k) for n, ks in got for k in ks if k.startswith('bad:')]
    rep.check('C17.R2', f'functions.{dec.name}|s=sa+t', s_ok, line=dec.node.lineno, file=REL,
              why='' if s_ok else 'no put of (popped scalar + popped scalar) on every path: the decrypted scalar is not sa + t')
    rep.check('C17.R2', f'functions.{dec.name}|RT=R+T', rt_ok, line=dec.node.lineno, file=REL,
              why='' if rt_ok else 'no put of aggregate(popped R, point derived from popped t) on every path: the decrypted '
              'nonce is not R + T' + (f' ({bad[0][1][4:]})' if bad else ''))
    rep.check('C17.R2', f'functions.{dec.name}|puts-only-those', not bad and len(puts) == 2, line=dec.node.lineno, file=REL,
              why='' if (not bad and len(puts) == 2) else
              (f'a value put by decryption is {bad[0][1][4:]} on some path (line {bad[0][0].line}): the result must be '
               f'computed from the popped operands alone' if bad else f'{len(puts)} puts (expected RT and s)'))
    # R3: the adapter instructions compute from their operands only - they never read the cache
    rep.rule('C17.R3', 'adapter-signature instructions read nothing from the cache (they only write their documented '
             'keys): results depend on the popped operands alone', floor=4)
    for h in (chk, mk_pub, mk_prv, dec):
        cachep = h.params[2]
        reads = []
        for n in ast.walk(h.node):
            if isinstance(n, ast.Subscript) and isinstance(n.ctx, ast.Load) and isinstance(n.value, ast.Name) and \
                    n.value.id == cachep:
                reads.append(n)
            if isinstance(n, ast.Call) and isinstance(n.func, ast.Attribute) and isinstance(n.func.value, ast.Name) and \
                    n.func.value.id == cachep and n.func.attr in ('get', 'pop', 'setdefault', 'items', 'values', 'keys', 'copy'):
                reads.append(n)
            if isinstance(n, ast.Compare) and any(isinstance(o, (ast.In, ast.NotIn)) for o in n.ops) and \
                    any(isinstance(c, ast.Name) and c.id == cachep for c in n.comparators):
                reads.append(n)
        rep.check('C17.R3', f'functions.{h.name}|no-cache-read', not reads, line=reads[0].lineno if reads else h.node.lineno,
                  file=REL, why='' if not reads else f'`{ast.unparse(reads[0])[:50]}`: a value left in the cache by an '
                  f'earlier instruction (another adapter with the same nonce point) flows into the result')
    # R4: point / scalar aggregation folds every element it is given
    rep.rule('C17.R4', 'aggregate_points / aggregate_scalars fold every element of their argument (no de-duplication, '
             'filtering or reordering: P + P is 2P)', floor=2)
    for name in ('aggregate_points', 'aggregate_scalars'):
        fi = w.repo.func('functions', name)
        seq = fi.params[0]
        why = ''
        for n in ast.walk(fi.node):
            if isinstance(n, ast.Assign) and any(isinstance(t, ast.Name) and t.id == seq for t in n.targets):
                v = n.value
                good = False
                if isinstance(v, ast.ListComp) and len(v.generators) == 1 and not v.generators[0].ifs and \
                        isinstance(v.generators[0].iter, ast.Name) and v.generators[0].iter.id == seq:
                    good = True
                if isinstance(v, ast.Call) and isinstance(v.func, ast.Name) and v.func.id in ('list', 'tuple') and \
                        len(v.args) == 1 and isinstance(v.args[0], ast.Name) and v.args[0].id == seq:
                    good = True
                if not good:
                    why = (f'`{seq} = {ast.unparse(v)[:60]}` (line {n.lineno}) is not an element-wise map of the argument: '
                           f'elements can be dropped, merged or reordered before the sum')
        folds = [n for n in ast.walk(fi.node) if isinstance(n, ast.For)]
        fold_ok = False
        for lp in folds:
            it = lp.iter
            txt = ast.unparse(it).replace(' ', '')
            body_txt = ''.join(ast.unparse(b) for b in lp.body)
            if 'add' not in body_txt:
                continue
            if txt == f'range(1,len({seq}))' and any(
                    isinstance(n, ast.Assign) and ast.unparse(n.value).replace(' ', '') == f'{seq}[0]' for n in ast.walk(fi.node)):
                fold_ok = True
            if txt == f'{seq}[1:]' and any(
                    isinstance(n, ast.Assign) and ast.unparse(n.value).replace(' ', '') == f'{seq}[0]' for n in ast.walk(fi.node)):
                fold_ok = True
        if not why and not fold_ok:
            why = f'the summation loop does not run over all of `{seq}` (first element as start, the rest added)'
        rep.check('C17.R4', f'functions.{name}|folds-every-element', not why, line=fi.node.lineno, file=REL, why=why)
    from .rules_templates import sigfields_plumbed
    sigfields_plumbed(w, rep, 'C17.R5')
    # every parameter of the adapter builders reaches what they build (a dropped sigflags builds a lock for flags 00)
    rep.rule('C17.R6', 'adapter builders use every parameter they take (sigflags reaches the locks they delegate to)', floor=5)
    for fi in w.repo.all_funcs(['tools']):
        if fi.parent is not None or fi.cls is not None or 'adapter' not in fi.name:
            continue
        used = {x.id for x in ast.walk(fi.node) if isinstance(x, ast.Name) and isinstance(x.ctx, ast.Load)}
        unused = [p for p in fi.params if p not in used]
        rep.check('C17.R6', f'tools.{fi.name}|parameters-used', not unused, line=fi.node.lineno, file='tapescript/tools.py',
                  why='' if not unused else f'parameter(s) {unused} of {fi.name} are never used: the caller\'s choice (e.g. '
                  f'sigflags) does not reach the scripts built - lock and witness are made for different flags')
    # R7: the checker and the decrypter use the popped adapter operands as they are.  clamp_scalar truncates to 32
    # bytes and sets / clears bits: an altered (over-long) `sa` would be accepted by the check although decryption
    # refuses it; slicing a popped operand does the same.
    rep.rule('C17.R7', 'OP_CHECK_ADAPTER_SIG does not normalise its popped operands (no clamp_scalar, no truncating '
             'slice of a stack item; the decrypter clamps only the tweak scalar it is documented to clamp)', floor=1)
    for op in ('OP_CHECK_ADAPTER_SIG',):
        fi = w.handler_for(op)
        cfg = w.cfg(fi)
        kinds = w.kinds(fi)
        bad = ''
        for nd, c in cfg.nodes_with_call(lambda c: isinstance(c.func, ast.Name) and c.func.id == 'clamp_scalar' and c.args):
            k = kinds.of(c.args[0], nd)
            if all(l.tag == 'stack_item' for l in k.leaves()):
                bad = f'`{ast.unparse(c)[:40]}` normalises a popped operand'
        for nd in cfg.nodes:
            if nd.ast is None or nd.kind == 'except':
                continue
            for x in ast.walk(nd.ast):
                if isinstance(x, ast.Subscript) and isinstance(x.slice, ast.Slice) and isinstance(x.ctx, ast.Load):
                    try:
                        k = kinds.of(x.value, nd)
                    except Exception:
                        continue
                    if k.leaves() and all(l.tag == 'stack_item' for l in k.leaves()):
                        bad = bad or f'`{ast.unparse(x)[:40]}` cuts a popped operand'
        rep.check('C17.R7', f'functions.{fi.name}|operands-used-as-popped', not bad, line=fi.node.lineno, file=REL,
                  why='' if not bad else bad + ': an altered operand (extra bytes, changed high bits) passes the check while '
                  'the value it stands for cannot be decrypted to a signature')
    # R8: the adapter helpers of tools.py take their results from the stack.  The cache entries b'RT', b's', b'sa', ..
    # are written only under optional flags (7, 9, 8 ..): a helper that reads them fails when the embedder turned the
    # flag off
    rep.rule('C17.R8', 'adapter helpers in tools.py do not read the optional (flag-controlled) cache entries of the adapter '
             'instructions', floor=3)
    tm = w.repo.module('tools')
    for fn in [f for f in tm.tree.body if isinstance(f, ast.FunctionDef) and 'adapter' in f.name]:
        rd = [x for x in ast.walk(fn) if isinstance(x, ast.Subscript) and isinstance(x.slice, ast.Constant) and
              isinstance(x.slice.value, bytes) and isinstance(x.ctx, ast.Load)]
        rep.check('C17.R8', f'tools.{fn.name}|results-from-the-stack', not rd, line=rd[0].lineno if rd else fn.lineno,
                  file='tapescript/tools.py', trivial=not rd,
                  why='' if not rd else f'`{ast.unparse(rd[0])[:30]}` is written by the instruction only when its flag is set: with '
                  f'the flag off the helper raises KeyError instead of returning the documented result')
    from .rules_templates import sigflags_forwarded
    sigflags_forwarded(w, rep, 'C17.R9')
    rep.explanation = (
        'Narrow: decides only a necessary condition of "the adapter passes the adapter check" - that both makers '
        'feed the Fiat-Shamir hash the same term shape as the checker (aggregate of nonce point and tweak point, '
        'key, message) - and the shape of decryption. The scheme\'s identities for all scalars, clamping edge cases '
        'and corruption soundness are group algebra through opaque libsodium calls and are not decided.')
