"""C17 - adapter signatures (narrow): maker <-> checker agreement on the Fiat-Shamir challenge input."""
from __future__ import annotations
import ast
import copy
from .report import Report, AnalysisError
from .summary import World
from .model import dotted

LEVEL = 'other'
REL = 'tapescript/functions.py'


def _inline(fi, e: ast.AST, depth=8) -> ast.AST:
    """Substitute single-assignment locals by their definitions (down to stack pops / library calls)."""
    defs = {}
    for st in fi.node.body:
        if isinstance(st, ast.Assign) and len(st.targets) == 1 and isinstance(st.targets[0], ast.Name):
            defs.setdefault(st.targets[0].id, []).append(st.value)

    class T(ast.NodeTransformer):
        def __init__(self, d):
            self.d = d

        def visit_Name(self, n):
            if isinstance(n.ctx, ast.Load) and n.id in defs and len(defs[n.id]) == 1 and self.d > 0:
                v = defs[n.id][0]
                if isinstance(v, ast.Call) and dotted(v.func) and dotted(v.func).endswith('.get'):
                    return ast.Name(id=f'<pop:{n.id}>', ctx=ast.Load())
                return T(self.d - 1).visit(copy.deepcopy(v))
            return n
    return T(depth).visit(copy.deepcopy(e))


def _challenges(fi):
    """All `clamp_scalar(H_small(a, b, c))` expressions of the handler."""
    out = []
    for n in ast.walk(fi.node):
        if isinstance(n, ast.Call) and dotted(n.func) == 'clamp_scalar' and n.args and \
                isinstance(n.args[0], ast.Call) and dotted(n.args[0].func) == 'H_small' and len(n.args[0].args) == 3:
            out.append(n)
    return out


def _shape(e: ast.AST) -> str:
    """Outermost constructor of a term with its arity: aggregate_points/2, derive_point_from_scalar/1, <pop>."""
    if isinstance(e, ast.Call):
        nm = (dotted(e.func) or '?').split('.')[-1]
        if nm == 'aggregate_points' and e.args and isinstance(e.args[0], (ast.Tuple, ast.List)):
            return f'aggregate_points/{len(e.args[0].elts)}'
        return f'{nm}/{len(e.args)}'
    if isinstance(e, ast.Name):
        return 'pop' if e.id.startswith('<pop:') else 'name'
    return type(e).__name__


def run(w: World, rep: Report):
    rep.rule('C17.R1', 'the Fiat-Shamir challenge of both adapter makers hashes the same term shape as the checker: '
             'an aggregate of nonce point and tweak point, the signer key, the message', floor=3)
    rep.rule('C17.R2', 'decryption adds the tweak: s = sa + t and nonce RT = R + T', floor=2)
    chk = w.handler_for('OP_CHECK_ADAPTER_SIG')
    mk_pub = w.handler_for('OP_MAKE_ADAPTER_SIG_PUBLIC')
    mk_prv = w.handler_for('OP_MAKE_ADAPTER_SIG_PRIVATE')
    dec = w.handler_for('OP_DECRYPT_ADAPTER_SIG')
    ref = _challenges(chk)
    if len(ref) != 1:
        raise AnalysisError('OP_CHECK_ADAPTER_SIG: challenge expression not found')
    ref_args = [_inline(chk, a) for a in ref[0].args[0].args]
    ref_shape = [_shape(a) for a in ref_args]
    # the checker itself: first input must aggregate two points
    ok = ref_shape[0] == 'aggregate_points/2'
    rep.check('C17.R1', f'functions.{chk.name}|challenge-input', ok, line=chk.node.lineno, file=REL,
              why='' if ok else f'the checker hashes {ref_shape[0]} as nonce input, expected the aggregate R + T',
              facts={'shape': ref_shape})
    for mk in (mk_pub, mk_prv):
        rep.covered('handlers', mk.name)
        ch = _challenges(mk)
        # the challenge is the one multiplied with the private scalar
        used = []
        for c in ch:
            for n in ast.walk(mk.node):
                if isinstance(n, ast.Assign) and n.value is c and isinstance(n.targets[0], ast.Name):
                    var = n.targets[0].id
                    for m in ast.walk(mk.node):
                        if isinstance(m, ast.Call) and (dotted(m.func) or '').endswith('scalar_mul') and \
                                any(isinstance(a, ast.Name) and a.id == var for a in m.args):
                            used.append(c)
        if len(used) != 1:
            raise AnalysisError(f'{mk.name}: challenge multiplied with the signing scalar not found')
        args = [_inline(mk, a) for a in used[0].args[0].args]
        shape = [_shape(a) for a in args]
        # compare modulo "popped vs derived": point-valued leaves count as the same role
        def norm(s):
            return 'point' if s in ('pop', 'derive_point_from_scalar/1') else s
        ok = [norm(s) for s in shape] == [norm(s) for s in ref_shape]
        why = ''
        if not ok:
            why = (f'{mk.name} hashes ({", ".join(shape)}) into its challenge while OP_CHECK_ADAPTER_SIG hashes '
                   f'({", ".join(ref_shape)}): the adapter it makes cannot pass the adapter check')
        rep.check('C17.R1', f'functions.{mk.name}|challenge-input', ok, line=used[0].lineno, file=REL, why=why,
                  facts={'maker': shape, 'checker': ref_shape})
    # R2
    s_ok = rt_ok = False
    for n in ast.walk(dec.node):
        if isinstance(n, ast.Call) and (dotted(n.func) or '').endswith('crypto_core_ed25519_scalar_add'):
            names = sorted(ast.unparse(a) for a in n.args)
            if names == ['sa', 't']:
                s_ok = True
        if isinstance(n, ast.Call) and dotted(n.func) == 'aggregate_points' and n.args and \
                isinstance(n.args[0], (ast.Tuple, ast.List)):
            names = sorted(ast.unparse(a) for a in n.args[0].elts)
            if names == ['R', 'T']:
                rt_ok = True
    rep.check('C17.R2', f'functions.{dec.name}|s=sa+t', s_ok, line=dec.node.lineno, file=REL,
              why='' if s_ok else 'the decrypted scalar is not sa + t')
    rep.check('C17.R2', f'functions.{dec.name}|RT=R+T', rt_ok, line=dec.node.lineno, file=REL,
              why='' if rt_ok else 'the decrypted nonce is not R + T')
    rep.explanation = (
        'Narrow: decides only a necessary condition of "the adapter passes the adapter check" - that both makers '
        'feed the Fiat-Shamir hash the same term shape as the checker (aggregate of nonce point and tweak point, '
        'key, message) - and the shape of decryption. The scheme\'s identities for all scalars, clamping edge cases '
        'and corruption soundness are group algebra through opaque libsodium calls and are not decided.')
