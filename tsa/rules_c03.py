"""C03 - multisig passes only with m valid signatures from m different listed keys (structural clauses)."""
from __future__ import annotations
import ast
from .report import Report, AnalysisError
from .summary import World, node_events, tape_reads
from .model import dotted
from .kinds import K
from .rules_c12 import norm_token

LEVEL = 'other'
REL = 'tapescript/functions.py'


def run(w: World, rep: Report):
    rep.rule('C03.R1', 'a matched key is consumed before the next signature is examined', floor=1)
    rep.rule('C03.R2', 'true is put only when the number of confirmed signatures equals m', floor=3)
    rep.rule('C03.R3', 'operand order (flags, m, n): n keys are popped first, then m signatures; compiler and '
             'decompiler use the same order', floor=4)
    rep.rule('C03.R4', 'the inner OP_CHECK_SIG receives a tape holding the allowed-flags operand byte, rewound '
             'before each call', floor=2)
    fi = w.handler_for('OP_CHECK_MULTISIG')
    cfg = w.cfg(fi)
    kinds = w.kinds(fi)
    tape, stack, cache = fi.params[:3]
    rep.covered('handlers', fi.name)
    # reads: three one-byte operands
    reads = tape_reads(w, fi)
    ok = len(reads) == 1 and [norm_token(r) for r in reads[0]] == ['1', '1', '1']
    rep.check('C03.R3', f'functions.{fi.name}|three-one-byte-operands', ok, line=fi.node.lineno, file=REL,
              why='' if ok else 'OP_CHECK_MULTISIG does not read three one-byte operands')
    if not ok:
        for r in ('C03.R1', 'C03.R2', 'C03.R3', 'C03.R4'):
            rep.rules[r]['floor'] = 0
        return
    r_flags, r_m, r_n = reads[0]
    # which locals hold m and n
    mvar = nvar = flag_tape = None

    def _reads_in(k):
        return [x.node for x in k.walk() if x.tag == 'tape_read']
    for n in cfg.nodes:
        if n.kind == 'stmt' and isinstance(n.ast, ast.Assign) and isinstance(n.ast.targets[0], ast.Name):
            kv = kinds.of(n.ast.value, n)
            rd = _reads_in(kv)
            # the integer decoded from the m / n operand; the Tape built over the flags operand
            if any(l.tag in ('uint', 'sint', 'index') for l in kv.leaves()):
                if any(x is r_m.node for x in rd):
                    mvar = n.ast.targets[0].id
                if any(x is r_n.node for x in rd):
                    nvar = n.ast.targets[0].id
            if any(l.tag == 'new' and l.cls == 'Tape' for l in kv.leaves()) and any(x is r_flags.node for x in rd):
                flag_tape = n.ast.targets[0].id
    # pops: comprehension over range(n) first, then range(m)
    pops = []
    for n in cfg.nodes:
        if n.kind == 'stmt' and isinstance(n.ast, ast.Assign) and isinstance(n.ast.value, ast.ListComp):
            lc = n.ast.value
            g = lc.generators[0]
            if dotted(lc.elt.func) == f'{stack}.get' if isinstance(lc.elt, ast.Call) else False:
                if isinstance(g.iter, ast.Call) and dotted(g.iter.func) == 'range' and len(g.iter.args) == 1 and \
                        isinstance(g.iter.args[0], ast.Name):
                    pops.append((n.ast.targets[0].id, g.iter.args[0].id, n))
    ok = len(pops) == 2 and pops[0][1] == nvar and pops[1][1] == mvar
    rep.check('C03.R3', f'functions.{fi.name}|pop-n-keys-then-m-signatures', ok, line=fi.node.lineno, file=REL,
              why='' if ok else f'items are popped as {[(p[0], p[1]) for p in pops]}; expected n keys (third operand) then '
              f'm signatures (second operand)')
    if not ok:
        for r in ('C03.R1', 'C03.R2', 'C03.R3', 'C03.R4'):
            rep.rules[r]['floor'] = 0      # the remaining rules need the (keys, signatures) lists identified
        return
    keys_var, sigs_var = pops[0][0], pops[1][0]
    # decompiler prints in read order; compiler emits in source order
    from .rules_c12 import dec_arms, arm_reads
    dfi, dcfg, dk, tape_var, ctor, m, arms = dec_arms(w)
    for labels, body, case in arms:
        if 'OP_CHECK_MULTISIG' in labels:
            rd = arm_reads(dcfg, dk, body, tape_var)
            names = []
            for st in body:
                if isinstance(st, ast.Assign) and isinstance(st.targets[0], ast.Name):
                    names.append(st.targets[0].id)
            fmt = [x for st in body for x in ast.walk(st) if isinstance(x, ast.JoinedStr)]
            order = []
            if fmt:
                for v in fmt[0].values:
                    if isinstance(v, ast.FormattedValue) and isinstance(v.value, ast.Name) and v.value.id in names:
                        order.append(names.index(v.value.id))
            ok = order == [0, 1, 2]
            rep.check('C03.R3', 'parsing.decompile_script|OP_CHECK_MULTISIG|print-order', ok, line=case.pattern.lineno,
                      file='tapescript/parsing.py', why='' if ok else 'operands are not printed in the order they are read')
    ch = w.repo.func('parsing', '_get_OP_CHECK_MULTISIG_args')
    src_order = False
    for n in ast.walk(ch.node):
        if isinstance(n, ast.For) and isinstance(n.iter, ast.Name):
            # vals = symbols[:3]; for val in vals: ... args.append(..)
            for a in ast.walk(ch.node):
                if isinstance(a, ast.Assign) and isinstance(a.targets[0], ast.Name) and a.targets[0].id == n.iter.id \
                        and ast.unparse(a.value).replace(' ', '') == f'{ch.params[1]}[:3]':
                    src_order = True
    rep.check('C03.R3', 'parsing._get_OP_CHECK_MULTISIG_args|source-order', src_order, line=ch.node.lineno,
              file='tapescript/parsing.py', why='' if src_order else 'the three operands are not encoded in source order')

    # ---- loops ----------------------------------------------------------------
    outer = [n for n in cfg.nodes if n.kind == 'for' and isinstance(n.ast.iter, ast.Name) and n.ast.iter.id == sigs_var]
    if len(outer) > 1:
        # the matching loop is the one that runs the inner check; any other pass over the signatures is examined for
        # what it refuses: a guard on a signature's flag byte may refuse only flags the operand does not permit
        _cs = w.handler_for('OP_CHECK_SIG')
        main = [n for n in outer if any(isinstance(x, ast.Call) and isinstance(x.func, ast.Name) and x.func.id == _cs.name
                                        for x in ast.walk(n.ast))]
        extra = [n for n in outer if n not in main]
        from .feval import feval, Unknown, free_names
        import copy as _copy
        for lp in extra:
            el = lp.ast.target.id if isinstance(lp.ast.target, ast.Name) else None
            for g in [x for x in ast.walk(lp.ast) if isinstance(x, ast.Call) and cfg.exc.guard_class('functions', x) and x.args]:
                cond = _copy.deepcopy(g.args[0])

                class V(ast.NodeTransformer):
                    def visit_Subscript(self, n):
                        if isinstance(n.value, ast.Name) and n.value.id == el and ast.unparse(n.slice) in ('-1', '64'):
                            return ast.Name(id='flag__', ctx=ast.Load())
                        return self.generic_visit(n)
                cond = V().visit(cond)
                if 'flag__' not in free_names(cond):
                    continue
                # whatever else the condition mentions (a name, `subtape.data[0]`, ..) is the one other quantity
                texts = set()

                class O(ast.NodeTransformer):
                    def generic_visit(self, n):
                        if isinstance(n, (ast.Name, ast.Attribute, ast.Subscript, ast.Call)) and \
                                not any(isinstance(y, ast.Name) and y.id == 'flag__' for y in ast.walk(n)) and \
                                not (isinstance(n, ast.Name) and n.id in ('bool', 'int', 'len')):
                            texts.add(ast.unparse(n))
                            return ast.Name(id='allow__', ctx=ast.Load())
                        return super().generic_visit(n)
                cond = O().visit(cond)
                if len(texts) != 1:
                    continue
                av = 'allow__'
                cex = None
                try:
                    for a_ in [0, 0xFF] + [1 << b for b in range(8)] + [0x7B, 0x55]:
                        for v_ in range(256):
                            if (v_ & ~a_ & 0xFF) == 0 and not feval(cond, {'flag__': v_, av: a_}):
                                cex = (v_, a_)
                                break
                        if cex:
                            break
                except Unknown:
                    continue
                if cex:
                    rep.check('C03.R2', f'functions.{fi.name}|extra-pass-refuses-only-unpermitted-flags', False,
                              line=g.lineno, file=REL,
                              why=f'`{ast.unparse(g.args[0])[:50]}` refuses a signature whose flag byte {cex[0]:#04x} is permitted by '
                              f'the allowed-flags operand {cex[1]:#04x}: m valid signatures by m listed keys raise instead of '
                              f'yielding true')
        outer = main
    if len(outer) != 1:
        raise AnalysisError('OP_CHECK_MULTISIG: loop over the signatures not found')
    # the inner loop is the one (nested in the signature loop) that contains the inner check; the
    # collection it iterates is the *candidate set*
    cs0 = w.handler_for('OP_CHECK_SIG')
    def _iter_base(it):
        if isinstance(it, ast.Name):
            return it.id
        if isinstance(it, ast.Call) and isinstance(it.func, ast.Name) and it.func.id == 'enumerate' and it.args and \
                isinstance(it.args[0], ast.Name):
            return it.args[0].id
        return None
    inner = [n for n in cfg.nodes if n.kind == 'for' and _iter_base(n.ast.iter) is not None
             and any(a is outer[0].ast for a in cfg.ancestors(n.ast))
             and any(isinstance(x, ast.Call) and isinstance(x.func, ast.Name) and x.func.id == cs0.name
                     for x in ast.walk(n.ast))]
    if len(inner) != 1:
        raise AnalysisError('OP_CHECK_MULTISIG: inner loop over the candidate keys not found')
    inner = inner[0]
    sig_el = outer[0].ast.target.id
    idx_el = None
    if isinstance(inner.ast.target, ast.Name):
        key_el = inner.ast.target.id
    elif isinstance(inner.ast.target, ast.Tuple) and len(inner.ast.target.elts) == 2 and \
            all(isinstance(x, ast.Name) for x in inner.ast.target.elts) and isinstance(inner.ast.iter, ast.Call):
        idx_el, key_el = inner.ast.target.elts[0].id, inner.ast.target.elts[1].id
    else:
        raise AnalysisError('OP_CHECK_MULTISIG: inner loop target not recognised')
    cand_var = _iter_base(inner.ast.iter)
    # a candidate list rebuilt for every signature by filtering the popped keys against a used-set
    fcand = _filtered_candidates(cfg, outer[0], inner, cand_var, keys_var)
    if fcand is not None:
        space, used_var, why_f = fcand
        init_ok = any(n.kind == 'stmt' and isinstance(n.ast, ast.Assign) and isinstance(n.ast.targets[0], ast.Name)
                      and n.ast.targets[0].id == used_var and ast.unparse(n.ast.value).replace(' ', '') in ('set()', '[]', 'list()')
                      and not any(a is outer[0].ast for a in cfg.ancestors(n.ast)) for n in cfg.nodes)
        rep.check('C03.R1', f'functions.{fi.name}|candidates-start-as-all-keys', init_ok and not why_f, line=inner.line, file=REL,
                  why='' if (init_ok and not why_f) else (why_f or f'the used-set `{used_var}` is not empty before the first signature'))
    # the candidate set starts as the popped keys
    if cand_var != keys_var and fcand is None:
        d0 = [d for d in cfg.defs_reaching(cand_var, outer[0])
              if not any(a is outer[0].ast for a in cfg.ancestors(d[0].ast))]      # definitions before the loops
        starts_ok = bool(d0) and all(how == 'assign' and isinstance(pl, ast.AST) and ast.unparse(pl) in
                                     (keys_var, f'list({keys_var})', f'[*{keys_var}]', f'{keys_var}.copy()',
                                      f'{keys_var}[:]') for _, how, pl in d0)
        rep.check('C03.R1', f'functions.{fi.name}|candidates-start-as-all-keys', starts_ok, line=inner.line, file=REL,
                  why='' if starts_ok else f'the candidate set `{cand_var}` does not start as the popped keys')
    keys_var_orig = keys_var
    keys_var = cand_var
    # the check call
    cs = w.handler_for('OP_CHECK_SIG')
    calls = [(n, c) for n, c in cfg.nodes_with_call(lambda c: isinstance(c.func, ast.Name) and c.func.id == cs.name)]
    if len(calls) != 1:
        raise AnalysisError('OP_CHECK_MULTISIG: inner OP_CHECK_SIG call not found')
    cn, cc = calls[0]
    # R4: tape argument is the flag tape, rewound before the call in the same iteration
    ok = isinstance(cc.args[0], ast.Name) and cc.args[0].id == flag_tape
    k = kinds.of(cc.args[0], cn)
    ok = ok and all(l.tag == 'new' and l.cls == 'Tape' and l.args and l.args[0].tag == 'tape_read' for l in k.leaves())
    rep.check('C03.R4', f'functions.{fi.name}|inner-check-gets-flag-tape', ok, line=cn.line, file=REL,
              why='' if ok else 'the inner OP_CHECK_SIG is not given the tape built from the allowed-flags operand')
    resets = [n for n, c in cfg.nodes_with_call(lambda c: isinstance(c.func, ast.Attribute) and c.func.attr in
                                                 ('reset_pointer', 'reset') and dotted(c.func.value) == flag_tape)]
    ok = bool(resets) and cfg.must_pass(inner, cn, through_nodes=resets) and \
        all(any(a is inner.ast for a in cfg.ancestors(r.ast)) for r in resets)
    rep.check('C03.R4', f'functions.{fi.name}|flag-tape-rewound-each-time', ok, line=cn.line, file=REL,
              why='' if ok else 'the flag tape is not rewound before every inner OP_CHECK_SIG (only the first check would '
              'see the allowed flags; later ones would read past the end)')
    # the items pushed for the check are (sig, key) of the current iteration
    puts = [(n, c) for n, c in cfg.nodes_with_call(lambda c: dotted(c.func) == f'{stack}.put')
            if any(a is inner.ast for a in cfg.ancestors(n.ast))]
    pushed = [ast.unparse(c.args[0]) for n, c in puts if cfg.dominates(n, cn)]
    ok = pushed == [sig_el, key_el]
    rep.check('C03.R4', f'functions.{fi.name}|pushes-sig-then-key', ok, line=cn.line, file=REL,
              why='' if ok else f'the inner check is fed {pushed}, expected the current signature then the current key')

    # R1: on the success edge the key leaves the candidate set
    res_tests = []
    for t in cfg.nodes:
        if t.kind == 'test' and any(a is inner.ast for a in cfg.ancestors(t.ast)):
            kt = kinds.of(t.ast, t)
            lv = kt.leaves()
            # the boolean decoded from the item popped after the inner check
            def _is_pair_result(l):
                return l.tag == 'call' and l.name == 'bytes_to_bool' and l.args and \
                    all(x.tag == 'stack_item' and x.how == 'get' for x in l.args[0].leaves())
            if lv and any(_is_pair_result(l) for l in lv):
                res_tests.append(t)
                stale = [l for l in lv if not _is_pair_result(l)]
                if stale and isinstance(t.ast, ast.Name):
                    # a false default assigned *inside* the key loop (so in the same iteration) is not stale
                    stale = []
                    for dn, how, pl in cfg.defs_reaching(t.ast.id, t):
                        if how == 'assign' and isinstance(pl, ast.AST):
                            kd = kinds.of(pl, dn)
                            if all(_is_pair_result(l) for l in kd.leaves()):
                                continue
                            if isinstance(pl, ast.Constant) and not pl.value and \
                                    any(a is inner.ast for a in cfg.ancestors(dn.ast)):
                                continue
                            stale += list(kd.leaves())
                        else:
                            stale.append(K('unknown', why=how))
                rep.check('C03.R1', f'functions.{fi.name}|result-is-this-pair-check', not stale, line=t.line, file=REL,
                          why='' if not stale else
                          (f'the value tested after the inner check is not always the result of *this* check: on some path it is '
                           f'{", ".join(sorted({x.tag for x in stale}))} (set before the loop or left over from an earlier '
                           f'iteration, e.g. when the check raises and the error is swallowed) - a failed pair inherits the '
                           f'previous verdict and is counted as confirmed'))
    if not res_tests:
        # no test reads the item popped after the inner check.  If the branch that counts a signature is steered
        # by a value in which no popped stack item takes part at all (a memo, a cache entry, a flag set elsewhere),
        # that is the defect itself and is reported as such; anything else is a form this recogniser does not know.
        counting = [n for n, c in cfg.nodes_with_call(lambda c: isinstance(c.func, ast.Attribute) and
                                                       c.func.attr in ('add', 'append', 'remove', 'discard', 'pop'))
                    if any(a is inner.ast for a in cfg.ancestors(n.ast))
                    and not any(cfg.dominates(n, cn) for _ in [0])]
        for t in cfg.nodes:
            if t.kind != 'test' or not any(a is inner.ast for a in cfg.ancestors(t.ast)):
                continue
            # the innermost `if` around a counting statement
            holder = next((a for a in cfg.ancestors(t.ast) if isinstance(a, ast.If) and
                           (a.test is t.ast or any(x is t.ast for x in ast.walk(a.test)))), None)
            if holder is None:
                continue
            steered = [n for n in counting if next((a for a in cfg.ancestors(n.ast) if isinstance(a, ast.If)), None) is holder]
            if not steered:
                continue
            kt = kinds.of(t.ast, t)
            if not any(x.tag == 'stack_item' for x in kt.walk()):
                rep.check('C03.R1', f'functions.{fi.name}|result-is-this-pair-check', False, line=t.line, file=REL,
                          why=(f'the branch that counts a signature tests `{ast.unparse(t.ast)[:40]}`, a value in which the item '
                               f'popped after this iteration\'s OP_CHECK_SIG takes no part ({", ".join(sorted({x.tag for x in kt.leaves()}))}): '
                               f'a pair can be counted on the strength of an earlier check made under other allowed flags, '
                               f'another message or another run state'))
                return
    if len(res_tests) != 1:
        raise AnalysisError('OP_CHECK_MULTISIG: test of the inner check result not found')
    rt = res_tests[0]
    succ_true = [s for s, lab in rt.succ if lab is True]
    removal = []
    for n in cfg.nodes:
        for ev in node_events(n):
            if ev[0] == 'call' and isinstance(ev[1].func, ast.Attribute) and ev[1].func.attr in ('remove', 'discard') and \
                    dotted(ev[1].func.value) == keys_var and ev[1].args and ast.unparse(ev[1].args[0]) == key_el:
                removal.append(n)
            if ev[0] == 'del' and isinstance(ev[1], ast.Subscript) and dotted(ev[1].value) == keys_var:
                removal.append(n)
            if ev[0] == 'call' and isinstance(ev[1].func, ast.Attribute) and ev[1].func.attr == 'pop' and \
                    dotted(ev[1].func.value) == keys_var and ev[1].args:
                removal.append(n)
    # rebinding idiom: CAND = [k for k in CAND if k != matched]  (must filter the *current* candidates)
    bad_rebind = ''
    for n in cfg.nodes:
        if n.kind == 'stmt' and isinstance(n.ast, ast.Assign) and isinstance(n.ast.targets[0], ast.Name) and \
                n.ast.targets[0].id == keys_var and any(a is inner.ast for a in cfg.ancestors(n.ast)):
            v = n.ast.value
            good = False
            if isinstance(v, ast.ListComp) and len(v.generators) == 1 and isinstance(v.generators[0].iter, ast.Name):
                g = v.generators[0]
                filt = [ast.unparse(c).replace(' ', '') for c in g.ifs]
                tv = ast.unparse(g.target)
                if g.iter.id == keys_var and any(f in (f'{tv}!={key_el}', f'{tv}isnot{key_el}', f'{key_el}!={tv}')
                                                 for f in filt) and ast.unparse(v.elt) == tv:
                    good = True
                elif g.iter.id != keys_var:
                    bad_rebind = (f'after a match the candidate set is rebuilt from `{g.iter.id}` instead of from the '
                                  f'current candidates `{keys_var}`: keys consumed by earlier signatures become available '
                                  f'again')
            if good:
                removal.append(n)
    used_sets = _used_set_idiom(cfg, inner, key_el)
    space_why = ''
    if fcand is not None:
        space, used_var, _ = fcand
        used_sets, space_why = _used_adds(cfg, inner, used_var, space, key_el, idx_el, cand_var, keys_var_orig)
    elif idx_el is not None and cand_var == keys_var_orig:
        # `for i, k in enumerate(keys): if i in used: continue ... used.add(i)`
        for n, c in cfg.nodes_with_call(lambda c: isinstance(c.func, ast.Attribute) and c.func.attr in ('add', 'append')):
            if c.args and ast.unparse(c.args[0]) == idx_el and any(a is inner.ast for a in cfg.ancestors(n.ast)):
                coll = dotted(c.func.value)
                if any(t.kind == 'test' and ast.unparse(t.ast).replace(' ', '') in (f'{idx_el}in{coll}', f'{idx_el}notin{coll}')
                       and any(a is inner.ast for a in cfg.ancestors(t.ast)) for t in cfg.nodes):
                    used_sets.append(n)
    # every path from the success edge back to the outer loop head passes a removal (or used-set insertion)
    consume = removal + used_sets
    ok = bool(consume) and bool(succ_true) and all(
        cfg.must_pass(s, outer[0], through_nodes=consume) or s in consume for s in succ_true)
    # and the failure edge must not consume
    rep.check('C03.R1', f'functions.{fi.name}|matched-key-consumed', ok, line=rt.line, file=REL,
              why='' if ok else (space_why or bad_rebind or 'after a signature verifies under a key, that key stays in the candidate '
                                 'set: two different signatures by one key (e.g. differing flag byte) would both be counted'))
    # removal while iterating needs the break (C19.R1 idiom); the confirmed insert happens on the same edge
    conf_adds = [n for n, c in cfg.nodes_with_call(lambda c: isinstance(c.func, ast.Attribute) and c.func.attr in ('add', 'append'))
                 if any(a is inner.ast for a in cfg.ancestors(n.ast))]
    conf_var = None
    for n in conf_adds:
        c = [c for _, c in cfg.nodes_with_call(lambda c: True) if cfg.node_of(c) is n and isinstance(c.func, ast.Attribute)
             and c.func.attr in ('add', 'append')][0]
        if ast.unparse(c.args[0]) == sig_el:
            conf_var = dotted(c.func.value)
            add_node = n
    ok = conf_var is not None and all(cfg.must_pass(cfg.entry, add_node, through_edges=[(rt, s, True) for s in succ_true])
                                      for _ in [0])
    rep.check('C03.R2', f'functions.{fi.name}|confirmed-only-on-success', ok, line=rt.line, file=REL,
              why='' if ok else 'a signature is counted as confirmed outside the success edge of the inner check')
    if conf_var is None:
        return
    # R2 verdict
    from . import linear as L
    from .guards import edge_formula
    want = L.formula(ast.parse(f'len({conf_var}) == len({sigs_var})', mode='eval').body)
    tputs = [(n, c) for n, c in cfg.nodes_with_call(lambda c: dotted(c.func) == f'{stack}.put')
             if c.args and isinstance(c.args[0], ast.Constant) and c.args[0].value == b'\xff'
             and not any(a is outer[0].ast for a in cfg.ancestors(n.ast))]
    fputs = [(n, c) for n, c in cfg.nodes_with_call(lambda c: dotted(c.func) == f'{stack}.put')
             if c.args and isinstance(c.args[0], ast.Constant) and c.args[0].value == b'\x00'
             and not any(a is outer[0].ast for a in cfg.ancestors(n.ast))]
    edges_t, edges_f = [], []
    for t in cfg.nodes:
        if t.kind == 'test':
            for s, lab in t.succ:
                if lab in (True, False):
                    try:
                        f = edge_formula(cfg, t, lab, subst=False)
                    except Exception:
                        continue
                    if L.equivalent(f, want)[0]:
                        edges_t.append((t, s, lab))
                    if L.equivalent(f, L.f_not(want))[0]:
                        edges_f.append((t, s, lab))
    ok = len(tputs) == 1 and bool(edges_t) and cfg.must_pass(cfg.entry, tputs[0][0], through_edges=edges_t)
    rep.check('C03.R2', f'functions.{fi.name}|true-iff-all-m-confirmed', ok, line=fi.node.lineno, file=REL,
              why='' if ok else f'true is put without the exact condition len({conf_var}) == len({sigs_var}) '
              f'(e.g. >= or a count of matches instead of distinct confirmed signatures)')
    ok = len(fputs) == 1 and bool(edges_f) and cfg.must_pass(cfg.entry, fputs[0][0], through_edges=edges_f)
    rep.check('C03.R2', f'functions.{fi.name}|false-otherwise', ok, line=fi.node.lineno, file=REL,
              why='' if ok else 'the false verdict is not exactly the complement of the true condition')
    # confirmed is a set (a repeated signature counts once) and is not otherwise modified
    init = [n for n in cfg.nodes if n.kind == 'stmt' and isinstance(n.ast, ast.Assign) and
            isinstance(n.ast.targets[0], ast.Name) and n.ast.targets[0].id == conf_var]
    ok = len(init) == 1 and ast.unparse(init[0].ast.value).replace(' ', '') in ('set()',)
    rep.check('C03.R2', f'functions.{fi.name}|confirmed-is-a-set', ok, line=fi.node.lineno, file=REL,
              why='' if ok else 'confirmed signatures are not collected in a set: a repeated signature would count twice')
    # the _VERIFY form
    from .rules_c16 import verify_form
    vf = w.handler_for('OP_CHECK_MULTISIG_VERIFY')
    ok, why = verify_form(w, vf, 'OP_CHECK_MULTISIG')
    rep.check('C03.R2', f'functions.{vf.name}|base-then-verify', ok, line=vf.node.lineno, file=REL, why=why)
    rep.explanation = (
        'Decides the structural clauses of the threshold claim: a matched key leaves the candidate set on the '
        'success edge (so two signatures by one key cannot both count), the verdict is exactly "all m '
        'confirmed", operand order agrees between VM, compiler and decompiler, and the inner check gets the '
        'rewound flag tape. Order-independence of greedy matching rests on a signature verifying under at most '
        'one of distinct keys (cryptographic) and is not decided. make_multisig_lock is checked in the '
        'template rules.')
    # each pair check is delegated to OP_CHECK_SIG: its flag/message/verdict rules are obligations here too
    from .report import depend
    depend(rep, w, 'rules_c02', ('C02.R1', 'C02.R2', 'C02.R3', 'C02.R4', 'C02.R5'), 'C03.TD2',
           'the single-signature check the multisig delegates to satisfies its own rules: message builder, allowed flags, '
           'one builder, length guards, verdict mapping (C02.R1-R5 re-evaluated)', floor=20)
    try:
        from . import rules_templates as rt2
        if hasattr(rt2, 'c03_builders'):
            rt2.c03_builders(w, rep)
    except ImportError:
        pass


def _used_set_idiom(cfg, inner, key_el):
    """`used.add(vkey)` with `if vkey in used: continue` at the top of the inner loop."""
    adds = []
    for n, c in cfg.nodes_with_call(lambda c: isinstance(c.func, ast.Attribute) and c.func.attr in ('add', 'append')):
        if c.args and ast.unparse(c.args[0]) == key_el and any(a is inner.ast for a in cfg.ancestors(n.ast)):
            coll = dotted(c.func.value)
            guard = any(t.kind == 'test' and ast.unparse(t.ast).replace(' ', '') in (f'{key_el}in{coll}', f'{key_el}notin{coll}')
                        for t in cfg.nodes)
            # the used-set lives across signatures: it is created before the loops, never inside them
            outer_for = [a for a in cfg.ancestors(inner.ast) if isinstance(a, ast.For)]
            inits = [m for m in cfg.nodes if m.kind == 'stmt' and isinstance(m.ast, ast.Assign) and
                     any(isinstance(t, ast.Name) and t.id == coll for t in m.ast.targets)]
            fresh_each_time = any(any(a is lp for a in cfg.ancestors(m.ast)) for m in inits for lp in outer_for + [inner.ast])
            if guard and inits and not fresh_each_time:
                adds.append(n)
    return adds


def _filtered_candidates(cfg, outer, inner, cand_var, keys_var):
    """`cand = [k for k in keys if k not in U]` / `[k for i, k in enumerate(keys) if i not in U]` assigned inside
    the signature loop before the key loop -> (space 'key'|'index', U, why-if-malformed) or None."""
    if cand_var == keys_var:
        return None
    for n in cfg.nodes:
        if n.kind == 'stmt' and isinstance(n.ast, ast.Assign) and isinstance(n.ast.targets[0], ast.Name) and \
                n.ast.targets[0].id == cand_var and any(a is outer.ast for a in cfg.ancestors(n.ast)) and \
                not any(a is inner.ast for a in cfg.ancestors(n.ast)) and isinstance(n.ast.value, ast.ListComp):
            lc = n.ast.value
            if len(lc.generators) != 1:
                return None
            g = lc.generators[0]
            if isinstance(g.target, ast.Name) and isinstance(g.iter, ast.Name) and g.iter.id == keys_var:
                kname, iname = g.target.id, None
            elif isinstance(g.target, ast.Tuple) and len(g.target.elts) == 2 and isinstance(g.iter, ast.Call) and \
                    isinstance(g.iter.func, ast.Name) and g.iter.func.id == 'enumerate' and g.iter.args and \
                    isinstance(g.iter.args[0], ast.Name) and g.iter.args[0].id == keys_var:
                iname, kname = g.target.elts[0].id, g.target.elts[1].id
            else:
                return None
            if not (isinstance(lc.elt, ast.Name) and lc.elt.id == kname):
                return ('key', '?', 'the rebuilt candidate list does not hold the keys themselves')
            if len(g.ifs) != 1:
                return ('key', '?', 'the rebuilt candidate list is not filtered by exactly one `not in <used>` condition')
            c = g.ifs[0]
            if isinstance(c, ast.Compare) and len(c.ops) == 1 and isinstance(c.ops[0], ast.NotIn) and \
                    isinstance(c.left, ast.Name) and isinstance(c.comparators[0], ast.Name):
                if c.left.id == kname:
                    return ('key', c.comparators[0].id, '')
                if iname and c.left.id == iname:
                    return ('index', c.comparators[0].id, '')
            return ('key', '?', 'the filter of the rebuilt candidate list is not `x not in <used>`')
    return None


def _used_adds(cfg, inner, used_var, space, key_el, idx_el, cand_var, keys_var):
    """Insertions into the used-set inside the key loop that are in the same space as the filter reads it."""
    adds, why = [], ''
    for n, c in cfg.nodes_with_call(lambda c: isinstance(c.func, ast.Attribute) and c.func.attr in ('add', 'append')):
        if dotted(c.func.value) != used_var or not c.args or not any(a is inner.ast for a in cfg.ancestors(n.ast)):
            continue
        a = ast.unparse(c.args[0]).replace(' ', '')
        if space == 'key':
            if a == key_el:
                adds.append(n)
            else:
                why = f'`{used_var}` is read as a set of keys but `{a}` is recorded in it'
        else:
            if a == f'{keys_var}.index({key_el})':
                adds.append(n)
            elif idx_el is not None and a == idx_el and cand_var == keys_var:
                adds.append(n)
            elif idx_el is not None and a == idx_el:
                why = (f'`{used_var}` is read as positions in `{keys_var}` (the filter) but the position recorded after a match, '
                       f'`{idx_el}`, counts along the filtered list `{cand_var}`: after the first match the wrong key is '
                       f'marked used - one key can confirm two signatures and valid quorums can be rejected')
            else:
                why = f'`{used_var}` is read as positions in `{keys_var}` but `{a}` is recorded in it'
    return adds, why
