"""C04 - merklized scripts: only committed branches run (structural clauses)."""
from __future__ import annotations
import ast
from .report import Report, AnalysisError
from .summary import World, node_events, tape_reads
from .model import dotted
from .rules_c16 import verify_form, _verify_class

LEVEL = 'other'
REL = 'tapescript/functions.py'


def run(w: World, rep: Report):
    rep.rule('C04.R1', 'OP_MERKLEVAL: the evaluation of the supplied script is dominated, after the last push of the '
             'tape\'s root, by a verify-class comparison; nothing runs between that verification and OP_EVAL', floor=4)
    rep.rule('C04.R1b', 'the verify-class handler raises the script-error class unless the two compared items are equal', floor=2)
    fi = w.handler_for('OP_MERKLEVAL')
    cfg = w.cfg(fi)
    kinds = w.kinds(fi)
    tape, stack, cache = fi.params[:3]
    rep.covered('handlers', fi.name)
    ev = w.handler_for('OP_EVAL')
    # straight-line: no branches may bypass the verification
    branches = [n for n in cfg.nodes if n.kind in ('test', 'for', 'match')]
    rep.check('C04.R1', f'functions.{fi.name}|no-branches', not branches, line=fi.node.lineno, file=REL,
              why='' if not branches else 'OP_MERKLEVAL has conditional paths around its verification')
    # the root is the 32-byte tape operand
    reads = tape_reads(w, fi)
    root_var = None
    for n in cfg.nodes:
        if n.kind == 'stmt' and isinstance(n.ast, ast.Assign) and isinstance(n.ast.targets[0], ast.Name):
            k = kinds.of(n.ast.value, n)
            if k.tag == 'tape_read' and k.size.tag == 'const' and k.size.value == 32 and k.tape.tag == 'param':
                root_var = n.ast.targets[0].id
    ok = root_var is not None
    rep.check('C04.R1', f'functions.{fi.name}|root-is-32-byte-operand', ok, line=fi.node.lineno, file=REL,
              why='' if ok else 'the committed root is not read as a 32-byte operand from the tape')
    # ordered events
    seq = []
    for n in sorted([n for n in cfg.nodes if n.kind == 'stmt'], key=lambda n: n.id):
        for e in node_events(n):
            if e[0] != 'call':
                continue
            c = e[1]
            if dotted(c.func) == f'{stack}.put' and c.args and isinstance(c.args[0], ast.Name) and c.args[0].id == root_var:
                seq.append(('put-root', n))
            elif isinstance(c.func, ast.Name):
                hc = w.handler_call(fi, c)
                if hc is not None:
                    own = isinstance(hc[1], ast.Name) and hc[1].id == tape
                    seq.append((hc[0].name, n, own))
            elif isinstance(c.func, ast.Attribute) and dotted(c.func.value) == stack:
                seq.append((f'stack.{c.func.attr}', n))
    names = [s[0] for s in seq]
    evals = [i for i, s in enumerate(seq) if s[0] == ev.name]
    ok = len(evals) == 1 and evals[0] == len(seq) - 1
    rep.check('C04.R1', f'functions.{fi.name}|eval-is-last', ok, line=fi.node.lineno, file=REL,
              why='' if ok else f'OP_EVAL is not the single final step (sequence: {names})')
    if not evals:
        return
    i_eval = evals[0]
    puts = [i for i, s in enumerate(seq) if s[0] == 'put-root']
    ok = bool(puts) and puts[-1] < i_eval
    why = '' if ok else 'the root is not pushed before the evaluation'
    if ok:
        between = seq[puts[-1] + 1:i_eval]
        # exactly one step: a verify-class handler comparing the two top items
        eqv = w.handler_for('OP_EQUAL_VERIFY')
        if len(between) != 1:
            ok, why = False, (f'between pushing the root and OP_EVAL the handler runs {[b[0] for b in between]}; expected exactly '
                              f'the verifying comparison')
        else:
            h = w.handlers.get(between[0][0])
            vf_ok, vf_why = (False, '')
            if h is not None:
                vf_ok, vf_why = verify_form(w, h, 'OP_EQUAL')
            if not vf_ok:
                ok = False
                why = (f'the root comparison is done by {between[0][0]}, which is not a verifying comparison '
                       f'({vf_why or "it leaves a boolean instead of raising"}): a non-member script would be evaluated')
    rep.check('C04.R1', f'functions.{fi.name}|verify-before-eval', ok, line=seq[i_eval][1].line, file=REL, why=why)
    # the evaluation is on the handler's own tape (so flags / limits / disallow apply)
    ok = seq[i_eval][2] is True
    rep.check('C04.R1', f'functions.{fi.name}|eval-on-own-tape', ok, line=seq[i_eval][1].line, file=REL,
              why='' if ok else 'OP_EVAL is not called with the handler\'s own tape')
    # R1b
    vc = _verify_class(w)
    rep.check('C04.R1b', 'functions.OP_VERIFY|verify-class', vc, file=REL,
              why='' if vc else 'OP_VERIFY does not raise ScriptExecutionError exactly when the popped item is false')
    eq = w.handler_for('OP_EQUAL')
    ecfg = w.cfg(eq)
    # EQUAL puts true exactly on bytes_are_same(item1, item2) of the two popped items
    tests = [t for t in ecfg.nodes if t.kind == 'test']
    ok = len(tests) == 1 and ast.unparse(tests[0].ast).replace(' ', '').startswith('bytes_are_same(')
    if ok:
        t = tests[0]
        args = tests[0].ast.args
        ks = [w.kinds(eq).of(a, t) for a in args]
        ok = len(ks) == 2 and all(k.tag in ('stack_item', 'unpack') or
                                  any(l.tag == 'stack_item' for l in k.walk()) for k in ks)
        for s, lab in t.succ:
            put = [c for _, c in ecfg.nodes_with_call(lambda c: dotted(c.func) == f'{eq.params[1]}.put') if ecfg.node_of(c) is s]
            if not put or not isinstance(put[0].args[0], ast.Constant) or \
                    put[0].args[0].value != (b'\xff' if lab is True else b'\x00'):
                ok = False
    rep.check('C04.R1b', 'functions.OP_EQUAL|true-iff-same', ok, line=eq.node.lineno, file=REL,
              why='' if ok else 'OP_EQUAL does not put true exactly when the two popped items are the same bytes')
    bas = w.repo.func('functions', 'bytes_are_same')
    # decided by evaluating the returned expression on small inputs with `xor` read as the bytewise xor it is
    # (its own rule): equal -> true; same length, one bit different -> false; a prefix / different length -> false
    from .feval import feval, Unknown
    ret = bas.node.body[-1]
    ok = isinstance(ret, ast.Return) and ret.value is not None and len(bas.params) == 2
    if ok:
        p1, p2 = bas.params[:2]

        class X(ast.NodeTransformer):
            def visit_Call(self, n):
                self.generic_visit(n)
                if isinstance(n.func, ast.Name) and n.func.id == 'xor' and len(n.args) == 2:
                    a, b = n.args
                    return ast.parse(f'bytes(x__ ^ y__ for x__, y__ in zip({ast.unparse(a)}, {ast.unparse(b)}))', mode='eval').body
                return n
        import copy as _copy
        expr = X().visit(_copy.deepcopy(ret.value))
        samples = [(b'', b'', True), (b'a', b'a', True), (b'ab', b'ab', True), (b'\x00', b'\x00', True),
                   (b'a', b'b', False), (b'ab', b'aa', False), (b'ab', b'bb', False), (b'\x00', b'\x01', False),
                   (b'\x80\x00', b'\x00\x00', False), (b'a', b'ab', False), (b'ab', b'a', False), (b'', b'\x00', False),
                   (b'\x00', b'', False), (b'\x00\x00', b'\x00', False)]
        try:
            for a, b, want_ in samples:
                if bool(feval(expr, {p1: a, p2: b})) != want_:
                    ok = False
        except Unknown:
            txt = ast.unparse(bas.node.body[-1]).replace(' ', '')
            ok = 'len(b1)==len(b2)' in txt and "int.from_bytes(xor(b1,b2),'little')==0" in txt and \
                ' or ' not in ast.unparse(bas.node.body[-1])
    rep.check('C04.R1b', 'functions.bytes_are_same|length-and-xor', ok, line=bas.node.lineno, file=REL,
              why='' if ok else 'bytes_are_same no longer requires equal length and an all-zero xor')
    _no_memo_in_tree_classes(w, rep)
    _tree_construction(w, rep)
    from .report import depend
    depend(rep, w, 'rules_c11', ('C11.R4',), 'C04.TD11',
           'unlocking scripts push the committed leaf script whatever its length: PUSH selects a push instruction for every '
           'length 1..65535 (C11.R4 re-evaluated)', floor=4)
    # a proof that validated once must validate again: the VM side keeps no state between runs
    from .report import depend
    depend(rep, w, 'rules_c19', ('C19.R2',), 'C04.TD19',
           'no handler writes process-global state (C19.R2 re-evaluated): the verdict for a proof does not '
           'depend on earlier runs', floor=10)
    depend(rep, w, 'rules_c05', ('C05.R4',), 'C04.TD5',
           'a leaf commits to the byte code of its script: Script.commitment() is the hash of the current bytes '
           '(C05.R4 re-evaluated)', floor=1)
    depend(rep, w, 'rules_c11', ('C11.R6',), 'C04.TD11',
           'the assembler the tree builders call leaves its inputs alone (C11.R6 re-evaluated): a token list or '
           'macro table reused between fillers/leaves assembles to the same thing every time', floor=2)
    depend(rep, w, 'rules_c09', ('C09.R2', 'C09.R3'), 'C04.TD9',
           'a leaf reached through MERKLEVAL -> EVAL runs under the configuration of the run (flags, thresholds), so the '
           'verdict through the tree is the leaf script\'s own verdict (C09.R2/R3 re-evaluated)', floor=16)
    rep.explanation = (
        'Decides the binding clause of C04 in its structural form: in OP_MERKLEVAL the supplied script reaches '
        'OP_EVAL only after a verifying comparison with the tape\'s 32-byte root, with nothing in between and '
        'no path around it; the comparison primitive is checked to be verify-class. The same verify-before-'
        'eval typing is applied to every builder template that evals (C04.R2, template rules). Root / '
        'commitment formulas, completeness for every tree shape and pack/unpack round trips are value-level '
        'and not decided.')
    _pack_unpack(w, rep)
    try:
        from . import rules_templates as rt2
        if hasattr(rt2, 'c04_builders'):
            rt2.c04_builders(w, rep)
    except ImportError:
        pass


def _pack_unpack(w: World, rep: Report):
    """Sibling symmetry of the tree (de)serialiser: each child is rebuilt from its *own* tag and
    data fields, and pack writes (tag, length, data) of the left child then of the right child."""
    rep.rule('C04.R3', 'ScriptNode.pack / unpack: each child is written / rebuilt from its own (tag, length, data) '
             'fields, left then right', floor=2)
    un = w.repo.func('tools', 'ScriptNode.unpack')
    fields = set()
    for n in ast.walk(un.node):
        if isinstance(n, ast.Assign) and isinstance(n.value, ast.Call) and dotted(n.value.func) == 'struct.unpack' \
                and isinstance(n.targets[0], ast.Tuple):
            for e in n.targets[0].elts:
                if isinstance(e, ast.Name):
                    fields.add(e.id)
    # plain copies of a field count as that field (right_data = data)
    alias = {}
    for n in ast.walk(un.node):
        if isinstance(n, ast.Assign) and isinstance(n.targets[0], ast.Name) and isinstance(n.value, ast.Name) \
                and n.value.id in fields:
            alias[n.targets[0].id] = n.value.id
            fields.add(n.targets[0].id)
    rets = [n for n in ast.walk(un.node) if isinstance(n, ast.Return) and isinstance(n.value, ast.Call)
            and len(n.value.args) == 2]
    ok, why = bool(rets), 'unpack does not return cls(left, right)'
    for r in rets:
        used = []
        for a in r.value.args:
            e = a
            if isinstance(a, ast.Name):
                defs = [n.value for n in ast.walk(un.node) if isinstance(n, ast.Assign)
                        and isinstance(n.targets[0], ast.Name) and n.targets[0].id == a.id]
                if len(defs) != 1:
                    ok, why = False, f'child `{a.id}` is assigned {len(defs)} times'
                    continue
                e = defs[0]
            used.append({x.id for x in ast.walk(e) if isinstance(x, ast.Name) and x.id in fields})
        if len(used) == 2:
            if len(used[0]) < 2 or len(used[1]) < 2:
                ok, why = False, f'a child is rebuilt from {sorted(used[0])} / {sorted(used[1])}: a tag and a data field are needed for each'
            elif used[0] & used[1]:
                ok, why = False, (f'both children are rebuilt using field(s) {sorted(used[0] & used[1])}: the right child '
                                  f'must be classified and decoded from its own tag and data')
    rep.check('C04.R3', 'tools.ScriptNode.unpack|children-use-own-fields', ok, line=un.node.lineno,
              file='tapescript/tools.py', why='' if ok else why)
    pk = w.repo.func('tools', 'ScriptNode.pack')
    ok, why = False, 'struct.pack call not recognised'
    for n in ast.walk(pk.node):
        if isinstance(n, ast.Call) and dotted(n.func) == 'struct.pack' and len(n.args) == 7:
            groups = [n.args[1:4], n.args[4:7]]
            sides = []
            for g in groups:
                txt = ' '.join(ast.unparse(x) for x in g)
                # locals `left` / `right` are the packed children: resolve through their definitions
                names = {x.id for y in g for x in ast.walk(y) if isinstance(x, ast.Name)}
                attrs = {x.attr for y in g for x in ast.walk(y) if isinstance(x, ast.Attribute)
                         and isinstance(x.value, ast.Name) and x.value.id == 'self'}
                for nm in names:
                    for d in ast.walk(pk.node):
                        if isinstance(d, ast.Assign) and isinstance(d.targets[0], ast.Name) and d.targets[0].id == nm:
                            attrs |= {x.attr for x in ast.walk(d.value) if isinstance(x, ast.Attribute)
                                      and isinstance(x.value, ast.Name) and x.value.id == 'self'}
                sides.append(attrs & {'left', 'right'})
            ok = sides == [{'left'}, {'right'}]
            why = '' if ok else f'pack writes field groups derived from {[sorted(x) for x in sides]}; expected left then right'
    rep.check('C04.R3', 'tools.ScriptNode.pack|left-then-right', ok, line=pk.node.lineno, file='tapescript/tools.py',
              why=why)


def _no_memo_in_tree_classes(w: World, rep: Report, rule: str = 'C04.R4',
                             markers=('commitment', 'unlocking_script', 'locking_script', 'root'), floor: int = 3):
    """Script / ScriptLeaf / ScriptNode objects are mutable and get re-parented (`ScriptNode(x, old_root)`, the
    prioritized builder): what they compute - commitment, root, locking and unlocking scripts - must be
    computed from the current fields on every call.  A method that stores a result on `self` outside the
    declared fields is a memo that goes stale when the tree changes."""
    rep.rule(rule, 'these classes keep no derived state: outside __init__ no method stores to an attribute of self '
             'other than a declared structural field, and no method result is memoised by a caching decorator', floor=floor)
    tools = w.repo.module('tools')
    n = 0
    for cname, cd in tools.classes.items():
        meths = [m for m in cd.body if isinstance(m, ast.FunctionDef)]
        names = {m.name for m in meths}
        if not (names & set(markers)):
            continue
        declared = {st.target.id for st in cd.body if isinstance(st, ast.AnnAssign) and isinstance(st.target, ast.Name)}
        for m in meths:
            if m.name == '__init__':
                for x in ast.walk(m):
                    if isinstance(x, ast.Attribute) and isinstance(x.ctx, ast.Store) and isinstance(x.value, ast.Name) \
                            and x.value.id == 'self':
                        declared.add(x.attr)
        n += 1
        bad = []
        for m in meths:
            # a caching decorator hands out one remembered (mutable) result for equal arguments: objects that get
            # re-parented / edited afterwards are shared between unrelated callers
            for d in m.decorator_list:
                dn = (ast.unparse(d.func) if isinstance(d, ast.Call) else ast.unparse(d)).split('.')[-1]
                if dn in ('lru_cache', 'cache', 'cached_property', 'memoize', 'memoized'):
                    bad.append((m.name, f'@{dn}', m.lineno))
        for m in meths:
            if m.name in ('__init__', '__post_init__'):
                continue
            me = m.args.args[0].arg if m.args.args else 'self'
            for x in ast.walk(m):
                if isinstance(x, ast.Attribute) and isinstance(x.ctx, (ast.Store, ast.Del)) and \
                        isinstance(x.value, ast.Name) and x.value.id == me and x.attr not in declared:
                    bad.append((m.name, x.attr, x.lineno))
                # a *computed* value stored on self (declared or not) is derived state as well
                if isinstance(x, ast.Assign) and any(isinstance(t, ast.Attribute) and isinstance(t.value, ast.Name) and
                                                     t.value.id == me for t in x.targets) and \
                        any(isinstance(c, ast.Call) or (isinstance(c, ast.Attribute) and isinstance(c.value, ast.Name) and
                                                        c.value.id == me) for c in ast.walk(x.value)):
                    t0 = [t for t in x.targets if isinstance(t, ast.Attribute)][0]
                    if (m.name, t0.attr, x.lineno) not in bad:
                        bad.append((m.name, t0.attr, x.lineno))
                if isinstance(x, ast.Call) and isinstance(x.func, ast.Name) and x.func.id == 'setattr' and x.args and \
                        isinstance(x.args[0], ast.Name) and x.args[0].id == me:
                    bad.append((m.name, 'setattr', x.lineno))
        rep.check(rule, f'tools.{cname}|no-derived-state', not bad, line=bad[0][2] if bad else cd.lineno,
                  file='tapescript/tools.py',
                  why='' if not bad else f'{cname}.{bad[0][0]} ' + (f'is memoised with {bad[0][1]}' if bad[0][1].startswith('@')
                                                                   else f'stores `self.{bad[0][1]}`') +
                  ': a remembered result is not invalidated when the object is edited or attached elsewhere - what is '
                  'generated afterwards (proofs, commitments, serialisations) describes the old state')
    if n == 0:
        raise AnalysisError('no tree class (commitment / unlocking_script / root) found in tools.py')


def _tree_construction(w: World, rep: Report):
    """(a) ScriptNode.__init__ makes itself the parent of both children on every path - a branch taken over from an
    earlier tree must generate proofs up to the *new* root; (b) the tree builders compile a leaf from source only when
    it is given as source (a str): a leaf given as a Script keeps its own byte code - recompiling its `src` commits
    to other bytes whenever the source is not a fixed point of compile (comptime blocks, hand-made Scripts)."""
    rep.rule('C04.R5', 'ScriptNode.__init__ re-parents both children unconditionally; the tree builders compile only leaves '
             'given as str', floor=3)
    init = w.repo.func('tools', 'ScriptNode.__init__')
    me = init.params[0]
    kids = init.params[1:3]
    for kid in kids:
        top = [st for st in init.node.body if isinstance(st, ast.Assign) and any(
            isinstance(t, ast.Attribute) and t.attr == 'parent' and isinstance(t.value, ast.Name) and t.value.id == kid
            for t in st.targets) and isinstance(st.value, ast.Name) and st.value.id == me]
        rep.check('C04.R5', f'tools.ScriptNode.__init__|{kid}.parent=self|unconditional', bool(top), line=init.node.lineno,
                  file='tapescript/tools.py',
                  why='' if top else f'`{kid}.parent = {me}` is missing or conditional: a child that already belongs to a tree keeps '
                  f'its old parent, its unlocking script then proves membership in the old tree and fails under the new root')
    n = 0
    for bname in ('make_script_tree_prioritized', 'make_script_tree_balanced', 'make_merklized_script_prioritized',
                  'make_merklized_script_balanced'):
        try:
            b = w.repo.func('tools', bname)
        except Exception:
            continue
        cfg = w.cfg(b)
        for nd, c in cfg.nodes_with_call(lambda c: (dotted(c.func) or '').endswith('from_src')):
            if not c.args or isinstance(c.args[0], (ast.Constant, ast.JoinedStr)):
                continue            # a literal source (filler leaves), not a leaf the caller passed
            n += 1
            guarded = False
            for t, pol in cfg.dominating_conditions(nd):
                txt = ast.unparse(t.ast).replace(' ', '')
                if pol is True and ('isstr' in txt or 'isinstance(' in txt and ',str)' in txt):
                    guarded = True
            in_comp = any(isinstance(a, (ast.ListComp, ast.GeneratorExp)) for a in cfg.ancestors(c)) if hasattr(cfg, 'ancestors') else False
            if in_comp:
                # inside a comprehension: its own `if type(x) is str` filter / conditional expression
                guarded = any(isinstance(a, ast.IfExp) and 'str' in ast.unparse(a.test) for a in cfg.ancestors(c))
            rep.check('C04.R5', f'tools.{bname}|from_src@{n}|only-for-str-leaves', guarded, line=nd.line, file='tapescript/tools.py',
                      why='' if guarded else f'{bname} compiles `{ast.unparse(c)[:40]}` whether or not the leaf was given as source: '
                      f'a leaf passed as a Script loses its byte code and the tree commits to the recompiled source instead')
    if n == 0:
        raise AnalysisError('tree builders: no from_src conversion found')
