"""A small structured symbolic walker: unrolls constant-bounded loops, substitutes pure
locals, and records events (augmented assignments, calls, stores) with the guard
conditions under which they happen.  Used where an if-chain and a constant loop are
equivalent spellings of the same table (C02 flag tables)."""
from __future__ import annotations
import ast
import copy
from .report import AnalysisError


def is_pure(e: ast.AST) -> bool:
    for n in ast.walk(e):
        if isinstance(n, ast.Call):
            # dict.get(<constants>) on a plain name has no effect: keep it substitutable
            if isinstance(n.func, ast.Attribute) and n.func.attr == 'get' and isinstance(n.func.value, ast.Name) \
                    and all(isinstance(a, (ast.Constant, ast.JoinedStr)) for a in n.args) and not n.keywords:
                continue
            return False
        if isinstance(n, (ast.Await, ast.Yield, ast.NamedExpr, ast.Lambda)):
            return False
    return True


class Event:
    __slots__ = ('kind', 'node', 'expr', 'guards', 'target', 'seq')

    def __init__(self, kind, node, expr, guards, target=None, seq=0):
        self.kind = kind        # aug call store return raise
        self.node = node
        self.expr = expr        # substituted expression
        self.guards = guards    # list of (substituted test, polarity)
        self.target = target
        self.seq = seq

    def __repr__(self):
        g = ' & '.join(('' if p else 'not ') + ast.unparse(t) for t, p in self.guards)
        return f'{self.kind} {ast.unparse(self.expr)[:50] if self.expr is not None else ""} [{g}]'


class SymWalk:
    def __init__(self, func: ast.FunctionDef, max_unroll: int = 64, guard_class=None):
        self.func = func
        self.guard_class = guard_class      # callable(ast.Call) -> exception class name | None
        self.env: dict[str, ast.AST] = {}
        self.events: list[Event] = []
        self.max_unroll = max_unroll
        self._seq = 0
        self._persist: list[list] = []     # per unrolled loop: guards that hold for all later iterations (after `break`)
        self._block(func.body, [])

    # -- substitution ----------------------------------------------------------
    def subst(self, e: ast.AST) -> ast.AST:
        env = self.env

        class T(ast.NodeTransformer):
            def visit_Name(self, n):
                if isinstance(n.ctx, ast.Load) and n.id in env:
                    return copy.deepcopy(env[n.id])
                return n

            def visit_BinOp(self, n):
                n = self.generic_visit(n)
                if isinstance(n.left, ast.Constant) and isinstance(n.right, ast.Constant) and \
                        isinstance(n.left.value, int) and isinstance(n.right.value, int) and \
                        not isinstance(n.left.value, bool) and not isinstance(n.right.value, bool):
                    a, b = n.left.value, n.right.value
                    try:
                        if isinstance(n.op, ast.Add):
                            return ast.Constant(value=a + b)
                        if isinstance(n.op, ast.Sub):
                            return ast.Constant(value=a - b)
                        if isinstance(n.op, ast.Mult) and abs(a * b) < 2 ** 64:
                            return ast.Constant(value=a * b)
                        if isinstance(n.op, ast.LShift) and 0 <= b <= 64:
                            return ast.Constant(value=a << b)
                        if isinstance(n.op, ast.Pow) and 0 <= b <= 64:
                            return ast.Constant(value=a ** b)
                        if isinstance(n.op, ast.BitAnd):
                            return ast.Constant(value=a & b)
                        if isinstance(n.op, ast.BitOr):
                            return ast.Constant(value=a | b)
                    except Exception:
                        return n
                return n

            def _comp(self, n):
                """A comprehension over a statically known finite iterable is the display it builds
                (`{str(i + 1): f & (1 << i) for i in range(8)}` is the eight-entry dict)."""
                from .feval import feval, Unknown
                n = self.generic_visit(n)
                if len(n.generators) != 1 or n.generators[0].is_async:
                    return n
                g = n.generators[0]
                try:
                    items = list(feval(g.iter, {}, DEFAULT_CONSTS[0]))
                except (Unknown, TypeError):
                    return n
                if len(items) > 64:
                    return n

                def inst(expr, binding):
                    class B(ast.NodeTransformer):
                        def visit_Name(self, x):
                            if isinstance(x.ctx, ast.Load) and x.id in binding:
                                return ast.Constant(value=binding[x.id])
                            return x
                    e2 = B().visit(copy.deepcopy(expr))
                    try:
                        v = feval(e2, {}, DEFAULT_CONSTS[0])
                        if isinstance(v, (int, str, bytes, bool)) or v is None:
                            return ast.Constant(value=v)
                    except Unknown:
                        pass
                    return T().visit(e2)
                keys, vals = [], []
                for it in items:
                    binding = {}
                    try:
                        from .feval import _bind
                        _bind(g.target, it, binding)
                    except Unknown:
                        return n
                    if not all(isinstance(v, (int, str, bytes, bool)) or v is None for v in binding.values()):
                        return n
                    keep = True
                    for c in g.ifs:
                        c2 = inst(c, binding)
                        if isinstance(c2, ast.Constant):
                            keep = keep and bool(c2.value)
                        else:
                            return n            # a filter that depends on run-time data: not a fixed display
                    if not keep:
                        continue
                    if isinstance(n, ast.DictComp):
                        keys.append(inst(n.key, binding))
                        vals.append(inst(n.value, binding))
                    else:
                        vals.append(inst(n.elt, binding))
                if isinstance(n, ast.DictComp):
                    return ast.Dict(keys=keys, values=vals)
                if isinstance(n, ast.SetComp):
                    return ast.Set(elts=vals) if vals else n
                return ast.List(elts=vals, ctx=ast.Load())

            visit_ListComp = _comp
            visit_DictComp = _comp
            visit_SetComp = _comp

            def visit_JoinedStr(self, n):
                n = self.generic_visit(n)
                # fold f-strings whose holes became constants
                out = ''
                for v in n.values:
                    if isinstance(v, ast.Constant):
                        out += str(v.value)
                    elif isinstance(v, ast.FormattedValue) and isinstance(v.value, ast.Constant) \
                            and v.format_spec is None and v.conversion == -1:
                        out += str(v.value.value)
                    else:
                        return n
                return ast.Constant(value=out)
        return T().visit(copy.deepcopy(e))

    def _emit(self, kind, node, expr, guards, target=None):
        self._seq += 1
        self.events.append(Event(kind, node, expr, list(guards), target, self._seq))

    # -- statements ------------------------------------------------------------
    def _block(self, stmts, guards):
        """Returns extra guards accumulated by `if c: continue/return` for the rest of the block."""
        guards = list(guards)
        for st in stmts:
            r = self._stmt(st, guards)
            if r == 'stop':
                return 'stop'
            if isinstance(r, list):
                guards = r
        return guards

    def _stmt(self, st, guards):
        if isinstance(st, ast.Expr) and isinstance(st.value, ast.Constant):
            return None
        if isinstance(st, ast.Assign) and len(st.targets) == 1 and isinstance(st.targets[0], ast.Name):
            v = self.subst(st.value)
            self._calls_in(st.value, guards, st)
            name = st.targets[0].id
            if is_pure(v) and not guards_mention_assignment(guards):
                self.env[name] = v
            else:
                self.env.pop(name, None)
                if isinstance(v, ast.Dict) and all(isinstance(k, ast.Constant) for k in v.keys if k is not None) \
                        and all(k is not None for k in v.keys) and all(is_pure(x) for x in v.values):
                    self.env[name] = v
            self._emit('assign', st, v, guards, target=name)
            return None
        if isinstance(st, ast.Assign):
            self._calls_in(st.value, guards, st)
            for t in st.targets:
                for n in ast.walk(t):
                    if isinstance(n, ast.Name) and isinstance(n.ctx, ast.Store):
                        self.env.pop(n.id, None)
                if isinstance(t, (ast.Subscript, ast.Attribute)):
                    self._emit('store', st, self.subst(st.value), guards, target=self.subst(t))
            return None
        if isinstance(st, ast.AugAssign):
            self._calls_in(st.value, guards, st)
            v = self.subst(st.value)
            if isinstance(st.target, ast.Name):
                self.env.pop(st.target.id, None)
                self._emit('aug', st, v, guards, target=st.target.id)
            else:
                self._emit('store', st, v, guards, target=self.subst(st.target))
            return None
        if isinstance(st, ast.Expr):
            self._calls_in(st.value, guards, st)
            if self.guard_class is not None and isinstance(st.value, ast.Call) and st.value.args:
                cls = self.guard_class(st.value)
                if cls:
                    self._emit('guard', st, self.subst(st.value.args[0]), guards, target=cls)
            return None
        if isinstance(st, ast.If):
            t = self.subst(st.test)
            self._calls_in(st.test, guards, st)
            if not st.orelse and len(st.body) == 1 and isinstance(st.body[0], ast.Raise):
                # `if not c: raise X(..)`  ==  guard(c) raising X
                exc = st.body[0].exc
                if isinstance(exc, ast.Call):
                    exc = exc.func
                cls = ast.unparse(exc) if exc is not None else '?'
                cond = t.operand if isinstance(t, ast.UnaryOp) and isinstance(t.op, ast.Not) else \
                    ast.UnaryOp(op=ast.Not(), operand=t)
                self._emit('guard', st, cond, guards, target=cls)
            # `if c: continue` / `if c: return`  -> rest of the block runs under not c
            if not st.orelse and len(st.body) == 1 and isinstance(st.body[0], (ast.Continue, ast.Return, ast.Raise,
                                                                                ast.Break)):
                if isinstance(st.body[0], ast.Return):
                    self._emit('return', st.body[0], None, guards + [(t, True)])
                if isinstance(st.body[0], ast.Break) and self._persist:
                    # leaving the loop: every later iteration runs only if this test was false
                    self._persist[-1].append((t, False))
                return guards + [(t, False)]
            saved = dict(self.env)
            self._block(st.body, guards + [(t, True)])
            env_a = self.env
            self.env = dict(saved)
            self._block(st.orelse, guards + [(t, False)])
            env_b = self.env
            # keep only bindings that agree
            self.env = {k: v for k, v in env_a.items() if k in env_b and ast.dump(env_b[k]) == ast.dump(v)}
            return None
        if isinstance(st, ast.For):
            items = self._iter_items(st.iter)
            if items is None:
                # not statically enumerable: walk the body once with the loop variable opaque
                for n in ast.walk(st.target):
                    if isinstance(n, ast.Name):
                        self.env.pop(n.id, None)
                self._calls_in(st.iter, guards, st)
                self._emit('loop', st, self.subst(st.iter), guards)
                self._block(st.body, guards + [(ast.Constant(value='<loop>'), True)])
                return None
            if len(items) > self.max_unroll:
                raise AnalysisError('loop too long to unroll')
            self._persist.append([])
            for it in items:
                self._bind(st.target, it)
                self._block(st.body, guards + list(self._persist[-1]))
            self._persist.pop()
            return None
        if isinstance(st, ast.While):
            self._emit('loop', st, self.subst(st.test), guards)
            for n in ast.walk(st):
                if isinstance(n, ast.Name) and isinstance(n.ctx, ast.Store):
                    self.env.pop(n.id, None)
            self._block(st.body, guards + [(ast.Constant(value='<loop>'), True)])
            return None
        if isinstance(st, ast.Try):
            self._emit('try', st, None, guards)
            self._block(st.body, guards + [(ast.Constant(value='<try>'), True)])
            for h in st.handlers:
                tag = ast.unparse(h.type) if h.type is not None else 'BaseException'
                self._block(h.body, guards + [(ast.Constant(value=f'<except {tag}>'), True)])
            self._block(st.orelse, guards)
            return None
        if isinstance(st, ast.Return):
            if st.value is not None:
                self._calls_in(st.value, guards, st)
            self._emit('return', st, self.subst(st.value) if st.value is not None else None, guards)
            return 'stop' if not guards else None
        if isinstance(st, ast.Raise):
            self._emit('raise', st, None, guards)
            return 'stop' if not guards else None
        if isinstance(st, (ast.Pass, ast.Continue, ast.Break, ast.Assert, ast.Delete, ast.Global,
                           ast.FunctionDef, ast.Import, ast.ImportFrom, ast.With, ast.Match, ast.AnnAssign)):
            if isinstance(st, ast.Assert):
                self._emit('assert', st, self.subst(st.test), guards)
            if isinstance(st, ast.Delete):
                for t in st.targets:
                    self._emit('del', st, self.subst(t), guards)
            return None
        return None

    def _calls_in(self, e, guards, st):
        if e is None:
            return
        out = []

        def rec(x):
            if isinstance(x, (ast.Lambda,)):
                return
            for c in ast.iter_child_nodes(x):
                rec(c)
            if isinstance(x, ast.Call):
                out.append(x)
        rec(e)
        for c in out:
            self._emit('call', c, self.subst(c), guards)

    def _iter_items(self, it):
        e = self.subst(it)
        if isinstance(e, ast.Call) and isinstance(e.func, ast.Name) and e.func.id == 'range' and \
                all(isinstance(a, ast.Constant) and isinstance(a.value, int) for a in e.args) and e.args:
            return [ast.Constant(value=i) for i in range(*[a.value for a in e.args])]
        if isinstance(e, (ast.List, ast.Tuple)) and all(is_pure(x) for x in e.elts):
            return list(e.elts)
        if isinstance(e, ast.Call) and isinstance(e.func, ast.Attribute) and e.func.attr in ('items', 'keys', 'values') \
                and isinstance(e.func.value, ast.Dict):
            d = e.func.value
            if e.func.attr == 'items':
                return [ast.Tuple(elts=[k, v], ctx=ast.Load()) for k, v in zip(d.keys, d.values)]
            if e.func.attr == 'keys':
                return list(d.keys)
            return list(d.values)
        if isinstance(e, ast.Dict):
            return list(e.keys)
        return None

    def _bind(self, target, item):
        if isinstance(target, ast.Name):
            self.env[target.id] = item
        elif isinstance(target, (ast.Tuple, ast.List)) and isinstance(item, (ast.Tuple, ast.List)) and \
                len(target.elts) == len(item.elts):
            for t, i in zip(target.elts, item.elts):
                self._bind(t, i)
        else:
            for n in ast.walk(target):
                if isinstance(n, ast.Name):
                    self.env.pop(n.id, None)


def guards_mention_assignment(guards) -> bool:
    return False


DEFAULT_CONSTS = [None]         # resolver of program constants (set by the rules module that uses mask_of)


def mask_of(e: ast.AST, flag_names: set[str]):
    """(flag name, m) when the truth of `e` is, for every byte value of the one flag variable it mentions, the truth
    of `flag & m` - however the test is spelled (`f & 4`, `(f >> 2) & 1`, `f & Flags.F3`, `bool(f & 4)`,
    `f & 4 != 0`).  Decided by evaluating the expression over all 256 values (tsa.feval); None otherwise."""
    from .feval import byte_mask, free_names
    fl = [n for n in free_names(e) if n in flag_names]
    if len(fl) == 1:
        m = byte_mask(e, fl[0], DEFAULT_CONSTS[0])
        if m is not None:
            return fl[0], m
    return _mask_of_syntactic(e, flag_names)


def _mask_of_syntactic(e: ast.AST, flag_names: set[str]):
    """If e is `<flag> & <const>` (either order) return (flag name, const)."""
    if isinstance(e, ast.BinOp) and isinstance(e.op, ast.BitAnd):
        for a, b in ((e.left, e.right), (e.right, e.left)):
            if isinstance(a, ast.Name) and a.id in flag_names and isinstance(b, ast.Constant) and isinstance(b.value, int):
                return a.id, b.value
            if isinstance(a, ast.Name) and a.id in flag_names and isinstance(b, ast.BinOp) and \
                    isinstance(b.op, ast.LShift) and isinstance(b.left, ast.Constant) and isinstance(b.right, ast.Constant):
                return a.id, b.left.value << b.right.value
    return None


def atoms_of(test: ast.AST, pol: bool = True):
    """Flatten a conjunction (under polarity) into [(atom, polarity)]; None if not a conjunction."""
    if isinstance(test, ast.UnaryOp) and isinstance(test.op, ast.Not):
        return atoms_of(test.operand, not pol)
    if isinstance(test, ast.BoolOp) and isinstance(test.op, ast.And) and pol:
        out = []
        for v in test.values:
            a = atoms_of(v, True)
            if a is None:
                return None
            out += a
        return out
    if isinstance(test, ast.BoolOp) and isinstance(test.op, ast.Or) and not pol:
        out = []
        for v in test.values:
            a = atoms_of(v, False)
            if a is None:
                return None
            out += a
        return out
    if isinstance(test, ast.BoolOp):
        return None
    # (x & m) == 0  /  != 0
    if isinstance(test, ast.Compare) and len(test.ops) == 1 and isinstance(test.comparators[0], ast.Constant) \
            and test.comparators[0].value == 0 and isinstance(test.ops[0], (ast.Eq, ast.NotEq)):
        p = pol if isinstance(test.ops[0], ast.NotEq) else not pol
        return [(test.left, p)]
    return [(test, pol)]
