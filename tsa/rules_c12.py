"""C12 - decompiling always terminates and round-trips compiler output."""
from __future__ import annotations
import ast
from .report import Report, AnalysisError
from .summary import World, node_events, tape_reads, size_class, Read, match_tables
from .model import dotted, walk_no_nested
from .kinds import K

LEVEL = 'other'
RELP = 'tapescript/parsing.py'
BLOCK_BODY_OPS = ('OP_DEF', 'OP_IF', 'OP_IF_ELSE', 'OP_TRY_EXCEPT', 'OP_LOOP')


def nop_test_parts(test: ast.AST):
    """(atom text, polarity) of a NOP-prefix test: `x[:3] == 'NOP'`, `x.startswith('NOP')`, possibly under
    `not` or spelled `!=`.  polarity True = the *body* of the if is the NOP branch."""
    pol = True
    while isinstance(test, ast.UnaryOp) and isinstance(test.op, ast.Not):
        test = test.operand
        pol = not pol
    if isinstance(test, ast.Compare) and len(test.ops) == 1 and isinstance(test.ops[0], ast.NotEq):
        test = ast.Compare(left=test.left, ops=[ast.Eq()], comparators=test.comparators)
        pol = not pol
    return ast.unparse(test).replace(' ', ''), pol


def nop_branch(if_node: ast.If):
    """The statements executed when the NOP-prefix test of `if_node` holds."""
    _, pol = nop_test_parts(if_node.test)
    return if_node.body if pol else if_node.orelse


def norm_token(r: Read) -> str:
    """Shape token comparable between VM and decompiler: const size, or unsigned/signed
    length-prefixed read."""
    if r.size is not None:
        return str(r.size)
    if r.decode in ('uint', 'byte'):
        return f'n[u{r.prefix}]'
    if r.decode == 'sint':
        return f'n[s{r.prefix}]'
    return f'n[{r.decode}]'


def dec_arms(w: World):
    """(cfg, kinds, tape variable, list of (labels, body statements, case node)) of decompile_script."""
    fi = w.repo.func('parsing', 'decompile_script')
    cfg = w.cfg(fi)
    kinds = w.kinds(fi)
    matches = [x for b in cfg.body for x in ast.walk(b) if isinstance(x, ast.Match)]
    if len(matches) != 1:
        raise AnalysisError(f'decompile_script: expected one match statement, found {len(matches)}')
    m = matches[0]
    # the tape variable: local constructed from the parameter
    tape_var = None
    for b in cfg.body:
        if isinstance(b, ast.Assign) and isinstance(b.value, ast.Call) and dotted(b.value.func) == 'Tape':
            tape_var = b.targets[0].id
            ctor = b.value
    if tape_var is None:
        raise AnalysisError('decompile_script: Tape construction not found')
    from .summary import _pattern_labels
    arms = []
    for c in m.cases:
        arms.append((_pattern_labels(c.pattern), c.body, c))
    return fi, cfg, kinds, tape_var, ctor, m, arms


def arm_reads(cfg, kinds, stmts, tape_var) -> list[tuple[Read, ast.Call]]:
    out = []
    for st in stmts:
        for x in _calls_in_order(st):
            if isinstance(x.func, ast.Attribute) and x.func.attr == 'read' and \
                    isinstance(x.func.value, ast.Name) and x.func.value.id == tape_var:
                n = cfg.node_of(x)
                if n is None:
                    raise AnalysisError('decompile_script: read not in CFG')
                arg = x.args[0] if x.args else None
                if arg is None:
                    raise AnalysisError('decompile_script: read without size')
                k = kinds.of(arg, n)
                size, decode, prefix = size_class(k)
                out.append((Read(size, decode, prefix, x.lineno, x, k), x))
    return out


def _calls_in_order(st):
    out = []

    def rec(e):
        if isinstance(e, (ast.FunctionDef, ast.Lambda, ast.ClassDef)):
            return
        for c in ast.iter_child_nodes(e):
            rec(c)
        if isinstance(e, ast.Call):
            out.append(e)
    rec(st)
    return out


def run(w: World, rep: Report):
    # dependency obligations first: they stand on their own even if the decompiler has a shape the rules below cannot read
    from .report import depend
    depend(rep, w, 'rules_c11', ('C11.R2b',), 'C12.TD11b',
           'every handle / length the decompiler can print for a block is accepted by the block parsers in the width the VM '
           'reads (C11.R2b re-evaluated)', floor=6)
    depend(rep, w, 'rules_c11', ('C11.R7',), 'C12.TD11',
           'what the decompiler prints for a push with an explicit size (`OP_PUSH1 d<n> x<hex>`, `d0 x` for the empty '
           'payload) is read back as size and value: the compiler\'s one- vs two-symbol choice keeps no value spelling '
           'out and consults the instruction tables (C11.R7 re-evaluated)', floor=4)
    depend(rep, w, 'rules_c19', ('C19.R5',), 'C12.TD19',
           'a listing is computed from the bytes and the current instruction tables on every call: neither decompile_script '
           'nor the compiler is memoised (C19.R5 re-evaluated)', floor=1)
    depend(rep, w, 'rules_c07', ('C07.R7',), 'C12.TD7',
           'Tape.read - the only way the decompiler consumes bytes - fails only with its own error: its guard message '
           'cannot raise by itself (C07.R7 re-evaluated for the guards of classes.py)', floor=1,
           only=lambda c: 'guard-messages' in c)
    rep.rule('C12.R1', 'every size handed to tape.read in decompile_script (and in the generated soft-fork '
             'decompiler handler) is a non-negative constant or an unsigned decode', floor=24)
    rep.rule('C12.R2', 'every iteration of the decompiler main loop starts with a >= 1 byte read', floor=1)
    rep.rule('C12.R3', 'every recursive decompile call is on bytes read from the same tape after >= 1 byte, '
             'hence strictly shorter', floor=7)
    rep.rule('C12.R4', 'operand shape of every decompiler arm equals the shape the VM handler reads', floor=92)
    rep.rule('C12.R5', 'every operand byte reaches the listing through an injective formatter', floor=30)
    rep.rule('C12.R6', 'the domain an arm prints is accepted by the encoder the compiler uses for that op', floor=8)
    rep.rule('C12.R7', 'Tape.read bounds (shared with C07.R2): a read never passes the end', floor=1)
    fi, cfg, kinds, tape_var, ctor, m, arms = dec_arms(w)
    rep.covered('functions', fi.key)

    # tape is Tape(script) with default pointer, script the parameter
    ok = len(ctor.args) == 1 and not ctor.keywords and isinstance(ctor.args[0], ast.Name) and \
        ctor.args[0].id == fi.params[0]
    rep.check('C12.R3', 'parsing.decompile_script|tape-from-parameter', ok, line=ctor.lineno, file=RELP,
              why='' if ok else 'decompiler tape is not Tape(script) with the default pointer')

    # ---- R2 main loop ------------------------------------------------------
    loops = [b for b in cfg.body if isinstance(b, ast.While)]
    ok = False
    why = 'main loop not recognised'
    if len(loops) == 1:
        lp = loops[0]
        t = lp.test
        cond_ok = isinstance(t, ast.UnaryOp) and isinstance(t.op, ast.Not) and isinstance(t.operand, ast.Call) \
            and dotted(t.operand.func) == f'{tape_var}.has_terminated'
        first = lp.body[0] if lp.body else None
        read_ok = False
        if first is not None and not isinstance(first, (ast.If, ast.For, ast.While, ast.Try, ast.Match)):
            for x in ast.walk(first):
                if isinstance(x, ast.Call) and dotted(x.func) == f'{tape_var}.read' and len(x.args) == 1 \
                        and not x.keywords and isinstance(x.args[0], ast.Constant) and \
                        isinstance(x.args[0].value, int) and x.args[0].value >= 1:
                    read_ok = True
        ok = cond_ok and read_ok
        why = '' if ok else 'the loop does not start each iteration with a >= 1 byte read of its own tape'
    rep.check('C12.R2', 'parsing.decompile_script|main-loop', ok, line=loops[0].lineno if loops else fi.node.lineno,
              file=RELP, why=why)
    # pointer never written / rewound by the decompiler
    bad = []
    for n in cfg.nodes:
        for ev in node_events(n):
            if ev[0] in ('store', 'aug'):
                tgt = ev[1] if ev[0] == 'store' else ev[1].target
                if isinstance(tgt, ast.Attribute) and tgt.attr == 'pointer':
                    bad.append(n)
            if ev[0] == 'call' and isinstance(ev[1].func, ast.Attribute) and \
                    ev[1].func.attr in ('reset_pointer', 'reset', 'move_pointer'):
                bad.append(n)
            if ev[0] == 'call' and isinstance(ev[1].func, ast.Attribute) and ev[1].func.attr == 'read' and \
                    (len(ev[1].args) > 1 or ev[1].keywords):
                bad.append(n)
    rep.check('C12.R2', 'parsing.decompile_script|no-pointer-writes', not bad, line=bad[0].line if bad else None,
              file=RELP, why='' if not bad else 'the decompiler moves the tape pointer other than by reading')

    # ---- per arm ------------------------------------------------------------
    vm_shapes = {}
    for name, (code, fr) in w.ops.by_name.items():
        h = w.repo.func(fr.module, fr.name)
        seqs = tape_reads(w, h)
        toks = {tuple(norm_token(r) for r in s) for s in seqs}
        if len(toks) != 1:
            rep.check('C12.R4', f'functions.{h.name}|same-shape-on-every-path', False, line=h.node.lineno,
                      file='tapescript/functions.py',
                      why=f'{h.name} consumes different operand bytes on different normal paths ({sorted(toks)}): on some '
                      f'path an operand byte is left on the tape and executed as the next opcode; no listing can agree')
            continue
        vm_shapes[name] = list(toks)[0]
    nop_h = w.repo.func(w.nop.module, w.nop.name)
    nop_shape = list({tuple(norm_token(r) for r in s) for s in tape_reads(w, nop_h)})
    if len(nop_shape) != 1:
        raise AnalysisError('NOP: shape differs between paths')
    comp_domains = compiler_domains(w)
    n_reads = 0
    seen_ops = set()
    for labels, body, case in arms:
        names = [l for l in labels if isinstance(l, str)]
        wild = None in labels
        arm_body = body
        nop_arm = False
        if wild:
            # `if op_name[:3] == 'NOP': ... else: additional handlers`
            ifs = [s for s in body if isinstance(s, ast.If)]
            if len(ifs) != 1 or 'NOP' not in ast.unparse(ifs[0].test):
                raise AnalysisError('decompile_script: wildcard arm not recognised')
            arm_body = nop_branch(ifs[0])
            nop_arm = True
            names = ['NOP']
        reads = arm_reads(cfg, kinds, arm_body, tape_var)
        n_reads += len(reads)
        shape = tuple(norm_token(r) for r, _ in reads)
        armtag = names[0] if len(names) == 1 else f'{names[0]}+{len(names) - 1}'
        # R1
        for i, (r, call) in enumerate(reads):
            ok = (r.decode == 'const' and r.size >= 0) or r.decode in ('uint', 'byte')
            rep.check('C12.R1', f'parsing.decompile_script|case {armtag}|read#{i + 1}', ok, line=r.line,
                      file=RELP, trivial=(r.decode == 'const'),
                      why='' if ok else f'read size decoded as `{r.decode}`: it can be negative, the tape then '
                      f'moves backwards and the decompiler does not terminate',
                      facts={'decode': r.decode, 'prefix': r.prefix})
        # R4
        for nm in names:
            want = nop_shape[0] if nm == 'NOP' else vm_shapes.get(nm)
            if want is None:
                continue
            seen_ops.add(nm)
            ok = tuple(_unsign(t) for t in shape) == tuple(_unsign(t) for t in want)
            rep.check('C12.R4', f'parsing.decompile_script|case|{nm}', ok, line=case.pattern.lineno, file=RELP,
                      why='' if ok else f'decompiler reads {list(shape)} for {nm}, the VM handler reads {list(want)}',
                      facts={'decompiler': list(shape), 'vm': list(want)})
        # R3 recursive calls
        rec_calls = [x for st in arm_body for x in _calls_in_order(st)
                     if isinstance(x.func, ast.Name) and x.func.id == fi.name]
        for j, rc in enumerate(rec_calls):
            n = cfg.node_of(rc)
            a0 = rc.args[0] if rc.args else None
            k = kinds.of(a0, n) if a0 is not None else None
            ok = k is not None and all(l.tag == 'tape_read' and kinds.path(l.tape) is not None and
                                       l.tape.tag == 'new' for l in k.leaves())
            rep.check('C12.R3', f'parsing.decompile_script|case {armtag}|recursion#{j + 1}', ok, line=rc.lineno,
                      file=RELP, why='' if ok else 'recursive call on something other than bytes read from this tape')
        # R5 / R6 formatters
        _formatters(w, rep, cfg, kinds, armtag, names, arm_body, reads, tape_var, comp_domains, fi.name)
        # R6 (payload lengths): a length-prefixed operand is listed for every length the prefix can hold; the
        # compiler helper that re-reads the listing must accept that whole range
        if any(tok.startswith('n[u') for tok in shape):
            from .rules_c11 import helper_prefix_bounds
            for nm in names:
                cd = comp_domains.get(nm)
                if not cd or not cd.get('helper'):
                    continue
                try:
                    bounds = helper_prefix_bounds(w, cd['helper'])
                except AnalysisError:
                    continue
                short = [(wd, mx) for wd, mx in bounds if mx is not None and mx < 256 ** wd - 1]
                rep.check('C12.R6', f'parsing.decompile_script|case|{nm}|payload-length-domain', not short,
                          line=case.pattern.lineno, file=RELP,
                          why='' if not short else
                          f'{nm}: the listing can carry a payload of up to {256 ** short[0][0] - 1} bytes (the VM and the '
                          f'shorthand PUSH produce it) but the compiler helper {cd["helper"]} rejects lengths above '
                          f'{short[0][1]}: such a listing does not recompile',
                          facts={'bounds': bounds[:6]})
        # R5b: the listing of an arm is emitted on every path
        _emission(w, rep, armtag, names, arm_body)
    missing = sorted(set(vm_shapes) - seen_ops)
    rep.check('C12.R4', 'parsing.decompile_script|all-ops-covered', not missing and 'NOP' in seen_ops, file=RELP,
              why='' if not missing else f'ops without a decompiler arm: {missing}')
    if n_reads < 24:
        # every op is accounted for by all-ops-covered / R4; this floor only guards against an empty inventory
        # (arms for ops with the same operand layout may legitimately be merged)
        raise AnalysisError(f'only {n_reads} reads found in decompile_script')

    # generated soft-fork decompiler handler
    sf = w.repo.func('tools', 'add_soft_fork.decompiler_handler')
    scfg, sk = w.cfg(sf), w.kinds(sf)
    stape = sf.params[1]
    rd = arm_reads(scfg, sk, scfg.body, stape)
    for i, (r, call) in enumerate(rd):
        ok = (r.decode == 'const' and r.size >= 0) or r.decode in ('uint', 'byte')
        rep.check('C12.R1', f'tools.add_soft_fork.decompiler_handler|read#{i + 1}', ok, line=r.line,
                  file='tapescript/tools.py', why='' if ok else f'read size decoded as {r.decode}')

    # ---- R7 bounds in Tape.read (also decided in C07.R2) ---------------------
    from . import linear as L
    from .guards import edge_formula
    tr = w.repo.func('classes', 'Tape.read')
    tcfg = w.cfg(tr)
    want = L.formula(ast.parse(f'self.pointer + {tr.params[1]} <= len(self.data)', mode='eval').body)
    edges = []
    for t in tcfg.nodes:
        if t.kind == 'test':
            for succ, lab in t.succ:
                if lab in (True, False):
                    try:
                        if L.implies(edge_formula(tcfg, t, lab), want):
                            edges.append((t, succ, lab))
                    except Exception:
                        pass
    rets = [n for n in tcfg.nodes if n.kind == 'stmt' and isinstance(n.ast, ast.Return)]
    ok = bool(edges) and bool(rets) and all(tcfg.must_pass(tcfg.entry, r, through_edges=edges) for r in rets)
    rep.check('C12.R7', 'classes.Tape.read|bounds', ok, line=tr.node.lineno, file='tapescript/classes.py',
              why='' if ok else 'Tape.read can return without checking pointer + size <= len(data)')

    rep.explanation = (
        'Termination of decompile_script is decided structurally: all read sizes are non-negative '
        '(R1), each loop iteration consumes >= 1 byte (R2), recursion is on strictly shorter byte '
        'strings (R3) and Tape.read is bounded (R7); with these the pointer strictly increases and is '
        'bounded by len(script), and recursion is well-founded. The round trip is decided only in its '
        'structural parts: operand-shape agreement decompiler/VM (R4), injective formatters (R5) and '
        'print-domain within parse-domain (R6); byte equality of compile(decompile(b)) for every program '
        'is not decided. Handlers registered by third parties through add_opcode_parsing_handlers are '
        'out of scope.')
    rep.assumptions += ['third-party decompiler handlers (add_opcode_parsing_handlers) are out of scope']


def _unsign(tok: str) -> str:
    return tok


# ---------------------------------------------------------------------------
def compiler_domains(w: World) -> dict[str, dict]:
    """op name -> {'helper': name, 'd': 's8'|'u8'|'any'|None} from get_args' dispatch."""
    ga = w.repo.func('parsing', 'get_args')
    out = {}
    helper_dom = {}

    def dom_of(helper: str) -> str | None:
        if helper in helper_dom:
            return helper_dom[helper]
        hf = w.repo.func('parsing', helper)
        src_nodes = list(ast.walk(hf.node))
        # delegating helper
        for n in src_nodes:
            if isinstance(n, ast.Return) and isinstance(n.value, ast.Call) and isinstance(n.value.func, ast.Name) \
                    and n.value.func.id.startswith('_get_') and n.value.func.id != helper:
                helper_dom[helper] = dom_of(n.value.func.id)
                return helper_dom[helper]
        import re as _re
        d = None
        i2b_targets = {n.targets[0].id for n in src_nodes if isinstance(n, ast.Assign) and isinstance(n.targets[0], ast.Name)
                       and isinstance(n.value, ast.Call) and dotted(n.value.func) == 'int_to_bytes'}
        has_i2b = any(isinstance(n, ast.Call) and dotted(n.func) == 'int_to_bytes' for n in src_nodes)
        one_byte = any(isinstance(n, ast.Assert) and
                       any(ast.unparse(n.test).replace(' ', '') == f'len({t})==1' for t in i2b_targets)
                       for n in src_nodes)
        # ranges the helper spells out with comparisons, derived along its non-raising paths (C11's derivation)
        from .rules_c11 import helper_decimal_domains
        try:
            spelled = helper_decimal_domains(w, helper)
        except AnalysisError:
            spelled = []
        signed = [(lo, hi) for codec, _, lo, hi in spelled if codec == 's']
        unsigned1 = [(lo, hi) for codec, _, lo, hi in spelled if codec == 'u1']
        cmps = [ast.unparse(n).replace(' ', '') for n in src_nodes if isinstance(n, ast.Compare)]
        lt256 = [c for c in cmps if _re.fullmatch(r'\w+<256', c)]
        if has_i2b and one_byte:
            d = 's8'
        elif signed:
            lo, hi = max(l for l, _ in signed), min(h for _, h in signed)
            d = 's8' if (lo, hi) == (-128, 127) else f'only [{lo}, {hi}]'
        elif unsigned1:
            # n.to_bytes(1, 'big') raises outside [0, 255] by itself: guards can only narrow
            lo = max([l for l, _ in unsigned1 if l is not None] + [0])
            hi = min([h for _, h in unsigned1 if h is not None] + [255])
            d = 'u8' if (lo, hi) == (0, 255) else f'only [{lo}, {hi}]'
        elif has_i2b:
            d = 'any'
        elif len(lt256) >= 2:
            d = 'u8'        # WRITE_CACHE: size < 256 and count < 256, count printed as d<u8>
        helper_dom[helper] = d
        return d

    for mt, cases in match_tables(ga):
        for labels, c in cases:
            helper = None
            for n in ast.walk(c):
                if isinstance(n, ast.Return) and isinstance(n.value, ast.Call) and isinstance(n.value.func, ast.Name):
                    helper = n.value.func.id
            if None in labels:
                # NOP branch
                for n in ast.walk(c):
                    if isinstance(n, ast.If) and 'NOP' in ast.unparse(n.test):
                        for r in ast.walk(ast.Module(body=nop_branch(n), type_ignores=[])):
                            if isinstance(r, ast.Return) and isinstance(r.value, ast.Call):
                                out['NOP'] = {'helper': r.value.func.id, 'd': dom_of(r.value.func.id)}
                continue
            for l in labels:
                if isinstance(l, str):
                    out[l] = {'helper': helper, 'd': dom_of(helper) if helper else None}
    return out


def _formatters(w, rep, cfg, kinds, armtag, names, body, reads, tape_var, comp_domains, self_name):
    """R5: each read is a length prefix of a later read, or flows into the listing through an
    injective formatter.  R6: printed decimal domain is accepted by the compiler helper."""
    # map: variable name -> read (single assignment in the arm)
    var_of = {}
    temps = {}          # plain local holding exactly the bytes of one read: `t = tape.read(2)`
    read_calls = [c for _, c in reads]

    def _subst(value):
        """`int.from_bytes(t, 'big')` with t a pure temporary of a read -> the same expression over the read call
        itself (the very node, so identity tests keep working)."""
        if not any(isinstance(x, ast.Name) and x.id in temps for x in ast.walk(value)):
            return value
        import copy as _copy

        class S(ast.NodeTransformer):
            def visit_Name(self, n):
                if isinstance(n.ctx, ast.Load) and n.id in temps:
                    return temps[n.id]
                return n

            def visit_Call(self, n):
                if any(n is c for c in read_calls):
                    return n            # never copy into a read call
                self.generic_visit(n)
                return n
        keep = {id(c): c for c in read_calls}
        memo = {id(c): c for c in read_calls}
        v2 = _copy.deepcopy(value, memo)
        return S().visit(v2)
    for st in body:
        if isinstance(st, ast.Assign) and len(st.targets) == 1 and isinstance(st.targets[0], ast.Name):
            value = _subst(st.value)
            nm = st.targets[0].id
            temps.pop(nm, None)
            for r, call in reads:
                if any(x is call for x in ast.walk(value)):
                    var_of[nm] = (r, call, value)
            if any(value is c for c in read_calls):
                temps[nm] = value
    used_as_size = set()
    for r, call in reads:
        for x in ast.walk(call.args[0]):
            if isinstance(x, ast.Name) and x.id in var_of:
                used_as_size.add(id(var_of[x.id][1]))
            if isinstance(x, ast.Name) and x.id in temps:
                used_as_size.add(id(temps[x.id]))
    # formatted values in add_line(f'...') and recursive decompile calls
    fvals = []
    for st in body:
        for x in ast.walk(st):
            if isinstance(x, ast.JoinedStr):
                for v in x.values:
                    if isinstance(v, ast.FormattedValue):
                        fvals.append(v.value)
    rec_args = []
    for st in body:
        for x in ast.walk(st):
            if isinstance(x, ast.Call) and isinstance(x.func, ast.Name) and x.func.id == self_name and x.args:
                rec_args.append(x.args[0])

    def classify(expr):
        """-> (read, formatter) for an expression printed into the listing."""
        # resolve a plain variable to its defining expression
        e = expr
        if isinstance(e, ast.Name) and e.id in var_of:
            r, call, defn = var_of[e.id]
            return r, call, _fmt_of(defn, call, None)
        for r, call in reads:
            if any(x is call for x in ast.walk(e)):
                return r, call, _fmt_of(e, call, None)
        # expression over a variable:  val.hex(), bytes_to_int(val)
        for x in ast.walk(e):
            if isinstance(x, ast.Name) and x.id in var_of:
                r, call, defn = var_of[x.id]
                inner = _fmt_of(defn, call, None)
                outer = _fmt_of(e, None, x.id)
                return r, call, _compose(inner, outer)
        return None, None, None

    printed = {}
    for fv in fvals:
        r, call, fmt = classify(fv)
        if r is not None:
            printed[id(call)] = (r, _finish_fmt(fmt, r), fv)
    for ra in rec_args:
        if isinstance(ra, ast.Name) and ra.id in var_of:
            r, call, _ = var_of[ra.id]
            printed[id(call)] = (r, 'recursive-listing', ra)
    for i, (r, call) in enumerate(reads):
        tag = f'parsing.decompile_script|case {armtag}|operand#{i + 1}'
        if id(call) in printed:
            _, fmt, fv = printed[id(call)]
            lossy = fmt in ('signed-int-of-variable-length', 'unknown') and id(call) not in used_as_size
            why = ''
            if lossy:
                why = (f'operand printed through a lossy formatter (`{ast.unparse(fv)[:40]}`): leading zero / '
                       f'sign bytes are not recoverable, recompiling changes the bytes')
            rep.check('C12.R5', tag, not lossy, line=r.line, file=RELP, why=why, facts={'formatter': fmt})
            # R6
            if fmt in ('s8', 'u8'):
                for nm in names:
                    cd = comp_domains.get(nm)
                    if cd is None or cd.get('d') is None:
                        continue
                    acc = cd['d']
                    ok = acc == 'any' or acc == fmt
                    rep.check('C12.R6', f'parsing.decompile_script|case|{nm}|operand#{i + 1}', ok, line=r.line,
                              file=RELP, why='' if ok else
                              f'{nm} prints its operand as {fmt} (d{"0..255" if fmt == "u8" else "-128..127"}) but '
                              f'the compiler helper {cd["helper"]} accepts {acc}: ' +
                              ('values >= 128 do not recompile' if not str(acc).startswith('only') else
                               'a listing the decompiler prints for some operand byte does not compile again'),
                              facts={'printed': fmt, 'accepted': acc, 'helper': cd['helper']})
        elif id(call) in used_as_size:
            rep.check('C12.R5', tag, True, line=r.line, file=RELP, facts={'formatter': 'length-prefix (implied)'},
                      trivial=True)
        else:
            rep.check('C12.R5', tag, False, line=r.line, file=RELP,
                      why='operand bytes are read but never reach the listing')


def _emission(w, rep, armtag, names, body):
    """Every add_line / extend of an arm is unconditional.  The one enumerated exception: the
    EXCEPT part of OP_TRY_EXCEPT may be skipped when its listing is empty, because parse_try
    re-creates the empty except block (checked: it appends a zero length when no EXCEPT was
    parsed).  A conditional `} ELSE {` would make the compiler choose OP_IF instead of
    OP_IF_ELSE."""
    conds = []
    # the listing is what decompile_script returns; emitters are its nested helper functions
    dfi = w.repo.func('parsing', 'decompile_script')
    listing = None
    for n in dfi.node.body:
        if isinstance(n, ast.Return) and isinstance(n.value, ast.Name):
            listing = n.value.id
    emitters = {n.name for n in dfi.node.body if isinstance(n, ast.FunctionDef)}
    if listing is None or not emitters:
        raise AnalysisError('decompile_script: listing variable / emit helpers not recognised')

    def rec(stmts, under):
        for st in stmts:
            if isinstance(st, ast.If):
                rec(st.body, under + [st.test])
                rec(st.orelse, under + [st.test])
            elif isinstance(st, (ast.For, ast.While, ast.Try)):
                rec(getattr(st, 'body', []), under + [st])
            else:
                emits = [x for x in ast.walk(st) if isinstance(x, ast.Call) and (
                    (isinstance(x.func, ast.Name) and x.func.id in emitters) or
                    (isinstance(x.func, ast.Attribute) and x.func.attr in ('extend', 'append')
                     and dotted(x.func.value) == listing))]
                if emits and under:
                    conds.append((under, emits[0]))
    rec(body, [])
    ok, why = True, ''
    for under, emit in conds:
        allowed = False
        if names == ['OP_TRY_EXCEPT'] and len(under) == 1 and isinstance(under[0], ast.Name):
            # the compiler side of the idiom
            pt = w.repo.func('parsing', 'parse_try')
            from .feval import feval, Unknown, free_names
            for n in ast.walk(pt.node):
                # `if <len> == 0: code += <two zero bytes>`: an absent EXCEPT is re-created empty.  Both the test (true
                # exactly for 0) and the appended bytes are decided by evaluation, not by their spelling.
                if isinstance(n, ast.If) and len(free_names(n.test)) == 1:
                    v = next(iter(free_names(n.test)))
                    # the tested name is the byte length of the EXCEPT clause (somewhere assigned from a len(..)), not a
                    # flag that merely says whether an EXCEPT keyword was seen
                    is_len = any(isinstance(a2, (ast.Assign, ast.AugAssign)) and
                                 any(isinstance(t2, ast.Name) and t2.id == v for t2 in
                                     (a2.targets if isinstance(a2, ast.Assign) else [a2.target])) and
                                 any(isinstance(c2, ast.Call) and isinstance(c2.func, ast.Name) and c2.func.id in ('len', 'sum')
                                     for c2 in ast.walk(a2.value)) for a2 in ast.walk(pt.node))
                    if not is_len:
                        continue
                    try:
                        only_zero = [bool(feval(n.test, {v: k})) for k in range(0, 6)] == [True] + [False] * 5
                    except Unknown:
                        continue
                    if not only_zero:
                        continue
                    for a in n.body:
                        if isinstance(a, ast.AugAssign) and isinstance(a.op, ast.Add):
                            try:
                                if feval(a.value, {v: 0}) == b'\x00\x00':
                                    allowed = True
                            except Unknown:
                                pass
        if not allowed:
            ok = False
            why = (f'`{ast.unparse(emit)[:40]}` is emitted only under a condition: on the other path operand bytes that '
                   f'were read do not reach the listing and recompiling yields different bytes')
    rep.check('C12.R5', f'parsing.decompile_script|case {armtag}|emission-unconditional', ok,
              line=conds[0][1].lineno if conds else None, file=RELP, why=why, trivial=not conds)


def _fmt_of(e, call, var) -> str:
    """Formatter applied directly to the read call (or to variable `var`)."""
    def is_src(x):
        if call is not None:
            return x is call
        return isinstance(x, ast.Name) and x.id == var
    if is_src(e):
        return 'raw'
    if isinstance(e, ast.Call) and isinstance(e.func, ast.Attribute) and e.func.attr == 'hex' and is_src(e.func.value):
        return 'hex'
    if isinstance(e, ast.Subscript) and is_src(e.value) and isinstance(e.slice, ast.Constant) and e.slice.value == 0:
        return 'byte0'
    if isinstance(e, ast.Call) and dotted(e.func) == 'bytes_to_int' and e.args and is_src(e.args[0]):
        return 'bytes_to_int'
    if isinstance(e, ast.Call) and dotted(e.func) == 'int.from_bytes' and e.args and is_src(e.args[0]):
        return 'uint'
    return 'unknown'


def _compose(inner: str, outer: str) -> str:
    return {'raw': outer}.get(inner, inner if outer == 'raw' else 'unknown')


def _finish_fmt(fmt: str, r: Read) -> str:
    if fmt == 'hex':
        return 'hex'
    if fmt == 'byte0':
        return 'u8' if r.size == 1 else 'unknown'
    if fmt == 'bytes_to_int':
        return 's8' if r.size == 1 else 'signed-int-of-variable-length'
    if fmt == 'uint':
        if r.size == 1:
            return 'u8'
        return f'u{8 * r.size}' if r.size is not None else 'signed-int-of-variable-length'
    return 'unknown'
