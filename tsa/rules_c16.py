"""C16 - time constraints accept exactly their documented window."""
from __future__ import annotations
import ast
from .report import Report, AnalysisError
from .summary import World, node_events
from .model import dotted
from . import linear as L
from .guards import make_subst

LEVEL = 'other'
REL = 'tapescript/functions.py'
TRUE, FALSE = b'\xff', b'\x00'


def decision_paths(w: World, fi, term):
    """All non-raising entry->exit paths of a handler as (formula of the non-guard test edges,
    list of constants put on the stack)."""
    cfg = w.cfg(fi)
    stack = fi.params[1]
    paths = cfg.paths(cfg.entry, lambda n: n is cfg.exit or n.kind == 'raise', cap=4096)
    out = []
    for p in paths:
        if p[-1][0].kind == 'raise':
            continue
        conj = []
        puts = []
        for n, lab in p:
            if n.kind == 'test' and n.guard is None and lab in (True, False):
                f = L.formula(n.ast, make_subst(cfg, n), term)
                conj.append(f if lab else L.f_not(f))
            if n.kind == 'stmt' and n.ast is not None:
                for ev in node_events(n):
                    if ev[0] == 'call':
                        c = ev[1]
                        if isinstance(c.func, ast.Attribute) and c.func.attr == 'put' and \
                                isinstance(c.func.value, ast.Name) and c.func.value.id == stack:
                            a = c.args[0] if c.args else None
                            puts.append(a.value if isinstance(a, ast.Constant) else ast.unparse(a) if a is not None else None)
                        elif isinstance(c.func, ast.Name):
                            hc = w.handler_call(fi, c)
                            if hc is not None:
                                nm = hc[0].name
                                ops = w.op_of_handler.get(nm, [])
                                if 'OP_TRUE' in ops:
                                    puts.append(TRUE)
                                elif 'OP_FALSE' in ops:
                                    puts.append(FALSE)
        out.append((L.f_and(conj), puts))
    return out


def _mk_term(mapping_log: dict, flag_name: str, tape: str = 'tape', cache: str = 'cache'):
    def term(e: ast.AST) -> str:
        txt = ast.unparse(e)
        t = txt.replace(' ', '').replace('"', "'")
        if t == f"{cache}['timestamp']":
            mapping_log['T'] = txt
            return 'T'
        if t in ('int(time())', 'int(time.time())'):
            mapping_log['NOW'] = txt
            return 'NOW'
        if t == f"{tape}.flags['{flag_name}']":
            mapping_log['THR'] = txt
            return 'THR'
        if 'int.from_bytes(' in t and 'signed' not in t:
            mapping_log['C'] = txt
            return 'C'
        return txt
    return term


def _verify_class(w: World) -> bool:
    """OP_VERIFY raises the script-error class unless the popped top is true."""
    fi = w.handler_for('OP_VERIFY')
    cfg = w.cfg(fi)
    tests = [t for t in cfg.nodes if t.kind == 'test' and t.guard is not None]
    if len(tests) != 1:
        return False
    t = tests[0]
    kinds = w.kinds(fi)
    lv = kinds.of(t.ast, t).leaves()
    # the guard condition is the boolean decode of the popped item (directly or through a local)
    ok = bool(lv) and all(l.tag == 'call' and l.name == 'bytes_to_bool' and len(l.args) == 1 and
                          all(x.tag == 'stack_item' and x.how == 'get' and kinds.path(x.stack) == fi.params[1]
                              for x in l.args[0].leaves()) for l in lv)
    for s, lab in t.succ:
        if lab is False and cfg.raise_class_of(s) != 'ScriptExecutionError':
            ok = False
    return ok


def run(w: World, rep: Report):
    rep.rule('C16.R1', 'decision table of OP_CHECK_TIMESTAMP equals  t >= c and (thr <= 0 or t - now < thr)  '
             'over all orderings; constraint decoded unsigned', floor=3)
    rep.rule('C16.R2', 'decision table of OP_CHECK_EPOCH equals  c - now < thr', floor=3)
    rep.rule('C16.R3', 'the _VERIFY forms are exactly base handler ; OP_VERIFY on the same tape, and OP_VERIFY '
             'raises the script-error class unless the popped item is true', floor=3)
    specs = [
        ('C16.R1', 'OP_CHECK_TIMESTAMP', 'ts_threshold', 'T >= C and (THR <= 0 or T - NOW < THR)', ('T', 'C', 'NOW', 'THR')),
        ('C16.R2', 'OP_CHECK_EPOCH', 'epoch_threshold', 'C - NOW < THR', ('C', 'NOW', 'THR')),
    ]
    for rule, op, flag, want_txt, needed in specs:
        fi = w.handler_for(op)
        rep.covered('handlers', fi.name)
        mp = {}
        term = _mk_term(mp, flag, fi.params[0], fi.params[2])
        paths = decision_paths(w, fi, term)
        if not paths:
            raise AnalysisError(f'{op}: no non-raising path')
        shape_ok = all(len(puts) == 1 and puts[0] in (TRUE, FALSE) for _, puts in paths)
        rep.check(rule, f'functions.{fi.name}|one-boolean-per-path', shape_ok, line=fi.node.lineno, file=REL,
                  why='' if shape_ok else f'a path puts {[p for _, p in paths if len(p) != 1 or p[0] not in (TRUE, FALSE)][0]} '
                  f'instead of exactly one of the two boolean constants')
        true_f = L.f_or([f for f, puts in paths if puts == [TRUE]])
        want = L.formula(ast.parse(want_txt, mode='eval').body)
        try:
            eq, cex, atoms = L.equivalent(true_f, want)
        except AnalysisError as e:
            eq, cex, atoms = False, None, []
        missing = [s for s in needed if s not in mp]
        why = ''
        if missing:
            eq = False
            why = f'the handler does not compare the expected quantities (missing {missing}; an unsigned decode of the ' \
                  f'popped constraint, cache timestamp, int(time()) and the {flag} flag are expected)'
        elif not eq:
            row = ''
            if cex is not None:
                row = ' differs when ' + ', '.join(
                    f'{L.show(("lit", a, True))} is {v}' for a, v in cex.items())
            why = f'{op} yields true exactly when {L.show(true_f)}; documented: {want_txt};{row}'
        rep.check(rule, f'functions.{fi.name}|decision-table', eq, line=fi.node.lineno, file=REL, why=why,
                  facts={'code': L.show(true_f), 'documented': want_txt, 'atoms': len(atoms), 'terms': mp})
        # the constraint is the popped item, decoded unsigned big-endian
        cfg = w.cfg(fi)
        kinds = w.kinds(fi)
        dec_ok = False
        for n in cfg.nodes:
            if n.kind == 'stmt' and isinstance(n.ast, ast.Assign):
                k = kinds.of(n.ast.value, n)
                if k.tag == 'uint' and k.get('order') == 'big' and \
                        all(l.tag == 'stack_item' and l.how == 'get' for l in k.src.leaves()):
                    dec_ok = True
                if k.tag == 'sint' and any(l.tag == 'stack_item' for l in k.src.leaves()):
                    dec_ok = False
                    break
        rep.check(rule, f'functions.{fi.name}|constraint-unsigned', dec_ok, line=fi.node.lineno, file=REL,
                  why='' if dec_ok else 'the constraint is not the popped stack item decoded as an unsigned big-endian integer')
        # the only length a constraint may be refused for is zero: every guard / test that speaks about the length of
        # a name is evaluated over the lengths 0..80 - anything but "at least one byte" refuses valid encodings (a
        # 63-bit timestamp is 9 bytes in the signed minimal encoding `push d..` produces)
        from .rules_c02 import _accepted_lengths
        narrow = []
        for t in cfg.nodes:
            if t.kind == 'test' and t.ast is not None:
                al = _accepted_lengths(t.ast)
                if al is not None and al[1] not in (set(range(1, 81)), {0}):
                    narrow.append((ast.unparse(t.ast)[:50], sorted(set(range(1, 81)) - al[1])[:3]))
        rep.check(rule, f'functions.{fi.name}|constraint-any-length', not narrow, line=fi.node.lineno, file=REL,
                  why='' if not narrow else f'`{narrow[0][0]}` refuses constraints of length {narrow[0][1]}..: the instruction '
                  f'raises where the documented window gives true or false')
        # the clock is read once per decision
        clocks = cfg.nodes_with_call(lambda c: dotted(c.func) in ('time', 'time.time'))
        rep.check(rule, f'functions.{fi.name}|clock-read-once', len(clocks) == 1, line=fi.node.lineno, file=REL,
                  why='' if len(clocks) == 1 else f'the clock is read {len(clocks)} times within one decision')
    # ---- R3 -----------------------------------------------------------------
    vc = _verify_class(w)
    vh = w.handler_for('OP_VERIFY')
    rep.check('C16.R3', 'functions.OP_VERIFY|verify-class', vc, line=vh.node.lineno, file=REL,
              why='' if vc else 'OP_VERIFY does not raise ScriptExecutionError exactly when the popped item is false')
    for op, base in (('OP_CHECK_TIMESTAMP_VERIFY', 'OP_CHECK_TIMESTAMP'), ('OP_CHECK_EPOCH_VERIFY', 'OP_CHECK_EPOCH')):
        fi = w.handler_for(op)
        ok, why = verify_form(w, fi, base)
        rep.check('C16.R3', f'functions.{fi.name}|base-then-verify', ok, line=fi.node.lineno, file=REL, why=why)
    from .report import depend
    depend(rep, w, 'rules_c19', ('C19.R3', 'C19.R4'), 'C16.TD19',
           'the thresholds a run uses are those configured for that run: no run writes into a shared default or into the '
           'embedder\'s dictionaries, so earlier runs cannot pin stale thresholds (C19.R3/R4 re-evaluated)', floor=20)
    depend(rep, w, 'rules_c09', ('C09.R2', 'C09.R3'), 'C16.TD9',
           'the clock thresholds (flags) configured for a run hold inside DEF/CALL, IF, TRY and LOOP bodies too - the time '
           'checks of these locks run inside such bodies (C09.R2/R3 re-evaluated)', floor=16)
    depend(rep, w, 'rules_c08', ('C08.R1',), 'C16.TD8',
           'the execution timestamp t the instructions compare is the embedder\'s: no code between the entry points and the '
           'handlers stores under a str key of the run cache, so a supplied `timestamp` (0 included) is never replaced '
           '(C08.R1 re-evaluated)', floor=18)
    rep.explanation = (
        'The property touches its values only through comparisons, so the set of orderings is finite: the '
        'if/elif/else formula of each instruction is extracted from the CFG (locals substituted by their '
        'definitions, comparisons canonicalised to linear atoms) and compared with the documented formula '
        'by truth table over all assignments of the atoms - exhaustive over orderings, including every '
        'boundary. The _VERIFY forms are checked to be base;verify. The three timestamp lock builders are '
        'decided in the template rules (C16.R4, tsa.tscript).')
    rep.assumptions += ['the type/presence guards before the comparison only reject malformed inputs',
                        'push d<ts> (signed minimal encoding) and the unsigned decode agree for ts >= 0']
    # builders
    try:
        from . import rules_templates as rt
    except ImportError:
        rt = None
    if rt is not None and hasattr(rt, 'c16_builders'):
        rt.exact_number_formatting(w, rep, 'C16.R5')
        rt.c16_builders(w, rep)


def timestamp_table(w: World, rep: Report, rule: str):
    """The decision table of OP_CHECK_TIMESTAMP as one instance (used by the lock properties whose
    statements depend on it)."""
    fi = w.handler_for('OP_CHECK_TIMESTAMP')
    mp = {}
    term = _mk_term(mp, 'ts_threshold', fi.params[0], fi.params[2])
    paths = decision_paths(w, fi, term)
    true_f = L.f_or([f for f, puts in paths if puts == [TRUE]])
    want_txt = 'T >= C and (THR <= 0 or T - NOW < THR)'
    want = L.formula(ast.parse(want_txt, mode='eval').body)
    try:
        eq, cex, atoms = L.equivalent(true_f, want)
    except AnalysisError:
        eq = False
    ok = eq and all(k in mp for k in ('T', 'C', 'NOW', 'THR')) and \
        all(len(p) == 1 and p[0] in (TRUE, FALSE) for _, p in paths)
    rep.check(rule, f'functions.{fi.name}|decision-table', ok, line=fi.node.lineno, file=REL,
              why='' if ok else f'OP_CHECK_TIMESTAMP yields true exactly when {L.show(true_f)}; the time locks are '
              f'specified against {want_txt}')


def verify_form(w: World, fi, base_op: str):
    """Handler body is exactly `BASE(tape, stack, cache); VERIFY(tape, stack, cache)`."""
    body = [s for s in fi.node.body if not (isinstance(s, ast.Expr) and isinstance(s.value, ast.Constant))]
    want = [w.handler_for(base_op).name, w.handler_for('OP_VERIFY').name]
    got = []
    for s in body:
        if isinstance(s, ast.Expr) and isinstance(s.value, ast.Call) and isinstance(s.value.func, ast.Name):
            c = s.value
            args = [a.id if isinstance(a, ast.Name) else None for a in c.args]
            if args != fi.params[:3]:
                return False, f'{c.func.id} is not called on the handler\'s own (tape, stack, cache)'
            got.append(c.func.id)
        else:
            return False, f'unexpected statement `{ast.unparse(s)[:50]}`'
    if got != want:
        return False, f'body calls {got}, expected {want}'
    return True, ''
