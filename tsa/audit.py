"""E7 - sensitivity audit (thorough tier): the checkers are tested both ways on scratch
copies of the tree.  Breaking variants (one rule instance broken per variant) must make
exactly the expected rule fire; behaviour-preserving rewrites must stay silent.  An
undetected breaking variant or a noisy preserving variant is an ANALYSIS-ERROR (the
checker is defective), never a violation of the tree.  Nothing from the repository is
executed; variants are text edits applied to a copy under a temporary directory."""
from __future__ import annotations
import concurrent.futures as cf
import os
import random
import shutil
import tempfile
import time

from .report import Report, AnalysisError, load_known


def _copy_tree(src_root: str, dst_root: str):
    os.makedirs(dst_root, exist_ok=True)
    shutil.copytree(os.path.join(src_root, 'tapescript'), os.path.join(dst_root, 'tapescript'),
                    ignore=shutil.ignore_patterns('__pycache__', '*.pyc'))
    for f in ('docs.md', 'language_spec.md'):
        p = os.path.join(src_root, f)
        if os.path.exists(p):
            shutil.copy(p, os.path.join(dst_root, f))


def apply_edits(root: str, edits) -> str | None:
    """edits: list of (relative file, old, new[, count]).  Returns a reason when stale."""
    # positional splices first, from the end of each file backwards so offsets stay valid
    splices = [e for e in edits if e and e[0] == 'splice']
    edits = [e for e in edits if not (e and e[0] == 'splice')]
    by_file: dict[str, list] = {}
    for e in splices:
        by_file.setdefault(e[1], []).append(e)
    for rel, es in by_file.items():
        p = os.path.join(root, rel)
        if not os.path.exists(p):
            return f'{rel} missing'
        lines = open(p, encoding='utf-8').read().split('\n')
        es.sort(key=lambda e: (e[2], e[3]), reverse=True)
        for _, _, l1, c1, l2, c2, new in es:
            # ast column offsets are utf-8 byte offsets
            b1 = lines[l1 - 1].encode('utf-8')
            b2 = lines[l2 - 1].encode('utf-8')
            head = b1[:c1].decode('utf-8')
            tail = b2[c2:].decode('utf-8')
            lines[l1 - 1:l2] = [head + new + tail]
        with open(p, 'w', encoding='utf-8') as f:
            f.write('\n'.join(lines))
    for ed in edits:
        rel, old, new = ed[0], ed[1], ed[2]
        want = ed[3] if len(ed) > 3 else 1
        p = os.path.join(root, rel)
        if not os.path.exists(p):
            return f'{rel} missing'
        s = open(p, encoding='utf-8').read()
        if s.count(old) != want:
            return f'{rel}: anchor text occurs {s.count(old)}x (expected {want})'
        s = s.replace(old, new)
        with open(p, 'w', encoding='utf-8') as f:
            f.write(s)
    return None


def apply_transform(root: str, spec) -> str | None:
    """Whole-file behaviour-preserving rewrites.
    ('reformat',)                 every package file re-emitted by ast.unparse (comments, layout, quote style,
                                  line numbers all change)
    ('rename', file, {old: new})  word-boundary rename of local identifiers in one file"""
    import ast
    import re
    kind = spec[0]
    pkg = os.path.join(root, 'tapescript')
    if kind == 'reformat':
        for fn in sorted(os.listdir(pkg)):
            if fn.endswith('.py'):
                p = os.path.join(pkg, fn)
                src = open(p, encoding='utf-8').read()
                out = ast.unparse(ast.parse(src)) + '\n'
                with open(p, 'w', encoding='utf-8') as f:
                    f.write(out)
        return None
    if kind == 'guards-to-if':
        # every `sert/vert/tert(cond, msg)` statement of the named files becomes `if not (cond): raise X(msg)`
        cls = {'sert': 'ScriptExecutionError', 'vert': 'ValueError', 'tert': 'TypeError', 'yert': 'SyntaxError'}
        for rel in spec[1]:
            p = os.path.join(root, rel)
            src = open(p, encoding='utf-8').read()
            tree = ast.parse(src)
            lines = src.split('\n')
            edits = []
            for n in ast.walk(tree):
                if isinstance(n, ast.Expr) and isinstance(n.value, ast.Call) and isinstance(n.value.func, ast.Name) \
                        and n.value.func.id in cls and 1 <= len(n.value.args) <= 2 and not n.value.keywords:
                    c = n.value
                    cond = ast.unparse(c.args[0])
                    msg = ast.unparse(c.args[1]) if len(c.args) == 2 else "''"
                    ind = ' ' * n.col_offset
                    new = f'if not ({cond}):\n{ind}    raise {cls[c.func.id]}({msg})'
                    edits.append((n.lineno, n.col_offset, n.end_lineno, n.end_col_offset, new))
            edits.sort(reverse=True)
            for l1, c1, l2, c2, new in edits:
                head = lines[l1 - 1][:c1]
                tail = lines[l2 - 1][c2:]
                lines[l1 - 1:l2] = [head + new + tail]
            out = '\n'.join(lines)
            # the exception classes must be importable where they are raised
            if 'functions.py' in rel:
                out = out.replace('from .errors import tert, vert, sert', 'from .errors import tert, vert, sert, ScriptExecutionError')
            if 'classes.py' in rel:
                out = out.replace('from .errors import sert, tert', 'from .errors import sert, tert, ScriptExecutionError')
            with open(p, 'w', encoding='utf-8') as f:
                f.write(out)
        return None
    if kind == 'invert-ifs':
        # every `if c: A else: B` (not an elif chain) of the named files becomes `if not (c): B else: A`
        class Inv(ast.NodeTransformer):
            def visit_If(self, n):
                self.generic_visit(n)
                if n.orelse and not (len(n.orelse) == 1 and isinstance(n.orelse[0], ast.If)) and \
                        not (len(n.body) == 1 and isinstance(n.body[0], ast.If)):
                    t = n.test
                    nt = t.operand if (isinstance(t, ast.UnaryOp) and isinstance(t.op, ast.Not)) else \
                        ast.UnaryOp(op=ast.Not(), operand=t)
                    return ast.copy_location(ast.If(test=nt, body=n.orelse, orelse=n.body), n)
                return n
        for rel in spec[1]:
            p = os.path.join(root, rel)
            tree = Inv().visit(ast.parse(open(p, encoding='utf-8').read()))
            ast.fix_missing_locations(tree)
            with open(p, 'w', encoding='utf-8') as f:
                f.write(ast.unparse(tree) + '\n')
        return None
    if kind == 'first-arg-temps':
        # `f(g(..), ..)` as a whole statement or the value of a simple assignment: the first argument, when it is a
        # call and `f` itself is a plain name / attribute of a name, is evaluated into a fresh local first
        counter = [0]

        class Tmp(ast.NodeTransformer):
            def _do(self, stmts):
                out = []
                for st in stmts:
                    st = self.visit(st)
                    call = None
                    if isinstance(st, ast.Expr) and isinstance(st.value, ast.Call):
                        call = st.value
                    elif isinstance(st, ast.Assign) and isinstance(st.value, ast.Call) and len(st.targets) == 1 and \
                            isinstance(st.targets[0], ast.Name):
                        call = st.value
                    if call is not None and call.args and isinstance(call.args[0], ast.Call) and \
                            (isinstance(call.func, ast.Name) or (isinstance(call.func, ast.Attribute) and
                                                                 isinstance(call.func.value, ast.Name))) and \
                            not isinstance(call.args[0].func, ast.Lambda):
                        counter[0] += 1
                        nm = f'arg0_{counter[0]}'
                        asg = ast.Assign(targets=[ast.Name(id=nm, ctx=ast.Store())], value=call.args[0])
                        call.args[0] = ast.Name(id=nm, ctx=ast.Load())
                        out.append(ast.copy_location(asg, st))
                    out.append(st)
                return out

            def generic_visit(self, node):
                super().generic_visit(node)
                for fld in ('body', 'orelse', 'finalbody'):
                    v = getattr(node, fld, None)
                    if isinstance(v, list) and v and isinstance(v[0], ast.stmt):
                        setattr(node, fld, self._do_plain(v))
                return node

            def _do_plain(self, stmts):
                out = []
                for st in stmts:
                    call = None
                    if isinstance(st, ast.Expr) and isinstance(st.value, ast.Call):
                        call = st.value
                    elif isinstance(st, ast.Assign) and isinstance(st.value, ast.Call) and len(st.targets) == 1 and \
                            isinstance(st.targets[0], ast.Name):
                        call = st.value
                    if call is not None and call.args and isinstance(call.args[0], ast.Call) and \
                            (isinstance(call.func, ast.Name) or (isinstance(call.func, ast.Attribute) and
                                                                 isinstance(call.func.value, ast.Name))):
                        counter[0] += 1
                        nm = f'arg0_{counter[0]}'
                        asg = ast.Assign(targets=[ast.Name(id=nm, ctx=ast.Store())], value=call.args[0])
                        call.args[0] = ast.Name(id=nm, ctx=ast.Load())
                        out.append(ast.copy_location(asg, st))
                    out.append(st)
                return out
        for rel in spec[1]:
            p = os.path.join(root, rel)
            tree = ast.parse(open(p, encoding='utf-8').read())
            for fn in [n for n in ast.walk(tree) if isinstance(n, ast.FunctionDef)]:
                Tmp().generic_visit(fn)
            ast.fix_missing_locations(tree)
            with open(p, 'w', encoding='utf-8') as f:
                f.write(ast.unparse(tree) + '\n')
        return None
    if kind == 'extract-tails':
        # the second half of every VM handler body moves into a new module-level helper
        # `_tail_<handler>(tape, stack, cache, <locals it needs>)` that the handler calls last
        p = os.path.join(root, 'tapescript/functions.py')
        tree = ast.parse(open(p, encoding='utf-8').read())
        new_body = []
        n_done = 0
        for st in tree.body:
            if isinstance(st, ast.FunctionDef) and (st.name.startswith('OP_') or st.name == 'NOP') and \
                    len(st.args.args) == 3 and not st.args.defaults:
                body = st.body
                doc = 1 if (body and isinstance(body[0], ast.Expr) and isinstance(body[0].value, ast.Constant)) else 0
                rest = body[doc:]
                bad = any(x is not st and isinstance(x, (ast.Lambda, ast.FunctionDef, ast.Global, ast.Nonlocal, ast.Yield)) for x in ast.walk(st))
                if len(rest) >= 3 and not bad:
                    k = len(rest) // 2
                    head, tail = rest[:k], rest[k:]
                    params = [a.arg for a in st.args.args]
                    stored_head = {x.id for h in head for x in ast.walk(h) if isinstance(x, ast.Name) and isinstance(x.ctx, ast.Store)}
                    used_tail = []
                    for t in tail:
                        for x in ast.walk(t):
                            if isinstance(x, ast.Name) and x.id in stored_head and x.id not in params and x.id not in used_tail:
                                used_tail.append(x.id)
                    # a return inside the head would skip the tail: fine (the call is simply not reached)
                    hname = '_tail_' + st.name
                    hargs = ast.arguments(posonlyargs=[], args=[ast.arg(arg=a.arg, annotation=a.annotation) for a in st.args.args] +
                                          [ast.arg(arg=u) for u in used_tail], kwonlyargs=[], kw_defaults=[], defaults=[])
                    helper = ast.FunctionDef(name=hname, args=hargs, body=tail, decorator_list=[], returns=None, type_params=[])
                    call = ast.Expr(value=ast.Call(func=ast.Name(id=hname, ctx=ast.Load()),
                                                   args=[ast.Name(id=x, ctx=ast.Load()) for x in params + used_tail], keywords=[]))
                    st.body = body[:doc] + head + [call]
                    new_body.append(helper)
                    n_done += 1
            new_body.append(st)
        tree.body = new_body
        ast.fix_missing_locations(tree)
        with open(p, 'w', encoding='utf-8') as f:
            f.write(ast.unparse(tree) + '\n')
        return None if n_done >= 30 else f'only {n_done} handlers were split'
    if kind == 'expand-augassign':
        # `x += e` -> `x = x + e` for plain names and attribute/subscript targets without side effects in the target
        class Aug(ast.NodeTransformer):
            def visit_AugAssign(self, n):
                t = n.target
                pure = isinstance(t, ast.Name) or (isinstance(t, ast.Attribute) and isinstance(t.value, ast.Name)) or \
                    (isinstance(t, ast.Subscript) and isinstance(t.value, ast.Name) and
                     isinstance(t.slice, (ast.Name, ast.Constant)))
                if not pure:
                    return n
                import copy as _c
                load = _c.deepcopy(t)
                for x in ast.walk(load):
                    if hasattr(x, 'ctx') and x is load:
                        x.ctx = ast.Load()
                load.ctx = ast.Load()
                return ast.copy_location(ast.Assign(targets=[t], value=ast.BinOp(left=load, op=n.op, right=n.value)), n)
        for rel in spec[1]:
            p = os.path.join(root, rel)
            tree = Aug().visit(ast.parse(open(p, encoding='utf-8').read()))
            ast.fix_missing_locations(tree)
            with open(p, 'w', encoding='utf-8') as f:
                f.write(ast.unparse(tree) + '\n')
        return None
    if kind == 'flip-order-comparisons':
        # `a < b` -> `b > a` (single-operator order comparisons only)
        flip = {ast.Lt: ast.Gt, ast.LtE: ast.GtE, ast.Gt: ast.Lt, ast.GtE: ast.LtE}

        class Fl(ast.NodeTransformer):
            def visit_Compare(self, n):
                self.generic_visit(n)
                if len(n.ops) == 1 and type(n.ops[0]) in flip:
                    return ast.copy_location(ast.Compare(left=n.comparators[0], ops=[flip[type(n.ops[0])]()],
                                                         comparators=[n.left]), n)
                return n
        for rel in spec[1]:
            p = os.path.join(root, rel)
            tree = Fl().visit(ast.parse(open(p, encoding='utf-8').read()))
            ast.fix_missing_locations(tree)
            with open(p, 'w', encoding='utf-8') as f:
                f.write(ast.unparse(tree) + '\n')
        return None
    if kind == 'rename':
        p = os.path.join(root, spec[1])
        src = open(p, encoding='utf-8').read()
        for old, new in spec[2].items():
            if not re.search(r'\b' + re.escape(old) + r'\b', src):
                return f'identifier {old} not present in {spec[1]}'
            if re.search(r'\b' + re.escape(new) + r'\b', src):
                return f'identifier {new} already present in {spec[1]}'
            src = re.sub(r'\b' + re.escape(old) + r'\b', new, src)
        with open(p, 'w', encoding='utf-8') as f:
            f.write(src)
        return None
    return f'unknown transform {kind}'


def run_on_root(prop: str, root: str):
    """Run the quick rules of `prop` against the tree at `root` in-process.
    Returns (exit code, [(rule, construct, ok, why)], errors)."""
    import importlib
    from . import report as R
    from .model import Repo
    from .summary import World
    evdir = os.path.join(root, '_evidence')
    old_dir = R.EVIDENCE_DIR
    R.EVIDENCE_DIR = evdir
    try:
        mod = importlib.import_module(f'tsa.rules_{prop.lower()}')
        rep = Report(prop, tier='quick', seed=0, level=getattr(mod, 'LEVEL', 'other'), quiet=True)
        try:
            world = World(Repo(root))
            world.__dict__.setdefault('_dep_cache', {})[f'rules_{prop.lower()}'] = 'running'
            mod.run(world, rep)
        except AnalysisError as e:
            rep.error(str(e))
        except RecursionError:
            rep.error('recursion limit')
        except Exception as e:
            rep.error(f'analyser raised {type(e).__name__}: {e}')
        code = rep.finish()
        insts = [(i.rule, i.construct, i.ok, i.why) for i in rep.instances]
        known = {f"{k['rule']}|{k['construct']}" for k in load_known()
                 if k.get('property') == prop and k.get('status') == 'known'}
        return code, insts, list(rep.errors), known
    finally:
        R.EVIDENCE_DIR = old_dir


def _one(args):
    prop, src_root, variant, base_fail = args
    tmp = tempfile.mkdtemp(prefix='tsa_audit_')
    try:
        _copy_tree(src_root, tmp)
        stale = apply_edits(tmp, variant['edits'])
        if stale:
            return variant['id'], 'stale', stale
        if variant.get('transform'):
            why = apply_transform(tmp, variant['transform'])
            if why:
                return variant['id'], 'stale', why
        if variant.get('patch'):
            import subprocess
            r = subprocess.run(['patch', '-p1', '-s', '--no-backup-if-mismatch', '-d', tmp, '-i', variant['patch']],
                               capture_output=True, text=True)
            if r.returncode != 0:
                return variant['id'], 'stale', 'patch does not apply: ' + (r.stdout + r.stderr).strip()[:120]
        if variant.get('post_transform'):
            why = apply_transform(tmp, variant['post_transform'])
            if why:
                return variant['id'], 'stale', why
        # must still parse
        import ast
        for ed in variant['edits']:
            if ed[0].endswith('.py'):
                try:
                    ast.parse(open(os.path.join(tmp, ed[0]), encoding='utf-8').read())
                except SyntaxError as e:
                    return variant['id'], 'broken-variant', f'variant does not parse: {e}'
        code, insts, errors, known = run_on_root(prop, tmp)
        failing = {(r, c) for r, c, ok, _ in insts if not ok and f'{r}|{c}' not in known}
        new_fail = failing - base_fail
        if variant['kind'] == 'break':
            want_rule = variant['expect']
            hit = [f for f in new_fail if f[0] == want_rule or f[0].startswith(want_rule + '.')]
            if 'construct' in variant:
                hit = [f for f in hit if variant['construct'] in f[1]]
            if hit:
                # a violation reported by a completed rule stands beside an analysis error of another rule (exit 1)
                return variant['id'], 'detected', f'{hit[0][0]} at {hit[0][1]}' + (' (beside an analysis error)' if errors else '')
            if errors:
                return variant['id'], 'error-instead', '; '.join(errors)[:200]
            return variant['id'], 'MISSED', f'expected {want_rule} to fire; new failures: {sorted(new_fail)[:3]}'
        else:
            if not new_fail and not errors:
                return variant['id'], 'silent', ''
            if errors:
                return variant['id'], 'NOISY', 'analysis error: ' + '; '.join(errors)[:200]
            return variant['id'], 'NOISY', f'false alarm: {sorted(new_fail)[:3]}'
    finally:
        shutil.rmtree(tmp, ignore_errors=True)


def run_audit(prop: str, rep: Report, seed: int = 0, cap: int | None = None):
    from .variants import VARIANTS
    from .model import REPO
    vs = [v for v in VARIANTS if v['prop'] == prop]
    n_curated = len(vs)
    try:
        from . import automut
        auto = automut.generate(prop, REPO, seed)
    except Exception as e:      # a generator bug must not look like a finding
        auto = []
        rep.note(f'automatic variant generation failed: {type(e).__name__}: {e}')
    vs = vs + auto
    if not vs:
        rep.note('no audit variants registered for this property')
        rep.audit = {'variants': 0}
        return
    rnd = random.Random(seed)
    rnd.shuffle(vs)
    if cap:
        vs = vs[:cap]
    n_auto = sum(1 for v in vs if v['id'].startswith('auto-'))
    t0 = time.time()
    # failures already present on the tree itself are not attributed to a variant
    base_fail = {(i.rule, i.construct) for i in rep.instances if not i.ok}
    jobs = [(prop, REPO, v, base_fail) for v in vs]
    results = []
    workers = min(16, len(jobs), (os.cpu_count() or 4))
    with cf.ProcessPoolExecutor(max_workers=workers) as ex:
        for r in ex.map(_one, jobs):
            results.append(r)
    summary = {'variants': len(vs), 'curated': len(vs) - n_auto, 'automatic_per_instance': n_auto, 'detected': 0, 'silent': 0, 'stale': 0, 'failures': [], 'wall_s': 0.0,
               'details': []}
    for vid, status, info in results:
        summary['details'].append({'id': vid, 'status': status, 'info': info})
        if status == 'detected':
            summary['detected'] += 1
        elif status == 'silent':
            summary['silent'] += 1
        elif status == 'stale':
            summary['stale'] += 1
        else:
            summary['failures'].append({'id': vid, 'status': status, 'info': info})
    summary['wall_s'] = round(time.time() - t0, 2)
    rep.audit = summary
    if not rep.quiet:
        print(f'{prop} audit: {summary["variants"]} variants ({n_auto} automatic per-instance): '
              f'{summary["detected"]} breaking variants detected, {summary["silent"]} preserving '
              f'variants silent, {summary["stale"]} stale, {len(summary["failures"])} failures '
              f'({summary["wall_s"]}s)')
    for f in summary['failures']:
        rep.error(f'audit variant {f["id"]}: {f["status"]} - {f["info"]}')
    if summary['stale'] > max(2, len(vs) // 2):
        rep.error(f'{summary["stale"]} of {len(vs)} audit variants are stale (source drifted): corpus needs refresh')
