"""C14 - lock / witness builders: decided on the embedded templates (see rules_templates)."""
from .rules_templates import run_c14 as run      # noqa: F401

LEVEL = 'other'
