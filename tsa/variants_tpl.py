"""Audit corpus, part 2: templates (C13-C15), builder clauses (C03/C04/C05/C16) and the VM rules of
C02, C03, C20.  Same format as variants.py."""

F = 'tapescript/functions.py'
P = 'tapescript/parsing.py'
T = 'tapescript/tools.py'
Q3 = "'''"


def register(V):
    # ------------------------------------------------------------------------ C13 (templates)
    V('c13-lock-hardcodes-flags', 'C13', 'break', [(T, "    return Script.from_src(f'push x{pubkey.hex()} check_sig x{sigflags}')", "    return Script.from_src(f'push x{pubkey.hex()} check_sig x00')")], 'C13.T3')
    V('c13-lock2-key-not-verified', 'C13', 'break', [(T, "        push ~! {{ push x{pubkey.hex()} shake256 d20 }}\n        equal_verify\n        check_sig x{sigflags}\n    " + Q3 + ")\n\ndef make_single_sig_witness(", "        push ~! {{ push x{pubkey.hex()} shake256 d20 }}\n        equal pop0\n        check_sig x{sigflags}\n    " + Q3 + ")\n\ndef make_single_sig_witness(")], 'C13.T2')
    V('c13-scripthash-eval-unverified', 'C13', 'break', [(T, "        equal_verify\n        eval\n    " + Q3 + ")\n\ndef make_scripthash_witness", "        equal pop0\n        eval\n    " + Q3 + ")\n\ndef make_scripthash_witness")], 'C13.T2')
    V('c13-graftroot-surrogate-unverified', 'C13', 'break', [(T, "            @k check_sig_stack verify\n            eval\n", "            @k check_sig_stack pop0\n            eval\n")], 'C13.T2')
    V('c13-multisig-m-n-swapped', 'C13', 'break', [(T, "check_multisig x{sigflags} d{quorum_size} d{len(pubkeys)}", "check_multisig x{sigflags} d{len(pubkeys)} d{quorum_size}")], 'C13.T1')
    V('c13-witness-signs-flag-zero', 'C13', 'break', [(T, "        compile_script(f'{sign_script_prefix} push x{prvkey.hex()} sign x{sigflags}'),\n        {**sigfields}\n    )\n    sig = stack.get()\n    return Script.from_src(f'push x{sig.hex()}')", "        compile_script(f'{sign_script_prefix} push x{prvkey.hex()} sign x00'),\n        {**sigfields}\n    )\n    sig = stack.get()\n    return Script.from_src(f'push x{sig.hex()}')")], 'C13.T3')
    V('c13-lock-leaves-two-items', 'C13', 'break', [(T, "    return Script.from_src(f'push x{pubkey.hex()} check_sig x{sigflags}')", "    return Script.from_src(f'push x{pubkey.hex()} dup check_sig x{sigflags}')")], 'C13.T1')
    V('c13-graftap-surrogate-unverified', 'C13', 'break', [(T, "        push x{pubkey.hex()} check_sig_stack verify\n        eval\n", "        push x{pubkey.hex()} check_sig_stack pop0\n        eval\n")], 'C13.T2')
    V('c13-scripthash-ignores-hashsize', 'C13', 'break', [(T, "        dup shake256 d{hashsize}\n        push ~! {{ push x{script.bytes.hex()} shake256 d{hashsize} }}", "        dup shake256 d26\n        push ~! {{ push x{script.bytes.hex()} shake256 d26 }}")], 'C13.T6')
    V('c13-graftroot-keypath-witness-key', 'C13', 'break', [(T, "        }} else {{\n            @k check_sig x{sigflags}\n        }}" + Q3, "        }} else {{\n            check_sig x{sigflags}\n        }}" + Q3)], 'C13.T2')
    V('c13-p-alias-spelling', 'C13', 'preserve', [(T, "        push ~! {{ push x{pubkey.hex()} shake256 d20 }}\n        equal_verify\n        check_sig x{sigflags}\n    " + Q3 + ")\n\ndef make_single_sig_witness(", "        push ~! {{ push x{pubkey.hex()} shake256 d20 }}\n        eqv\n        cs x{sigflags}\n    " + Q3 + ")\n\ndef make_single_sig_witness(")])
    V('c13-p-op-prefix-uppercase', 'C13', 'preserve', [(T, "    return Script.from_src(f'push x{pubkey.hex()} check_sig x{sigflags}')", "    return Script.from_src(f'OP_PUSH x{pubkey.hex()} OP_CHECK_SIG x{sigflags}')")])
    V('c13-p-equal-then-verify', 'C13', 'preserve', [(T, "        equal_verify\n        eval\n    " + Q3 + ")\n\ndef make_scripthash_witness", "        equal verify\n        eval\n    " + Q3 + ")\n\ndef make_scripthash_witness")])

    # ------------------------------------------------------------------------ C14 (templates)
    V('c14-cert-verified-under-delegate', 'C14', 'break', [(T, "        @s swap2\n        push x{root_pubkey.hex()} check_sig_stack verify\n", "        @s swap2\n        @d check_sig_stack verify\n")], 'C14.T2')
    V('c14-no-expiry-check', 'C14', 'break', [(T, "        @b check_timestamp_verify\n        @e check_timestamp not verify\n\n        @s swap2\n        push x{root_pubkey.hex()}", "        @b check_timestamp_verify\n\n        @s swap2\n        push x{root_pubkey.hex()}")], 'C14.T5')
    V('c14-chain-ignores-may-delegate', 'C14', 'break', [(T, "            if ( @c and ) {{\n", "            if {{\n")], 'C14.T5')
    V('c14-chain-flag-from-witness', 'C14', 'break', [(T, "            if ( @c and ) {{\n", "            @c pop0 if {{\n")], 'C14.T2')
    V('c14-cert-sig-not-verified', 'C14', 'break', [(T, "        push x{root_pubkey.hex()} check_sig_stack verify\n\n        @d check_sig x{sigflags}", "        push x{root_pubkey.hex()} check_sig_stack pop0\n\n        @d check_sig x{sigflags}")], 'C14.T2')
    V('c14-begin-not-verified', 'C14', 'break', [(T, "        @b check_timestamp_verify\n        @e check_timestamp not verify\n\n        @s swap2\n        push x{root_pubkey.hex()}", "        @b check_timestamp pop0\n        @e check_timestamp not verify\n\n        @s swap2\n        push x{root_pubkey.hex()}")], 'C14.T4')
    V('c14-wrong-offset', 'C14', 'break', [(T, "        push d36 split @= e 1 # end ts #\n", "        push d35 split @= e 1 # end ts #\n")], 'C14.T7')
    V('c14-chain-cert-under-delegate', 'C14', 'break', [(T, "            @s swap2 @r check_sig_stack verify\n", "            @s swap2 @d check_sig_stack verify\n")], 'C14.T2')
    V('c14-delegate-flags-hardcoded', 'C14', 'break', [(T, "        push x{root_pubkey.hex()} check_sig_stack verify\n\n        @d check_sig x{sigflags}", "        push x{root_pubkey.hex()} check_sig_stack verify\n\n        @d check_sig x00")], 'C14.T3')
    V('c14-end-check-not-negated', 'C14', 'break', [(T, "            @b check_timestamp_verify\n            @e check_timestamp not verify\n", "            @b check_timestamp_verify\n            @e check_timestamp verify\n")], 'C14.T4')
    V('c14-p-alias', 'C14', 'preserve', [(T, "            @b check_timestamp_verify\n            @e check_timestamp not verify\n", "            @b ctsv\n            @e cts not verify\n")])

    # ------------------------------------------------------------------------ C15 (templates)
    tail_sha = "        }}\n        check_sig x{sigflags}\n    " + Q3 + ")\n\ndef make_htlc_shake256_lock"
    tail_ptlc = "        }}\n        check_sig x{sigflags}\n    " + Q3 + ")\n\ndef make_ptlc_witness"
    V('c15-htlc-refund-no-timelock', 'C15', 'break', [(T, "            push d{int(time())+timeout}\n            check_timestamp_verify\n            push x{refund_pubkey.hex()}\n" + tail_sha, "            push d{int(time())+timeout}\n            pop0\n            push x{refund_pubkey.hex()}\n" + tail_sha)], 'C15.T4')
    V('c15-htlc-arms-swapped', 'C15', 'break', [(T, "        if {{\n            push x{receiver_pubkey.hex()}\n        }} else {{\n            push d{int(time())+timeout}\n            check_timestamp_verify\n            push x{refund_pubkey.hex()}\n" + tail_sha, "        if {{\n            push x{refund_pubkey.hex()}\n        }} else {{\n            push d{int(time())+timeout}\n            check_timestamp_verify\n            push x{receiver_pubkey.hex()}\n" + tail_sha)], 'C15.T4')
    V('c15-htlc2-timecheck-unverified', 'C15', 'break', [(T, "            push d{int(time())+timeout}\n            check_timestamp_verify\n            dup shake256 d20\n            push ~! {{ push x{refund_pubkey.hex()} shake256 d20 }}", "            push d{int(time())+timeout}\n            check_timestamp pop0\n            dup shake256 d20\n            push ~! {{ push x{refund_pubkey.hex()} shake256 d20 }}")], 'C15.T4')
    V('c15-ptlc-deadline-is-timeout', 'C15', 'break', [(T, "            push d{int(time())+timeout}\n            check_timestamp_verify\n            push x{refund_pubkey.hex()}\n" + tail_ptlc, "            push d{timeout}\n            check_timestamp_verify\n            push x{refund_pubkey.hex()}\n" + tail_ptlc)], 'C15.T4')
    V('c15-shake-constant-size', 'C15', 'break', [(T, "        shake256 d{hash_size}\n        push x{digest.hex()}\n        equal\n        if {{\n            push x{receiver_pubkey.hex()}", "        shake256 d20\n        push x{digest.hex()}\n        equal\n        if {{\n            push x{receiver_pubkey.hex()}")], 'C15.T8')
    V('c15-ptlc-flags-hardcoded', 'C15', 'break', [(T, "            push x{refund_pubkey.hex()}\n" + tail_ptlc, "            push x{refund_pubkey.hex()}\n" + tail_ptlc.replace('x{sigflags}', 'x00'))], 'C15.T3')
    V('c15-htlc2-refund-commits-receiver', 'C15', 'break', [(T, "            dup shake256 d20\n            push ~! {{ push x{refund_pubkey.hex()} shake256 d20 }}\n        }}\n        equal_verify", "            dup shake256 d20\n            push ~! {{ push x{receiver_pubkey.hex()} shake256 d20 }}\n        }}\n        equal_verify")], 'C15.T4')
    V('c15-htlc2-key-not-verified', 'C15', 'break', [(T, "            push ~! {{ push x{refund_pubkey.hex()} shake256 d20 }}\n        }}\n        equal_verify\n        check_sig x{sigflags}", "            push ~! {{ push x{refund_pubkey.hex()} shake256 d20 }}\n        }}\n        equal pop0\n        check_sig x{sigflags}")], 'C15.T2')
    V('c15-htlc-digest-ignored', 'C15', 'break', [(T, "        sha256\n        push x{digest.hex()}\n        equal\n        if {{\n            push x{receiver_pubkey.hex()}", "        sha256\n        dup\n        equal\n        if {{\n            push x{receiver_pubkey.hex()}")], 'C15.T8')
    V('c15-htlc-witness-extra-item', 'C15', 'break', [(T, "    return Script.from_src(f" + Q3 + "\n        push x{sig.hex()}\n        push x{preimage.hex()}\n    " + Q3 + ")", "    return Script.from_src(f" + Q3 + "\n        push x{sig.hex()}\n        push x{preimage.hex()}\n        true\n    " + Q3 + ")")], 'C15.T1')
    V('c15-p-alias', 'C15', 'preserve', [(T, "            push d{int(time())+timeout}\n            check_timestamp_verify\n            push x{refund_pubkey.hex()}\n" + tail_ptlc, "            push d{int(time())+timeout}\n            ctsv\n            push x{refund_pubkey.hex()}\n" + tail_ptlc.replace('check_sig', 'cs'))])
    V('c15-p-timeout-plus-now', 'C15', 'preserve', [(T, "            push d{int(time())+timeout}\n            check_timestamp_verify\n            push x{refund_pubkey.hex()}\n" + tail_ptlc, "            push d{timeout + int(time())}\n            check_timestamp_verify\n            push x{refund_pubkey.hex()}\n" + tail_ptlc)])

    # ------------------------------------------------------------------------ builder clauses of C03 C04 C05 C16
    V('c03-multisig-lock-n-constant', 'C03', 'break', [(T, "check_multisig x{sigflags} d{quorum_size} d{len(pubkeys)}", "check_multisig x{sigflags} d{quorum_size} d{quorum_size}")], 'C03.R3')
    V('c04-scripthash-eval-unverified', 'C04', 'break', [(T, "        equal_verify\n        eval\n    " + Q3 + ")\n\ndef make_scripthash_witness", "        equal pop0\n        eval\n    " + Q3 + ")\n\ndef make_scripthash_witness")], 'C04.R2')
    V('c04-merkleval-equal-not-verify', 'C04', 'break', [(F, "    stack.put(root_hash)\n    OP_EQUAL_VERIFY(tape, stack, cache)\n    OP_EVAL(tape, stack, cache)", "    stack.put(root_hash)\n    OP_EQUAL(tape, stack, cache)\n    OP_EVAL(tape, stack, cache)")], 'C04.R1')
    V('c04-merkleval-step-between', 'C04', 'break', [(F, "    stack.put(root_hash)\n    OP_EQUAL_VERIFY(tape, stack, cache)\n    OP_EVAL(tape, stack, cache)", "    stack.put(root_hash)\n    OP_EQUAL_VERIFY(tape, stack, cache)\n    OP_SWAP2(tape, stack, cache)\n    OP_EVAL(tape, stack, cache)")], 'C04.R1')
    V('c04-bytes-are-same-no-length', 'C04', 'break', [(F, "    return len(b1) == len(b2) and int.from_bytes(xor(b1, b2), 'little') == 0", "    return int.from_bytes(xor(b1, b2), 'little') == 0")], 'C04.R1b')
    V('c05-nonnative-eval-unverified', 'C05', 'break', [(T, "            call d0 eqv eval\n", "            call d0 equal pop0 eval\n")], 'C05.R3')
    V('c05-taproot-mismatch-falls-through', 'C05', 'break', [(F, "        if not bytes_are_same(point, root):\n            stack.put(b'\\x00')\n            return\n", "        if not bytes_are_same(point, root) and len(script) < 2:\n            stack.put(b'\\x00')\n            return\n")], 'C05.R1')
    V('c05-taproot-keypath-flags-lost', 'C05', 'break', [(F, "        OP_CHECK_SIG(Tape(allowable_sigflags, plugins=tape.plugins), stack, cache)", "        OP_CHECK_SIG(Tape(b'\\xff', plugins=tape.plugins), stack, cache)")], 'C05.R2')
    V('c05-taproot-evaluates-other-item', 'C05', 'break', [(F, "        # execute the committed script\n        stack.put(script)\n        OP_EVAL(tape, stack, cache)", "        # execute the committed script\n        OP_EVAL(tape, stack, cache)")], 'C05.R1')
    V('c16-after-lock-negated', 'C16', 'break', [(T, "    return Script.from_src(f'push d{ts} check_timestamp')\n\ndef make_timestamp_before_lock", "    return Script.from_src(f'push d{ts} check_timestamp not')\n\ndef make_timestamp_before_lock")], 'C16.R4')
    V('c16-between-args-swapped', 'C16', 'break', [(T, "    return make_timestamp_after_lock(begin_ts, True) + \\\n        make_timestamp_before_lock(end_ts, op_verify)", "    return make_timestamp_after_lock(end_ts, True) + \\\n        make_timestamp_before_lock(begin_ts, op_verify)")], 'C16.R4')
    V('c16-between-first-not-verified', 'C16', 'break', [(T, "    return make_timestamp_after_lock(begin_ts, True) + \\\n", "    return make_timestamp_after_lock(begin_ts, False) + \\\n")], 'C16.R4')

    # ------------------------------------------------------------------------ C02 C03 C20 (VM)
    V('c02-field5-wrong-bit', 'C02', 'break', [(F, "    sig_flag5 = sig_flag & 0b00010000\n    sig_flag6 = sig_flag & 0b00100000\n    sig_flag7 = sig_flag & 0b01000000\n    sig_flag8 = sig_flag & 0b10000000\n\n    message = b''", "    sig_flag5 = sig_flag & 0b00001000\n    sig_flag6 = sig_flag & 0b00100000\n    sig_flag7 = sig_flag & 0b01000000\n    sig_flag8 = sig_flag & 0b10000000\n\n    message = b''")], 'C02.R1')
    V('c02-field7-appends-field6', 'C02', 'break', [(F, "    if 'sigfield7' in cache and not sig_flag7:\n        message += cache['sigfield7']", "    if 'sigfield7' in cache and not sig_flag7:\n        message += cache['sigfield6']")], 'C02.R1')
    V('c02-fields-reordered', 'C02', 'break', [(F, "    if 'sigfield2' in cache and not sig_flag2:\n        message += cache['sigfield2']\n    if 'sigfield3' in cache and not sig_flag3:\n        message += cache['sigfield3']\n", "    if 'sigfield3' in cache and not sig_flag3:\n        message += cache['sigfield3']\n    if 'sigfield2' in cache and not sig_flag2:\n        message += cache['sigfield2']\n")], 'C02.R1')
    V('c02-allowed-mask-mismatch', 'C02', 'break', [(F, "    if sig_flag6:\n        sert(allowable_flags & 0b00100000, 'disallowed sigflag')", "    if sig_flag6:\n        sert(allowable_flags & 0b00010000, 'disallowed sigflag')")], 'C02.R2')
    V('c02-allowed-bit8-dropped', 'C02', 'break', [(F, "    if sig_flag8:\n        sert(allowable_flags & 0b10000000, 'disallowed sigflag')\n", "")], 'C02.R2')
    V('c02-check-sig-own-message', 'C02', 'break', [(F, "    OP_GET_MESSAGE(Tape(sig_flag.to_bytes(1, 'big')), stack, cache)\n    message = stack.get()\n\n    try:\n        vkey.verify(message, sig)", "    message = b''.join(cache[f'sigfield{i}'] for i in range(1, 9) if f'sigfield{i}' in cache)\n\n    try:\n        vkey.verify(message, sig)")], 'C02.R3')
    V('c02-builder-gets-allowed-flags', 'C02', 'break', [(F, "    OP_GET_MESSAGE(Tape(sig_flag.to_bytes(1, 'big')), stack, cache)\n    message = stack.get()\n\n    try:\n        vkey.verify(message, sig)", "    OP_GET_MESSAGE(Tape(allowable_flags.to_bytes(1, 'big')), stack, cache)\n    message = stack.get()\n\n    try:\n        vkey.verify(message, sig)")], 'C02.R3')
    V('c02-sig-length-guard-dropped', 'C02', 'break', [(F, "    vert(len(sig) == nacl.bindings.crypto_sign_BYTES, 'invalid signature')\n", "")], 'C02.R4')
    V('c02-true-on-exception', 'C02', 'break', [(F, "    except BadSignatureError:\n        stack.put(b'\\x00')", "    except BadSignatureError:\n        stack.put(b'\\xff')")], 'C02.R5')
    V('c02-sign-always-appends-flag', 'C02', 'break', [(F, "    sig = sig + sig_flag.to_bytes(1, 'big') if sig_flag else sig\n", "    sig = sig + sig_flag.to_bytes(1, 'big')\n")], 'C02.R3')
    V('c02-template-bit3-for-field4', 'C02', 'break', [(F, "        '4': sig_flag & 0b00001000,", "        '4': sig_flag & 0b00000100,")], 'C02.R7')
    V('c02-p-loop-spelling', 'C02', 'preserve', [(F, "    if 'sigfield7' in cache and not sig_flag7:\n        message += cache['sigfield7']\n    if 'sigfield8' in cache and not sig_flag8:\n        message += cache['sigfield8']\n", "    for i in range(7, 9):\n        if f'sigfield{i}' in cache and not sig_flag & (1 << (i - 1)):\n            message += cache[f'sigfield{i}']\n")])
    V('c02-p-eq-zero', 'C02', 'preserve', [(F, "    if 'sigfield1' in cache and not sig_flag1:\n        message += cache['sigfield1']", "    if 'sigfield1' in cache and sig_flag1 == 0:\n        message += cache['sigfield1']")])
    V('c03-key-not-consumed', 'C03', 'break', [(F, "            if result:\n                vkeys.remove(vkey)\n                confirmed.add(sig)\n                break", "            if result:\n                confirmed.add(sig)\n                break")], 'C03.R1')
    V('c03-verdict-ge', 'C03', 'break', [(F, "    if len(confirmed) == len(sigs):\n", "    if len(confirmed) >= 1:\n")], 'C03.R2')
    V('c03-confirmed-list', 'C03', 'break', [(F, "    confirmed = set()\n", "    confirmed = []\n"), (F, "                confirmed.add(sig)\n", "                confirmed.append(sig)\n")], 'C03.R2')
    V('c03-m-n-pop-order', 'C03', 'break', [(F, "    vkeys = [stack.get() for _ in range(n)]\n    sigs = [stack.get() for _ in range(m)]\n", "    sigs = [stack.get() for _ in range(m)]\n    vkeys = [stack.get() for _ in range(n)]\n")], 'C03.R3')
    V('c03-no-rewind', 'C03', 'break', [(F, "        for vkey in vkeys:\n            subtape.reset_pointer()\n", "        for vkey in vkeys:\n")], 'C03.R4')
    V('c20-nop-unsigned-count', 'C20', 'break', [(F, "    count = bytes_to_int(tape.read(1))\n    sert(count >= 0, 'NOP count must not be negative')", "    count = int.from_bytes(tape.read(1), 'big')\n    sert(count >= 0, 'NOP count must not be negative')")], 'C20.R2')
    V('c20-nop-writes-cache', 'C20', 'break', [(F, "    for _ in range(count):\n        stack.get()\n\n\nopcodes = [", "    for _ in range(count):\n        stack.get()\n    cache[b'N'] = [b'\\x01']\n\n\nopcodes = [")], 'C20.R2')
    V('c20-nop-two-byte-operand', 'C20', 'break', [(F, "    count = bytes_to_int(tape.read(1))\n    sert(count >= 0, 'NOP count must not be negative')", "    count = bytes_to_int(tape.read(2))\n    sert(count >= 0, 'NOP count must not be negative')")], 'C20.R3')
    V('c20-nop-table-short', 'C20', 'break', [(F, "for i in range(len(opcodes), 256):\n    nopcodes[i] = (f'NOP{i}', NOP)", "for i in range(len(opcodes), 255):\n    nopcodes[i] = (f'NOP{i}', NOP)")], 'C20.R1')
    V('c20-add-opcode-keeps-nop-name', 'C20', 'break', [(F, "        del nopcodes[code]\n        del nopcodes_inverse[nopname]\n", "        del nopcodes[code]\n")], 'C20.R4')
    V('c20-softfork-decompile-two-bytes', 'C20', 'break', [(T, "        val = tape.read(1)[0]\n        return [f'{opname} d{val}']", "        val = tape.read(2)[0]\n        return [f'{opname} d{val}']")], 'C20.R3')
    V('c20-nop-negative-guard-dropped', 'C20', 'break', [(F, "    sert(count >= 0, 'NOP count must not be negative')\n", "")], 'C20.R2')
    V('c20-dispatch-by-threshold', 'C20', 'break', [(F, "        if op_code in opcodes:\n            op = opcodes[op_code][1]\n        else:\n            op = nopcodes[op_code][1]", "        op = nopcodes[op_code][1] if op_code >= 92 else opcodes[op_code][1]")], 'C20.R1')
    V('c20-p-startswith', 'C20', 'preserve', [(P, "                if op_name[:3] == 'NOP':\n", "                if op_name.startswith('NOP'):\n")])


def register2(V):
    V('c13-p-concat-instead-of-fstring', 'C13', 'preserve', [(T, "    return Script.from_src(f'push x{pubkey.hex()} check_sig x{sigflags}')", "    return Script.from_src('push x' + pubkey.hex() + ' check_sig x' + sigflags)")])
    V('c16-p-concat-instead-of-fstring', 'C16', 'preserve', [(T, "    return Script.from_src(f'push d{ts} check_timestamp')\n\ndef make_timestamp_before_lock", "    return Script.from_src('push d' + str(ts) + ' check_timestamp')\n\ndef make_timestamp_before_lock")])
    V('c15-p-local-deadline', 'C15', 'preserve', [(T, "    if type(tweak_point) is bytes:\n        receiver_pubkey = aggregate_points([receiver_pubkey, tweak_point])\n", "    if type(tweak_point) is bytes:\n        receiver_pubkey = aggregate_points([receiver_pubkey, tweak_point])\n    deadline = int(time()) + timeout\n"),
                                                  (T, "            push d{int(time())+timeout}\n            check_timestamp_verify\n            push x{refund_pubkey.hex()}\n        }}\n        check_sig x{sigflags}\n    " + Q3 + ")\n\ndef make_ptlc_witness", "            push d{deadline}\n            check_timestamp_verify\n            push x{refund_pubkey.hex()}\n        }}\n        check_sig x{sigflags}\n    " + Q3 + ")\n\ndef make_ptlc_witness")])


def register3(V):
    V('c17-public-maker-hashes-bare-nonce', 'C17', 'break', [(F, "    RT = aggregate_points((R, T)) # R + t\n    ca = clamp_scalar(H_small(RT, X, m)) # H(R + T || X || m)\n    sa = nacl.bindings.crypto_core_ed25519_scalar_add(", "    RT = aggregate_points((R, T)) # R + t\n    ca = clamp_scalar(H_small(R, X, m)) # H(R + T || X || m)\n    sa = nacl.bindings.crypto_core_ed25519_scalar_add(")], 'C17.R1', 'OP_MAKE_ADAPTER_SIG_PUBLIC')
    V('c17-checker-hashes-bare-nonce', 'C17', 'break', [(F, "    ca = clamp_scalar(H_small(RT, X, m)) # H(R + T || X || m)\n    caX = ", "    ca = clamp_scalar(H_small(R, X, m)) # H(R + T || X || m)\n    caX = ")], 'C17.R1')
    V('c17-decrypt-subtracts', 'C17', 'break', [(F, "    s = nacl.bindings.crypto_core_ed25519_scalar_add(sa, t) # s = sa + t", "    s = nacl.bindings.crypto_core_ed25519_scalar_sub(sa, t) # s = sa + t")], 'C17.R2')
    V('c17-decrypt-nonce-without-tweak', 'C17', 'break', [(F, "    T = derive_point_from_scalar(t)\n    RT = aggregate_points((R, T)) # R + T\n    s = ", "    T = derive_point_from_scalar(t)\n    RT = aggregate_points((R, R)) # R + T\n    s = ")], 'C17.R2')
    V('c17-p-local-alias', 'C17', 'preserve', [(F, "    RT = aggregate_points((R, T)) # R + T\n    ca = clamp_scalar(H_small(RT, X, m)) # H(R + T || X || m)\n    caX = ", "    nonce_sum = aggregate_points((R, T)) # R + T\n    RT = nonce_sum\n    ca = clamp_scalar(H_small(RT, X, m)) # H(R + T || X || m)\n    caX = ")])


def register4(V):
    V('c08-p-update-literal', 'C08', 'preserve', [(F, "    cache[b'P'] = [stack.get()]\n", "    cache.update({b'P': [stack.get()]})\n")])
    V('c08-update-str-literal', 'C08', 'break', [(F, "    cache[b'P'] = [stack.get()]\n", "    cache.update({'P': [stack.get()]})\n")], 'C08.R1')
    V('c08-update-unknown-dict', 'C08', 'break', [(F, "    cache[b'P'] = [stack.get()]\n", "    cache.update(dict(P=[stack.get()]))\n")], 'C08.R1')


def register5(V):
    V('c01-inner-try-swallows', 'C01', 'break', [(F, "            run_tape(tape, stack, cache)\n            assert tape.has_terminated()\n", "            try:\n                run_tape(tape, stack, cache)\n            except ValueError:\n                tape.pointer = len(tape.data)\n            assert tape.has_terminated()\n")], 'C01.R2')
    V('c09-check-template-no-plugins', 'C09', 'break', [(F, "        t = Tape(b'', plugins={**tape.plugins}, contracts={**tape.contracts})", "        t = Tape(b'', contracts={**tape.contracts})")], 'C09.R1', 'OP_CHECK_TEMPLATE')
    V('c19-registry-attached-uncopied', 'C19', 'break', [(F, "    tape.contracts = {**_contracts, **contracts}\n", "    tape.contracts = _contracts\n    tape.contracts.update(contracts)\n")], 'C19.R2')
