"""C06 - every instruction behaves as specified: the clauses visible in the shape of the code."""
from __future__ import annotations
import ast
import os
import re
from .report import Report, AnalysisError
from .summary import World, node_events, match_tables
from .flagstate import FlagEngine, CLEAR, SET, MAYBE
from .model import dotted

LEVEL = 'other'

TRANSPARENT = ('OP_IF', 'OP_IF_ELSE', 'OP_TRY_EXCEPT')
CONSUMING = ('OP_CALL',)
EVAL_LIKE = ('OP_EVAL', 'OP_MERKLEVAL', 'OP_TAPROOT')
EITHER = ('OP_LOOP',)
DRIVERS = {'functions.run_tape', 'functions.run_script', 'functions.run_auth_scripts'}


def run(w: World, rep: Report):
    repo = w.repo
    rel = 'tapescript/functions.py'
    eng = FlagEngine(w)
    rep.rule('C06.R1', 'RETURN scoping invariant: every construct that runs a sub-tape exits with '
             'the return flag CLEAR (consumed) or SET with its own tape terminated (propagated); '
             'IF/IF_ELSE/TRY_EXCEPT propagate, CALL consumes, EVAL consumes unless eval_return', floor=8)
    rep.rule('C06.R1b', 'no statement that may raise, and no further sub-run, between a sub-run and '
             'the resolution of the return flag', floor=6)
    rep.rule('C06.R1c', 'only the sub-tape constructs, OP_RETURN and the top-level drivers touch '
             'the return flag', floor=5)
    rep.rule('C06.R2', 'EVAL isolation: the evaluated script gets copies of definitions and flags', floor=2)
    rep.rule('C06.R3', 'opcode table agreement VM <-> docs.md <-> language_spec.md <-> compiler '
             '<-> decompiler (names, numbers, aliases)', floor=90)
    rep.note(f'return flag key: {eng.key_id}')

    # ---- R1 / R1b -----------------------------------------------------------
    relevant_ops = {}
    for fname, fi in w.handlers.items():
        if eng.relevant(fi):
            relevant_ops[fname] = fi
    for must in TRANSPARENT + CONSUMING + EVAL_LIKE + EITHER + ('OP_RETURN',):
        h = w.handler_for(must)
        if h.name not in relevant_ops:
            raise AnalysisError(f'{must} no longer runs a sub-tape or touches the return flag')
    for fname, fi in sorted(relevant_ops.items()):
        rep.covered('handlers', fname)
        ops = w.op_of_handler[fname]
        outs = [o for o in eng.summary(fi, CLEAR) if o.exit_kind == 'exit']
        states = sorted({(o.state, o.term) for o in outs})
        bad = [o for o in outs if not (o.state == CLEAR or (o.state == SET and o.term))]
        why = ''
        if bad:
            o = bad[0]
            why = (f'a normal exit leaves the return flag {o.state} while the handler\'s own tape '
                   f'is not terminated; trace: {" ; ".join(o.trace[-5:])}')
        r1 = [p for o in outs for p in o.problems if p[0] == 'R1']
        if r1 and not why:
            why = r1[0][2]
        # scoping table
        if not why:
            for op in ops:
                propagates = any(o.state == SET and o.term for o in outs)
                consumed = any(o.consumed for o in outs)
                if op in TRANSPARENT:
                    if not propagates:
                        why = f'{op} must be transparent to RETURN but never propagates it'
                    elif consumed:
                        why = f'{op} must be transparent to RETURN but consumes the flag on a path'
                elif op in CONSUMING:
                    if propagates:
                        why = f'{op} must return only to its caller but propagates RETURN'
                elif op in EVAL_LIKE:
                    if not consumed:
                        why = f'{op} never consumes the flag (an evaluated script must return only to its caller)'
                    for o in outs:
                        if o.state == SET and o.term and not o.flag_guard:
                            why = f'{op} propagates RETURN on a path not guarded by the eval_return flag'
                elif op == 'OP_RETURN':
                    if not all(o.state == SET and o.term for o in outs):
                        why = 'OP_RETURN must set the flag and terminate its own tape'
        rep.check('C06.R1', f'functions.{fname}|exit-state', not why, line=fi.node.lineno,
                  file=rel, why=why, facts={'ops': ops, 'exit_states': [list(s) for s in states]})
        if eng._reaches_run_tape(fi):
            r1b = []
            for o in eng.summary(fi, CLEAR):
                for p in o.problems:
                    if p[0] == 'R1b' and p not in r1b:
                        r1b.append(p)
            # nothing may follow a propagating OP_RETURN(tape) but the handler's return:
            # covered by R1b (state SET): any later statement that may raise is reported
            rep.check('C06.R1b', f'functions.{fname}|pending-flag', not r1b,
                      line=r1b[0][1] if r1b else fi.node.lineno, file=rel,
                      why=r1b[0][2] if r1b else '')

    # ---- R1c who touches the flag --------------------------------------------
    for fi in repo.all_funcs():
        if fi.module.name in ('tools',) and fi.name == 'repl':
            continue
        if eng.touches_flag(fi):
            ok = fi.key in DRIVERS or (w.is_handler(fi) and (eng._reaches_run_tape(fi)
                                                             or fi is eng.ret_handler))
            rep.check('C06.R1c', f'{fi.key}|touches-flag', ok, line=fi.node.lineno,
                      file=repo.rel(fi.module.path),
                      why='' if ok else 'function outside the sub-tape constructs reads or writes the return flag')
    # ops that must not end the tape: only OP_RETURN and Tape methods write .pointer (C07.R3b)

    # ---- R2 EVAL isolation ---------------------------------------------------
    ev = w.handler_for('OP_EVAL')
    cfg = w.cfg(ev)
    kinds = w.kinds(ev)
    own = ev.params[0]
    runs = cfg.nodes_with_call(lambda c: isinstance(c.func, ast.Name) and c.func.id == 'run_tape')
    if not runs:
        raise AnalysisError('OP_EVAL no longer calls run_tape')
    for n, call in runs:
        kt = kinds.of(call.args[0], n)
        for leaf in kt.leaves():
            if leaf.tag != 'new' or leaf.cls != 'Tape':
                rep.check('C06.R2', 'functions.OP_EVAL|subtape', False, line=n.line, file=rel,
                          why='evaluated tape is not a freshly constructed Tape')
                continue
            for field in ('definitions', 'flags'):
                k = leaf.kws.get(field)
                ok = False
                why = ''
                if k is None:
                    ok = True         # default_factory dict: a fresh empty map
                    why = ''
                else:
                    lv = k.leaves()
                    ok = all(x.tag in ('copy', 'dict') for x in lv)
                    if ok:
                        for x in lv:
                            srcs = [x.src] if x.tag == 'copy' else x.spreads
                            for s in srcs:
                                if kinds.path(s) != f'{own}.{field}':
                                    ok = False
                                    why = f'{field} copied from {kinds.path(s)}, not {own}.{field}'
                    else:
                        why = (f'sub-tape {field} aliases the caller\'s map '
                               f'({", ".join(kinds.path(x) or x.tag for x in lv)})')
                rep.check('C06.R2', f'functions.OP_EVAL|Tape({field})', ok, line=leaf.node.lineno,
                          file=rel, why=why)
    # no write-back into the caller's maps after the run
    wb = []
    for n in cfg.nodes:
        for e in node_events(n):
            if e[0] == 'store' and isinstance(e[1], ast.Attribute) and e[1].attr in ('definitions', 'flags') \
                    and isinstance(e[1].value, ast.Name) and e[1].value.id == own:
                wb.append(n)
            if e[0] == 'call' and isinstance(e[1].func, ast.Attribute) and e[1].func.attr in ('update', 'clear') \
                    and dotted(e[1].func.value) in (f'{own}.definitions', f'{own}.flags'):
                wb.append(n)
    rep.check('C06.R2', 'functions.OP_EVAL|no-write-back', not wb, line=wb[0].line if wb else ev.node.lineno,
              file=rel, why='' if not wb else 'OP_EVAL writes the caller\'s definitions/flags')

    # ---- R6 DEF binds, CALL runs the binding -----------------------------------
    _def_call(w, rep)
    _operand_decoders(w, rep)
    _zero_padding(w, rep)

    # ---- R4 / R5 documented operands and stack effect ---------------------------
    _effects_table(w, rep)

    # ---- R7 documented groups are popped contiguously ------------------------------
    _group_pops(w, rep)

    # ---- R3 table agreement ----------------------------------------------------
    _table_agreement(w, rep)

    from .report import depend
    depend(rep, w, 'rules_c03', ('C03.R1', 'C03.R2', 'C03.R4'), 'C06.TD3',
           'OP_CHECK_MULTISIG behaves as documented: false when a key is used more than once, true only with all m '
           'confirmed, pair checks fed (sig, key) on the script\'s own stack (C03.R1/R2/R4 re-evaluated)', floor=6)
    depend(rep, w, 'rules_c09', ('C09.R2', 'C09.R3', 'C09.R7'), 'C06.TD9',
           'what an instruction does depends on the flags of the run: the flags supplied by the embedder (and set by the '
           'script) reach the bodies run by CALL, LOOP, IF, TRY and EVAL unchanged (C09.R2/R3 re-evaluated)', floor=16)
    rep.explanation = (
        'Decides only the clauses of C06 that are visible in the shape of the code: the RETURN '
        'scoping rules as an inductive invariant over all handlers that run sub-tapes (R1, R1b, '
        'R1c), EVAL isolation (R2) and agreement of the five opcode tables (R3). The bulk of C06 '
        '(operand orders, numeric results, boundary behaviour of ~90 ops) quantifies over runtime '
        'values and is not decided.')
    rep.assumptions += ['handlers are reached only through run_tape dispatch or the explicit '
                        'handler->handler calls seen in the call graph']


def _effects_table(w: World, rep: Report):
    """Each instruction consumes and produces exactly the documented stack items and tape operands: the
    handler's abstract stack effect (StackFx, a counting interpretation over all paths) at a set of operand
    samples, boundary values included, against the hand-transcribed table in spec_effects.py."""
    from .stackfx import StackFx, DYNAMIC, RAISES as FX_RAISES
    from .spec_effects import SPEC, DATA, RAISES
    from .summary import tape_reads
    from .rules_c12 import norm_token
    rel = 'tapescript/functions.py'
    rep.rule('C06.R4', 'documented stack effect: for every operand sample (boundary values included) every non-raising '
             'path through the handler needs and changes the stack depth exactly as the op reference says', floor=150)
    rep.rule('C06.R5', 'documented tape operands: the handler reads exactly the documented operand fields, in order, on '
             'every path', floor=90)
    fx = StackFx(w)
    ops = dict(w.ops.by_name)
    names = {op: fn.name for op, (code, fn) in ops.items()}
    if 'NOP' in w.handlers:
        names.setdefault('NOP', 'NOP')
    missing = sorted(set(names) - set(SPEC))
    rep.check('C06.R5', 'spec-table|covers-every-op', not missing, file=rel,
              why='' if not missing else f'ops without an entry in the documented-effects table: {missing}')
    for op, hname in sorted(names.items()):
        sp = SPEC.get(op)
        if sp is None:
            continue
        fi = w.handlers[hname]
        # operands
        try:
            seqs = [[norm_token(r) for r in sq] for sq in tape_reads(w, fi)]
        except AnalysisError as e:
            seqs = [['?' + str(e)[:40]]]
        ok = len(seqs) == 1 and seqs[0] == sp.reads
        rep.check('C06.R5', f'functions.{hname}|operands', ok, line=fi.node.lineno, file=rel,
                  why='' if ok else f'{op} reads {seqs if len(seqs) != 1 else seqs[0]} from the tape; documented operands are {sp.reads}',
                  facts={'documented': sp.reads})
        if sp.net == DATA:
            rep.check('C06.R4', f'functions.{hname}|effect|data-dependent', True, line=fi.node.lineno, file=rel, trivial=True,
                      facts={'why': sp.why})
            continue
        for sample in sp.samples:
            want = sp.want(sample)
            got = fx.effect(hname, tuple(sample))
            if want == RAISES:
                ok = got == FX_RAISES
            elif got in (DYNAMIC, FX_RAISES):
                ok = False
            else:
                ok = got[1] == want[1] and (want[0] is None or got[0] == want[0])
            why = ''
            if not ok:
                if got == DYNAMIC:
                    why = (f'{op} with operands {sample}: the paths through the handler disagree about the stack depth (or it '
                           f'depends on run-time data); documented: needs {want[0]}, changes depth by {want[1]}'
                           if want != RAISES else f'{op} with operands {sample}: documented to raise, but some path completes')
                elif got == FX_RAISES:
                    why = f'{op} with operands {sample}: every path raises; documented: needs {want[0]}, net {want[1]}'
                elif want == RAISES:
                    why = f'{op} with operands {sample}: documented to raise, but the handler completes with effect {got}'
                else:
                    why = (f'{op} with operands {sample}: the handler needs {got[0]} item(s) and changes the depth by {got[1]}; '
                           f'documented: needs {want[0]}, changes depth by {want[1]}')
            rep.check('C06.R4', f'functions.{hname}|effect|{",".join("x" if v is None else str(v) for v in sample) or "-"}',
                      ok, line=fi.node.lineno, file=rel, why=why, facts={'got': got, 'want': want})


def _group_pops(w: World, rep: Report):
    """Every instruction that takes a counted group of items documents it as one run of consecutive stack items
    ("pull that many values", "count sources, then count proofs", "n keys, then m signatures", "argcount
    arguments").  A loop therefore pops one group: one pop of the handler's own stack per iteration.  Two pops
    per iteration interleave two groups - the depth effect is the same, the items land in the wrong roles."""
    rel = 'tapescript/functions.py'
    rep.rule('C06.R7', 'counted groups are popped contiguously: a loop over a count pops at most one item of the '
             'handler\'s own stack per iteration', floor=12)
    for hname, fi in sorted(w.handlers.items()):
        stack = fi.params[1]
        k = 0
        for lp in ast.walk(fi.node):
            if not isinstance(lp, (ast.For, ast.While)):
                continue
            gets = [x for b in lp.body for x in ast.walk(b)
                    if isinstance(x, ast.Call) and isinstance(x.func, ast.Attribute) and x.func.attr == 'get'
                    and isinstance(x.func.value, ast.Name) and x.func.value.id == stack]
            # pops inside a nested loop belong to that loop
            inner = [y for b in lp.body for n in ast.walk(b) if isinstance(n, (ast.For, ast.While)) for c in n.body
                     for y in ast.walk(c)]
            gets = [g for g in gets if not any(g is y for y in inner)]
            if not gets:
                continue
            k += 1
            # pops that feed the same expression chain (e.g. a get inside a put of the same item) still count each
            ok = len(gets) == 1
            rep.check('C06.R7', f'functions.{hname}|loop#{k}|one-pop-per-iteration', ok, line=lp.lineno, file=rel,
                      why='' if ok else f'the loop at line {lp.lineno} pops {len(gets)} items of the stack per iteration: two '
                      f'documented groups are read interleaved instead of one after the other (sources/proofs, keys/'
                      f'signatures ...), so items land in the wrong roles while the stack effect stays the same')
    for lc_owner, fi in sorted(w.handlers.items()):
        stack = fi.params[1]
        for lc in ast.walk(fi.node):
            if isinstance(lc, (ast.ListComp, ast.SetComp, ast.GeneratorExp)):
                gets = [x for x in ast.walk(lc) if isinstance(x, ast.Call) and isinstance(x.func, ast.Attribute)
                        and x.func.attr == 'get' and isinstance(x.func.value, ast.Name) and x.func.value.id == stack]
                if gets:
                    ok = len(gets) == 1
                    rep.check('C06.R7', f'functions.{lc_owner}|comprehension@{lc.lineno - fi.node.lineno}|one-pop-per-element',
                              ok, line=lc.lineno, file=rel,
                              why='' if ok else f'the comprehension pops {len(gets)} items per element: two groups interleaved')


def _def_call(w: World, rep: Report):
    """DEF (re)binds its handle to the body it just read on every normal path; CALL runs the binding
    named by its operand.  (A later script's DEF must win over an earlier script's: C01/C05 rely on it.)"""
    rel = 'tapescript/functions.py'
    rep.rule('C06.R6', 'OP_DEF stores the sub-tape built from the body it read under the handle it read, '
             'unconditionally, on every normal path; OP_CALL runs the definition its operand names', floor=3)
    d = w.handler_for('OP_DEF')
    cfg = w.cfg(d)
    kinds = w.kinds(d)
    own = d.params[0]
    stores, weak = [], []
    for n in cfg.nodes:
        for e in node_events(n):
            if e[0] == 'store' and isinstance(e[1], ast.Subscript) and \
                    kinds.path(kinds.of(e[1].value, n)) == f'{own}.definitions':
                stores.append((n, e[1], e[2] if len(e) > 2 else None))
            if e[0] == 'call' and isinstance(e[1].func, ast.Attribute) and \
                    kinds.path(kinds.of(e[1].func.value, n)) == f'{own}.definitions' and \
                    e[1].func.attr in ('setdefault', 'update', 'pop', 'clear', 'popitem', '__setitem__'):
                weak.append((n, e[1].func.attr))
    ok = bool(stores) and cfg.must_pass(cfg.entry, cfg.exit, through_nodes=[s[0] for s in stores])
    why = ''
    if weak:
        ok = False
        why = (f'definitions are changed with .{weak[0][1]}() (line {weak[0][0].line}): an existing binding of the '
               f'handle survives or other bindings change - a DEF in a later script no longer replaces an earlier one')
    elif not ok:
        why = ('a normal path through OP_DEF does not store the new definition (conditional or missing store): the '
               'instruction is silently ignored on that path')
    rep.check('C06.R6', 'functions.OP_DEF|binds-on-every-path', ok, line=d.node.lineno, file=rel, why=why)
    for n, tgt, val in stores:
        kk = kinds.of(tgt.slice, n)
        ok = all(l.tag == 'tape_read' and kinds.path(l.tape) == own for l in kk.leaves())
        rep.check('C06.R6', 'functions.OP_DEF|key-is-handle-operand', ok, line=n.line, file=rel,
                  why='' if ok else 'the key stored under is not the handle byte read from the tape')
        if val is not None:
            kv = kinds.of(val, n)
            lv = kv.leaves()
            ok = bool(lv) and all(l.tag == 'new' and l.cls == 'Tape' and l.args and
                                  all(x.tag == 'tape_read' and kinds.path(x.tape) == own for x in l.args[0].leaves())
                                  for l in lv)
            rep.check('C06.R6', 'functions.OP_DEF|value-is-new-subtape-of-body', ok, line=n.line, file=rel,
                      why='' if ok else 'the stored definition is not a fresh Tape over the body bytes just read '
                      '(an older binding or another object is kept instead)')
    # the body resolves its own CALLs in the defining tape's table itself (late binding): with a snapshot, a function
    # defined before a later DEF of some handle keeps calling the older binding of that handle - possibly one an earlier
    # script (the witness) made
    shares = []
    for n in cfg.nodes:
        for e in node_events(n):
            if e[0] == 'store' and isinstance(e[1], ast.Attribute) and e[1].attr == 'definitions' and len(e) > 2 \
                    and e[2] is not None:
                ko = kinds.of(e[1].value, n)
                if all(l.tag == 'new' and l.cls == 'Tape' for l in ko.leaves()):
                    shares.append((n, kinds.path(kinds.of(e[2], n)) == f'{own}.definitions', ast.unparse(e[2])))
        if n.ast is not None and n.kind != 'except':
            for x in ast.walk(n.ast):
                if isinstance(x, ast.Call) and dotted(x.func) == 'Tape':
                    for kw in x.keywords:
                        if kw.arg == 'definitions':
                            shares.append((n, kinds.path(kinds.of(kw.value, n)) == f'{own}.definitions', ast.unparse(kw.value)))
    ok = bool(shares) and all(s[1] for s in shares) and \
        cfg.must_pass(cfg.entry, cfg.exit, through_nodes=[s[0] for s in shares])
    rep.check('C06.R6', 'functions.OP_DEF|body-shares-the-definition-table', ok, line=d.node.lineno, file=rel,
              why='' if ok else
              (f'the function body gets `{shares[0][2]}` as its definitions' if shares else
               'the function body is not given the defining tape\'s definitions') +
              ', not the defining tape\'s table itself: CALLs inside the body resolve in a snapshot taken at DEF time, '
              'so a handle the same script defines later still names whatever an earlier script bound to it '
              '(or nothing) when called from this body')
    c = w.handler_for('OP_CALL')
    cfg = w.cfg(c)
    kinds = w.kinds(c)
    own = c.params[0]
    runs = cfg.nodes_with_call(lambda x: isinstance(x.func, ast.Name) and x.func.id == 'run_tape')
    if not runs:
        raise AnalysisError('OP_CALL no longer calls run_tape')
    # the definition tape is shared by every activation of the function: CALL saves its pointer, rewinds it, runs it and
    # puts the saved pointer back, so an outer activation of the same function (recursion) continues where it was
    for n, call in runs:
        T = call.args[0].id if call.args and isinstance(call.args[0], ast.Name) else None
        stores = []
        for q in cfg.nodes:
            for e in node_events(q):
                if e[0] == 'store' and isinstance(e[1], ast.Attribute) and e[1].attr == 'pointer' and \
                        isinstance(e[1].value, ast.Name) and e[1].value.id == T and len(e) > 2:
                    stores.append((q, e[2]))
        rewinds = [q for q, v in stores if cfg.dominates(q, n) and isinstance(v, ast.Constant) and v.value == 0] + \
            [q for q, c in cfg.nodes_with_call(lambda c: isinstance(c.func, ast.Attribute) and c.func.attr == 'reset_pointer'
                                               and isinstance(c.func.value, ast.Name) and c.func.value.id == T)
             if cfg.dominates(q, n)]
        post = [(q, v) for q, v in stores if cfg.dominates(n, q) and q is not n]
        why = ''
        if T is None or not rewinds:
            why = 'the definition tape is not rewound to 0 before it is run'
        elif not post or not cfg.must_pass(n, cfg.exit, through_nodes=[q for q, _ in post]):
            why = ('the pointer of the definition tape is not put back after the run on every normal path: an outer activation '
                   'of the same function (recursion) would not continue after its own CALL')
        else:
            for q, v in post:
                good = False
                if isinstance(v, ast.Name):
                    defs = cfg.defs_reaching(v.id, q)
                    good = bool(defs) and all(
                        how == 'assign' and isinstance(pl, ast.Attribute) and pl.attr == 'pointer' and
                        isinstance(pl.value, ast.Name) and pl.value.id == T and
                        all(cfg.dominates(dn, r) for r in rewinds) for dn, how, pl in defs)
                if not good:
                    why = (f'after the run the pointer of the definition tape is set to `{ast.unparse(v)[:30]}`, not to the value it '
                           f'had before the rewind: an outer activation of the same function (recursion) resumes at the wrong place')
        rep.check('C06.R6', 'functions.OP_CALL|pointer-saved-rewound-restored', not why, line=n.line, file=rel, why=why)
    for n, call in runs:
        kt = kinds.of(call.args[0], n)
        ok = all(l.tag == 'index' and kinds.path(l.src) == f'{own}.definitions' and
                 all(x.tag == 'tape_read' and kinds.path(x.tape) == own for x in l.index.leaves())
                 for l in kt.leaves())
        rep.check('C06.R6', 'functions.OP_CALL|runs-definition-named-by-operand', ok, line=n.line, file=rel,
                  why='' if ok else 'the tape run by OP_CALL is not `definitions[<handle read from the tape>]`')


def _table_agreement(w: World, rep: Report):
    repo = w.repo
    ops = w.ops
    vm = {name: code for name, (code, fn) in ops.by_name.items()}
    # docs.md
    docs_path = os.path.join(repo.root, 'docs.md')
    spec_path = os.path.join(repo.root, 'language_spec.md')
    try:
        docs = open(docs_path, encoding='utf-8').read()
        spec = open(spec_path, encoding='utf-8').read()
    except OSError as e:
        raise AnalysisError(f'documentation file missing: {e}')
    doc_ops = {}
    doc_aliases: dict[str, list[str]] = {}
    cur = None
    for ln in docs.split('\n'):
        m = re.match(r'^## (OP_[A-Z0-9_]+) - (\d+) - x([0-9A-Fa-f]{2})\s*$', ln)
        if m:
            cur = m.group(1)
            doc_ops[cur] = (int(m.group(2)), int(m.group(3), 16))
            doc_aliases[cur] = []
            continue
        if ln.startswith('## ') or ln.startswith('# '):
            cur = None
        if cur and re.match(r'^- [A-Z0-9_]+\s*$', ln):
            doc_aliases[cur].append(ln[2:].strip())
    nopm = re.search(r'^## NOP Codes - (\d+)-(\d+) \(x([0-9A-Fa-f]{2})-([0-9A-Fa-f]{2})\)', docs, re.M)
    # language_spec.md list of ops
    sec = spec.split('### List of ops', 1)
    if len(sec) != 2:
        raise AnalysisError('language_spec.md: "List of ops" section vanished')
    body = sec[1]
    nxt = re.search(r'^### ', body, re.M)
    if nxt:
        body = body[:nxt.start()]
    spec_ops = []
    for m in re.finditer(r'^- `([^`]*)`', body, re.M):
        sig = m.group(1)
        sig = re.sub(r'\[[^\]]*\]', ' ', sig)
        toks = sig.split()
        names = [t for t in toks if t.startswith('OP_') or t == 'NOP']
        if names:
            spec_ops.append(names[0])
    # compiler / decompiler labels
    ga = repo.func('parsing', 'get_args')
    comp_labels = []
    for mt, cases in match_tables(ga):
        for labels, c in cases:
            comp_labels += [l for l in labels if isinstance(l, str)]
    pn = repo.func('parsing', 'parse_next')
    block = set()
    for n in ast.walk(pn.node):
        if isinstance(n, ast.Compare) and len(n.ops) == 1 and isinstance(n.ops[0], ast.Eq) \
                and isinstance(n.comparators[0], ast.Constant) and isinstance(n.comparators[0].value, str) \
                and n.comparators[0].value.startswith('OP_'):
            block.add(n.comparators[0].value)
    dec = repo.func('parsing', 'decompile_script')
    dec_labels = []
    for mt, cases in match_tables(dec):
        for labels, c in cases:
            dec_labels += [l for l in labels if isinstance(l, str)]
    BLOCK_MAP = {'OP_IF': ['OP_IF', 'OP_IF_ELSE'], 'OP_TRY': ['OP_TRY_EXCEPT'], 'OP_DEF': ['OP_DEF'],
                 'OP_LOOP': ['OP_LOOP']}
    comp_cover = set(comp_labels)
    for b in block:
        for x in BLOCK_MAP.get(b, []):
            comp_cover.add(x)
    rel_docs, rel_spec, rel_p = 'docs.md', 'language_spec.md', 'tapescript/parsing.py'
    for name, code in sorted(vm.items(), key=lambda x: x[1]):
        why = []
        if name not in doc_ops:
            why.append('missing from docs.md')
        elif doc_ops[name] != (code, code):
            why.append(f'docs.md says {doc_ops[name][0]}/x{doc_ops[name][1]:02X}, VM table says {code}')
        if name not in spec_ops:
            why.append('missing from language_spec.md list of ops')
        if name not in comp_cover:
            why.append('no compiler case (get_args / parse_next)')
        if name not in dec_labels:
            why.append('no decompiler case')
        if comp_labels.count(name) > 1:
            why.append('handled by more than one compiler case')
        if dec_labels.count(name) > 1:
            why.append('handled by more than one decompiler case')
        if name in doc_aliases:
            vm_al = sorted(a for a, t in ops.aliases.items() if t == name and not a.startswith('OP_'))
            d_al = sorted(a for a in doc_aliases[name] if not a.startswith('OP_'))
            if vm_al != d_al:
                why.append(f'aliases differ: VM {vm_al} docs {d_al}')
        rep.check('C06.R3', f'opcode|{name}', not why, file=rel, why='; '.join(why),
                  facts={'code': code}) if False else \
            rep.check('C06.R3', f'opcode|{name}', not why, file='tapescript/functions.py',
                      why='; '.join(why), facts={'code': code})
    # nothing extra anywhere
    extra_docs = sorted(set(doc_ops) - set(vm))
    extra_spec = sorted(set(spec_ops) - set(vm) - {'OP_PUSH', 'NOP'})
    extra_comp = sorted(set(comp_labels) - set(vm) - {'OP_PUSH'})
    extra_dec = sorted(set(dec_labels) - set(vm))
    rep.check('C06.R3', 'tables|no-extra-names', not (extra_docs or extra_spec or extra_comp or extra_dec),
              file=rel_p, why='' if not (extra_docs or extra_spec or extra_comp or extra_dec) else
              f'names unknown to the VM: docs {extra_docs} spec {extra_spec} compiler {extra_comp} '
              f'decompiler {extra_dec}')
    # spec order equals code order
    order_vm = [n for n, c in sorted(vm.items(), key=lambda x: x[1])]
    order_spec = [n for n in spec_ops if n in vm]
    rep.check('C06.R3', 'language_spec|order', order_vm == order_spec, file=rel_spec,
              why='' if order_vm == order_spec else 'list of ops is not in opcode order / has duplicates')
    lo, hi = min(ops.nops), max(ops.nops)
    ok = bool(nopm) and (int(nopm.group(1)), int(nopm.group(2)), int(nopm.group(3), 16),
                         int(nopm.group(4), 16)) == (lo, hi, lo, hi)
    rep.check('C06.R3', 'docs|nop-range', ok, file=rel_docs,
              why='' if ok else f'docs.md NOP range does not equal the VM table {lo}-{hi}')
    # codes are dense 0..N-1 and names unique
    codes = sorted(ops.by_code)
    ok = codes == list(range(len(codes))) and len(vm) == len(codes)
    rep.check('C06.R3', 'vm|dense-unique', ok, file='tapescript/functions.py',
              why='' if ok else 'opcode numbers are not dense/unique')
    # every alias targets an op; the OP_-less alias of every op exists
    bad_alias = sorted(a for a, t in ops.aliases.items() if t not in vm)
    missing = sorted(n for n in vm if ops.aliases.get(n[3:]) != n)
    rep.check('C06.R3', 'vm|aliases', not bad_alias and not missing, file='tapescript/functions.py',
              why='' if not (bad_alias or missing) else f'dangling aliases {bad_alias}; ops without '
              f'their OP_-less alias {missing}')


# documented operand types (docs.md op reference): the decoder every instruction of the family applies to what it pops.
# Hand-transcribed; presence only - an instruction that stops decoding its operands (delegating to the bytes variant,
# "skipping a round trip") no longer raises on ill-typed operands and the run succeeds where it must fail.
_DECODERS = {
    'int': ('OP_ADD_INTS', 'OP_SUBTRACT_INTS', 'OP_MULT_INTS', 'OP_DIV_INT', 'OP_DIV_INTS', 'OP_MOD_INT', 'OP_MOD_INTS',
            'OP_LESS', 'OP_LESS_OR_EQUAL', 'OP_INT_TO_FLOAT', 'OP_SPLIT', 'OP_SPLIT_STR', 'OP_RANDOM'),
    'float': ('OP_SUBTRACT_FLOATS', 'OP_DIV_FLOAT', 'OP_DIV_FLOATS', 'OP_MOD_FLOAT', 'OP_MOD_FLOATS', 'OP_FLOAT_LESS',
              'OP_FLOAT_LESS_OR_EQUAL', 'OP_FLOAT_TO_INT'),
    'str': ('OP_CONCAT_STR', 'OP_SPLIT_STR'),
    'bool': ('OP_VERIFY', 'OP_IF', 'OP_IF_ELSE', 'OP_LOOP'),
}
_DECODER_FN = {'int': ('bytes_to_int',), 'float': ('bytes_to_float',), 'bool': ('bytes_to_bool',), 'str': ('str', 'decode')}


def _operand_decoders(w: World, rep: Report):
    rep.rule('C06.R8', 'typed instructions decode what they pop with the decoder of their documented operand type '
             '(int / float / UTF-8 string / bool), so an ill-typed operand is an error', floor=25)
    for typ, ops in _DECODERS.items():
        fns = _DECODER_FN[typ]
        for op in ops:
            try:
                fi = w.handler_for(op)
            except Exception:
                raise AnalysisError(f'{op}: handler not found')
            found = _decodes_stack_item(w, fi, fns, depth=0)
            rep.check('C06.R8', f'functions.{fi.name}|decodes-{typ}', found, line=fi.node.lineno,
                      file='tapescript/functions.py',
                      why='' if found else f'{op} is documented to take {typ} operands but no item it pops goes through '
                      f'{" / ".join(fns)}: an operand that is not a valid {typ} is accepted instead of raising')


def _decodes_stack_item(w: World, fi, fns, depth: int) -> bool:
    cfg = w.cfg(fi)
    kinds = w.kinds(fi)

    def is_dec(c):
        return (isinstance(c.func, ast.Name) and c.func.id in fns and c.args) or \
            (isinstance(c.func, ast.Attribute) and c.func.attr in fns)
    for nd, c in cfg.nodes_with_call(is_dec):
        arg = c.args[0] if isinstance(c.func, ast.Name) else c.func.value
        try:
            k = kinds.of(arg, nd)
        except Exception:
            continue
        if any(x.tag == 'stack_item' for x in k.walk()):
            return True
    # the work may be done by another handler this one calls with its own (tape, stack, cache)
    if depth < 2:
        for nd, c in cfg.nodes_with_call(lambda c: isinstance(c.func, ast.Name) and c.func.id in w.handlers):
            if _decodes_stack_item(w, w.handlers[c.func.id], fns, depth + 1):
                return True
    return False


def _zero_padding(w: World, rep: Report):
    """XOR / OR / AND are documented to pad the shorter operand with x00 up to the length of the longer one and then
    work byte by byte over the whole length."""
    rep.rule('C06.R9', 'the bitwise instructions pad the shorter operand with x00 (both directions) before combining the '
             'operands over their full length', floor=3)
    helper_of = {'OP_XOR': 'xor', 'OP_OR': 'or_bytes', 'OP_AND': 'and_bytes'}
    for op, helper in helper_of.items():
        fi = w.handler_for(op)
        pads = []
        # `x += b'\\x00'` in a loop, or `x += b'\\x00' * n` under a test of the length difference
        for a in [y for y in ast.walk(fi.node) if isinstance(y, ast.AugAssign) and isinstance(y.op, ast.Add)]:
            v = a.value
            if isinstance(v, ast.BinOp) and isinstance(v.op, ast.Mult):
                v = v.left if isinstance(v.left, ast.Constant) else v.right
            if isinstance(v, ast.Constant) and isinstance(v.value, bytes) and len(v.value) == 1:
                pads.append((v.value, a.lineno))
        for c in [x for x in ast.walk(fi.node) if isinstance(x, ast.Call) and isinstance(x.func, ast.Attribute) and
                  x.func.attr in ('ljust', 'rjust') and len(x.args) == 2 and isinstance(x.args[1], ast.Constant)]:
            pads.append((c.args[1].value if c.func.attr == 'ljust' else b'<left>', c.lineno))
        calls = [x for x in ast.walk(fi.node) if isinstance(x, ast.Call) and isinstance(x.func, ast.Name) and x.func.id == helper]
        if len(pads) != 2 or len(calls) != 1:
            raise AnalysisError(f'{op}: padding loops / call of {helper} not recognised (pads {len(pads)}, calls {len(calls)})')
        wrong = [p for p in pads if p[0] != b'\x00']
        rep.check('C06.R9', f'functions.{fi.name}|pads-with-zero-bytes', not wrong, line=wrong[0][1] if wrong else fi.node.lineno,
                  file='tapescript/functions.py',
                  why='' if not wrong else f'{op} pads the shorter operand with {wrong[0][0]!r}, documented: x00 (on the right) - '
                  f'operands of different lengths combine to another value')
