"""Command line driver:  ./check C01 [--tier quick|thorough] [--replay PATH]
                         ./check --selfcheck | --all [--tier T]"""
from __future__ import annotations
import importlib
import json
import os
import sys
import traceback

from .report import Report, AnalysisError

PROPS = ['C01', 'C02', 'C03', 'C04', 'C05', 'C06', 'C07', 'C08', 'C09', 'C11', 'C12', 'C13',
         'C14', 'C15', 'C16', 'C17', 'C19', 'C20']


def load_rules(prop: str):
    try:
        return importlib.import_module(f'tsa.rules_{prop.lower()}')
    except ModuleNotFoundError as e:
        if e.name == f'tsa.rules_{prop.lower()}':
            return None
        raise


VM_PROPS = {'C01', 'C02', 'C03', 'C05', 'C06', 'C07', 'C08', 'C09', 'C16', 'C17'}
PARSER_PROPS = {'C11', 'C12', 'C20'}


def run_property(prop: str, tier: str, seed: int, quiet: bool = False) -> tuple[int, Report]:
    mod = load_rules(prop)
    level = getattr(mod, 'LEVEL', 'other') if mod else 'other'
    rep = Report(prop, tier=tier, seed=seed, level=level, quiet=quiet)
    if mod is None:
        rep.error(f'no rules module for {prop}')
        return rep.finish(), rep
    try:
        from .summary import World
        world = World()
        notes = getattr(world.repo, 'inline_notes', None) or {}
        for x in notes.get('inlined', [])[:12]:
            rep.note(f'helper inlined before analysis: {x}')
        # a helper called from code this property reads that the analyser cannot look into: its effects are unknown
        scope = ('functions.', 'classes.') if prop in VM_PROPS else (('parsing.',) if prop in PARSER_PROPS else ())
        for x in [o for o in notes.get('opaque', []) if o.startswith(scope)][:5] if scope else []:
            rep.error(f'helper not analysable: {x}')
        world.__dict__.setdefault('_dep_cache', {})[f'rules_{prop.lower()}'] = 'running'
        mod.run(world, rep)
        if tier == 'thorough' and hasattr(mod, 'run_thorough'):
            mod.run_thorough(world, rep)
        if tier == 'thorough' and os.environ.get('TSA_NO_AUDIT') != '1':
            from . import audit
            audit.run_audit(prop, rep, seed)
    except AnalysisError as e:
        rep.error(str(e))
    except RecursionError:
        rep.error('analyser recursion limit hit')
    except Exception as e:       # never let a traceback look like a violation
        tb = traceback.format_exc().strip().split('\n')
        rep.error(f'analyser raised {type(e).__name__}: {e} [{tb[-3].strip() if len(tb) > 2 else ""}]')
        if os.environ.get('TSA_DEBUG'):
            traceback.print_exc()
    return rep.finish(), rep


def main(argv=None) -> int:
    argv = list(sys.argv[1:] if argv is None else argv)
    tier = os.environ.get('VERIF_TIER', 'quick')
    seed = int(os.environ.get('VERIF_SEED', '0') or 0)
    replay = None
    props = []
    selfcheck = False
    i = 0
    while i < len(argv):
        a = argv[i]
        if a == '--tier':
            tier = argv[i + 1]
            i += 2
        elif a == '--replay':
            replay = argv[i + 1]
            i += 2
        elif a == '--selfcheck':
            selfcheck = True
            i += 1
        elif a == '--all':
            try:
                man = json.load(open(os.path.join(os.path.dirname(os.path.dirname(os.path.abspath(__file__))), 'MANIFEST.json')))
                props = [c['property_id'] for c in man['checks']]
            except Exception:
                props = list(PROPS)
            i += 1
        else:
            props.append(a)
            i += 1
    if tier not in ('quick', 'thorough'):
        print(f'ANALYSIS-ERROR unknown tier {tier}')
        return 2
    if selfcheck:
        from . import selfcheck as sc
        return sc.main()
    if replay:
        with open(replay) as f:
            r = json.load(f)
        prop = r['property']
        code, rep = run_property(prop, 'quick', seed, quiet=True)
        hit = [x for x in rep.instances if x.rule == r['rule'] and x.construct == r['construct']]
        print(f'replay of {r["rule"]} at {r["construct"]}: rule text: {r.get("rule_text")}')
        if not hit:
            print('  the construct is no longer present in the tree')
            return 2
        for x in hit:
            print(f'  now: ok={x.ok} file={x.file} line={x.line} why={x.why}')
            print(f'  facts: {json.dumps(x.facts, default=str)}')
        if any(not x.ok for x in hit):
            print(f'VIOLATION property={prop} replay={replay}')
            return 1
        return 0
    if not props:
        print(__doc__)
        return 2
    worst = 0
    for p in props:
        code, _ = run_property(p, tier, seed)
        worst = max(worst, code)
    return worst


if __name__ == '__main__':
    try:
        sys.exit(main())
    except SystemExit:
        raise
    except BaseException as e:      # last resort: never exit 1 on a crash
        print(f'ANALYSIS-ERROR analyser crashed: {type(e).__name__}: {e}')
        sys.exit(2)
