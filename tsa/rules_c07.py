"""C07 - stack, item-size, call-depth, loop and tape limits hold at every step."""
from __future__ import annotations
import ast
from .report import Report, AnalysisError
from .summary import World, node_events, tape_sites, tape_fields, size_class
from .model import dotted, walk_no_nested, FuncRef
from .kinds import K
from . import linear as L
from .guards import edge_formula, make_subst

LEVEL = 'other'
RELF = 'tapescript/functions.py'
RELC = 'tapescript/classes.py'
GROW = ('append', 'appendleft', 'extend', 'extendleft', 'insert', 'rotate', '__iadd__', 'reverse')
READS = ('pop', 'popleft', 'copy', 'count', 'index', 'clear', '__len__', '__getitem__', '__iter__')
SCRIPT_ERR = 'ScriptExecutionError'


def run(w: World, rep: Report):
    rep.rule('C07.R1', 'every growth of a Stack\'s storage goes through Stack.put, whose append is '
             'dominated by the type guard, len(item) <= max_item_size and len(storage) < max_items (exact)', floor=12)
    rep.rule('C07.R2', 'Tape.read / move_pointer: slice and pointer update dominated by '
             'pointer + n <= len(data) (exact)', floor=3)
    rep.rule('C07.R3a', 'every size handed to Tape.read / move_pointer is a non-negative constant, an '
             'unsigned decode, a single byte or a length', floor=55)
    rep.rule('C07.R3b', 'tape.pointer is written only by Tape methods, OP_RETURN (to the end) and OP_CALL '
             '(callee tape); resets only on tapes the handler owns', floor=5)
    rep.rule('C07.R4', 'every handler on a recursion cycle through run_tape is dominated by a '
             'callstack_count < callstack_limit guard and hands the sub-tape a strictly larger count', floor=6)
    rep.rule('C07.R4b', 'no execution sub-tape is constructed with a call-stack count below its parent\'s', floor=5)
    rep.rule('C07.R5', 'every loop of the VM has a recognised variant (pointer progress, bounded counter, '
             'shrinking difference, bounded range, finite collection, popping body)', floor=40)
    rep.rule('C07.R6', 'no script-chosen integer reaches an allocation sink unless bounded by a Stack/Tape '
             'limit under a dominating script-error guard', floor=4)
    rep.rule('C07.R7', 'limit guards raise the script-error class', floor=2)
    storage = _storage_attr(w)
    _r1(w, rep, storage)
    _r2(w, rep)
    _r3(w, rep)
    _r4(w, rep)
    _r5(w, rep, storage)
    _r6(w, rep)
    from .report import depend
    depend(rep, w, 'rules_c09', ('C09.R1',), 'C07.TD9',
           'the configured call-stack limit and the running count reach every sub-tape and every follow-up script: a tape '
           'built without them falls back to the default limit of 128 and a count of 0 (C09.R1 re-evaluated)', floor=20)
    rep.explanation = (
        'A set of necessary structural conditions for C07, each decided on the current source: who may '
        'grow the stack storage and exactness of the guards in Stack.put (R1), Tape bounds (R2), '
        'non-negativity of every read size and ownership of tape.pointer (R3), depth accounting on every '
        'recursion cycle through run_tape (R4), a termination variant for every loop (R5), taint from '
        'script-chosen integers to allocation sinks (R6), error class of limit guards (R7). R1-R3 and R5 '
        'together give the stack/tape clauses; memory of big-integer arithmetic and non-limit Python '
        'exceptions (IndexError on empty stack) are not decided.')
    rep.assumptions += ['deque/list/bytes semantics of CPython', 'item sizes are bounded by Stack.put, so '
                        'lengths of stack items are limit-bounded quantities']


# ---------------------------------------------------------------------------
def _storage_attr(w: World) -> str:
    init = w.repo.func('classes', 'Stack.__init__')
    for n in ast.walk(init.node):
        if isinstance(n, ast.Assign) and isinstance(n.value, ast.Call) and \
                (dotted(n.value.func) or '').split('.')[-1] in ('deque', 'list'):
            t = n.targets[0]
            if isinstance(t, ast.Attribute) and isinstance(t.value, ast.Name) and t.value.id == 'self':
                return t.attr
        if isinstance(n, ast.Assign) and isinstance(n.value, ast.List):
            t = n.targets[0]
            if isinstance(t, ast.Attribute) and isinstance(t.value, ast.Name) and t.value.id == 'self':
                return t.attr
    raise AnalysisError('Stack.__init__: storage attribute not recognised')


def vm_used_methods(w: World, cls: str) -> set[str]:
    """Methods of a VM class that something in the package calls: on a receiver typed as the class (annotation, or
    assigned from its constructor / from run_script's result), or through `self` from another used method; dunder
    methods count as used.  A method nobody calls (a convenience added for embedders) is not part of any run."""
    cached = w.__dict__.setdefault('_used_methods', {})
    if cls in cached:
        return cached[cls]
    meths = {fi.name for fi in w.repo.all_funcs(['classes']) if fi.cls == cls}
    used = {m for m in meths if m.startswith('__')}
    for fi in w.repo.all_funcs(['functions', 'parsing', 'tools', 'classes']):
        if fi.cls == cls:
            continue
        typed = {p for p in fi.params if cls in str(fi.annotations.get(p, ''))}
        for x in ast.walk(fi.node):
            if isinstance(x, ast.Assign) and isinstance(x.value, ast.Call):
                fn = dotted(x.value.func) or ''
                for t in x.targets:
                    if isinstance(t, ast.Name) and fn == cls:
                        typed.add(t.id)
                    if isinstance(t, ast.Tuple) and fn in ('run_script',):
                        for k, el in enumerate(t.elts):
                            if isinstance(el, ast.Name) and ((cls == 'Tape' and k == 0) or (cls == 'Stack' and k == 1)):
                                typed.add(el.id)
        for x in ast.walk(fi.node):
            if isinstance(x, ast.Attribute) and x.attr in meths and isinstance(x.value, ast.Name) and x.value.id in typed:
                used.add(x.attr)
            # attribute chains like tape.definitions[h].reset_pointer(): any use of a method name of the class on a
            # non-dict-like receiver that is not itself a known other type
            if isinstance(x, ast.Attribute) and x.attr in meths and not isinstance(x.value, ast.Name) and \
                    x.attr not in ('copy', 'clear', 'get', 'pop', 'items', 'keys', 'values', 'update', 'index', 'count'):
                used.add(x.attr)
    changed = True
    while changed:
        changed = False
        for fi in w.repo.all_funcs(['classes']):
            if fi.cls == cls and fi.name in used:
                for x in ast.walk(fi.node):
                    if isinstance(x, ast.Attribute) and isinstance(x.value, ast.Name) and x.value.id == 'self' and \
                            x.attr in meths and x.attr not in used:
                        used.add(x.attr)
                        changed = True
    cached[cls] = used
    return used


def _r1(w: World, rep: Report, storage: str):
    put = w.repo.func('classes', 'Stack.put')
    n_acc = 0
    used_stack = vm_used_methods(w, 'Stack')
    for fi in w.repo.all_funcs():
        if fi.module.name == 'tools' and fi.qualname.startswith('repl'):
            continue
        if fi.cls == 'Stack' and fi.name not in used_stack:
            rep.note(f'Stack.{fi.name} is called by nothing in the package: not part of any run, not examined')
            continue
        cfg = w.cfg(fi)
        counter = {}
        for n in cfg.nodes:
            if n.ast is None or n.kind == 'except':
                continue
            root = n.ast if n.kind != 'for' else n.ast.iter
            for x in ast.walk(root):
                if not (isinstance(x, ast.Attribute) and x.attr == storage):
                    continue
                if isinstance(x.value, ast.Name) and x.value.id == 'self' and fi.cls != 'Stack':
                    continue
                n_acc += 1
                par = cfg.parent.get(id(x))
                gp = cfg.parent.get(id(par)) if par is not None else None
                kind, ok, why = 'read', True, ''
                if isinstance(par, ast.Attribute) and isinstance(gp, ast.Call) and gp.func is par:
                    m = par.attr
                    if m in GROW:
                        kind = f'grow:{m}'
                        ok = fi.key == put.key and m == 'append'
                        why = '' if ok else f'stack storage grown/rotated by .{m}() outside the checked put'
                    elif m in READS or m in ('pop',):
                        kind = f'call:{m}'
                    else:
                        kind = f'call:{m}'
                        ok = False
                        why = f'unrecognised method .{m}() on the stack storage'
                elif isinstance(par, ast.Subscript) and par.value is x and isinstance(par.ctx, ast.Store):
                    kind = 'index-store'
                    # value must be loaded from the same storage (a permutation)
                    asg = gp
                    val = asg.value if isinstance(asg, ast.Assign) else None
                    if isinstance(gp, (ast.Tuple, ast.List)):
                        # `a[i], a[j] = x, y`: the value stored in this slot is the element at the same position
                        asg = cfg.parent.get(id(gp))
                        val = None
                        if isinstance(asg, ast.Assign):
                            pos = [i for i, t in enumerate(gp.elts) if t is par]
                            if isinstance(asg.value, (ast.Tuple, ast.List)) and len(asg.value.elts) == len(gp.elts) and pos:
                                val = asg.value.elts[pos[0]]
                            else:
                                val = asg.value
                    ok = False
                    if val is not None:
                        k = w.kinds(fi).of(val, n)
                        lv = []
                        for l in k.leaves():
                            l2 = _resolve_unpack(l)
                            lv += list(l2.leaves()) if l2 is not l else [l]
                        ok = bool(lv) and all(l.tag == 'index' and l.src.tag == 'attr' and l.src.attr == storage
                                              for l in lv)
                    why = '' if ok else 'stack slot overwritten with a value that does not come from the stack'
                elif isinstance(par, ast.Subscript) and isinstance(par.ctx, ast.Del):
                    kind = 'index-del'
                elif isinstance(par, ast.AugAssign) and par.target is x:
                    kind = 'augassign'
                    ok = False
                    why = 'stack storage extended by augmented assignment outside the checked put'
                elif isinstance(par, ast.Assign) and x in par.targets:
                    kind = 'rebind'
                    ok = fi.key == 'classes.Stack.__init__'
                    why = '' if ok else 'stack storage rebound outside Stack.__init__'
                elif isinstance(par, (ast.Call,)) and x in par.args:
                    nm = dotted(par.func) or ''
                    kind = f'arg:{nm}'
                    ok = nm in ('len', 'list', 'sum', 'tuple', 'reversed', 'enumerate', 'iter', 'sorted', 'any', 'all', 'min', 'max') or \
                        (nm == "map" and par.args and isinstance(par.args[0], ast.Name) and par.args[0].id in ('len', 'bool', 'bytes', 'type'))
                    why = '' if ok else f'stack storage handed to `{nm}`'
                base = f'{fi.key}|{kind}'
                counter[base] = counter.get(base, 0) + 1
                tag = base if counter[base] == 1 else f'{base}#{counter[base]}'
                rep.check('C07.R1', tag, ok, line=n.line, file=w.repo.rel(fi.module.path), why=why,
                          trivial=kind.startswith(('read', 'call:', 'arg:')))
    if n_acc < 12:
        raise AnalysisError(f'only {n_acc} accesses of the stack storage found')
    # a guard's message is evaluated on every call, before the guard looks at its condition: it must not be able to
    # raise itself (`x.to_bytes(2, 'big')` in the message of Tape.read turns every read past offset 65535 into an
    # OverflowError - an interpreter-level failure on a valid script)
    SAFE_IN_MESSAGE = {'len', 'str', 'repr', 'hex', 'get', 'type', 'format', 'join', 'keys', 'bool'}
    for mn in ('classes',):
        mod = w.repo.modules.get(mn)
        badm = []
        nmsg = 0
        for c in [x for x in ast.walk(mod.tree) if isinstance(x, ast.Call) and isinstance(x.func, ast.Name) and
                  x.func.id in ('sert', 'vert', 'tert', 'yert') and len(x.args) > 1]:
            nmsg += 1
            for inner in [y for y in ast.walk(c.args[1]) if isinstance(y, ast.Call)]:
                nm = inner.func.attr if isinstance(inner.func, ast.Attribute) else (inner.func.id if isinstance(inner.func, ast.Name) else '?')
                if nm not in SAFE_IN_MESSAGE:
                    badm.append((c.lineno, ast.unparse(inner)[:40]))
            for inner in [y for y in ast.walk(c.args[1]) if isinstance(y, ast.Subscript)]:
                badm.append((c.lineno, ast.unparse(inner)[:40]))
        rep.check('C07.R7', f'{mn}|guard-messages-cannot-raise', not badm, line=badm[0][0] if badm else None,
                  file=f'tapescript/{mn}.py',
                  why='' if not badm else f'the message of a guard computes `{badm[0][1]}`, which can raise by itself: the guard '
                  f'then fails with that exception on inputs for which its condition holds', facts={'guard_messages': nmsg})
    # the accessors hand out a stored item or raise: an instruction applied to too few items is an error, not an
    # instruction applied to a made-up item (OP_LOOP peeks its condition; a default there silently skips the loop)
    for mname in ('get', 'peek'):
        mfi = w.repo.func('classes', f'Stack.{mname}')
        rets = [r for r in ast.walk(mfi.node) if isinstance(r, ast.Return)]
        bad = ''
        for r in rets:
            v = r.value
            stored = v is not None and any(
                (isinstance(x, ast.Subscript) and dotted(x.value) == f'self.{storage}') or
                (isinstance(x, ast.Call) and isinstance(x.func, ast.Attribute) and x.func.attr in ('pop', 'popleft') and
                 dotted(x.func.value) == f'self.{storage}') for x in ast.walk(v))
            made_up = v is None or any(isinstance(x, ast.Constant) and isinstance(x.value, (bytes, type(None)))
                                       for x in ast.walk(v)) and not isinstance(v, (ast.Subscript, ast.Call)) or \
                isinstance(v, ast.IfExp) or isinstance(v, ast.BoolOp)
            if not stored or made_up:
                bad = f'`return {ast.unparse(v)[:30] if v is not None else ""}` hands out something that is not a stored item'
        if any(isinstance(x, ast.Try) for x in ast.walk(mfi.node)):
            bad = bad or 'the accessor catches exceptions: an empty stack no longer raises'
        if not rets:
            bad = 'no return'
        rep.check('C07.R1', f'classes.Stack.{mname}|stored-item-or-raise', not bad, line=mfi.node.lineno,
                  file='tapescript/classes.py', why=bad)
    # guards inside put
    cfg = w.cfg(put)
    item = put.params[1]
    appends = cfg.nodes_with_call(lambda c: isinstance(c.func, ast.Attribute) and c.func.attr == 'append'
                                  and dotted(c.func.value) == f'self.{storage}')
    if len(appends) != 1:
        raise AnalysisError('Stack.put: expected exactly one append to the storage')
    an, ac = appends[0]
    arg_ok = len(ac.args) == 1 and isinstance(ac.args[0], ast.Name) and ac.args[0].id == item and \
        all(how == 'param' for _, how, _ in cfg.defs_reaching(item, an))
    rep.check('C07.R1', 'classes.Stack.put|append|checked-item', arg_ok, line=an.line, file=RELC,
              why='' if arg_ok else 'the appended value is not the checked parameter')
    wants = {
        'type': None,
        'size': f'len({item}) <= self.max_item_size',
        'count': f'len(self.{storage}) < self.max_items',
    }
    for name, text in wants.items():
        edges = []
        exact = False
        for t in cfg.nodes:
            if t.kind != 'test':
                continue
            for succ, lab in t.succ:
                if lab not in (True, False):
                    continue
                if name == 'type':
                    txt = ast.unparse(t.ast).replace(' ', '')
                    if txt in (f'type({item})isbytes', f'isinstance({item},bytes)') and lab is True:
                        edges.append((t, succ, lab))
                        exact = True
                else:
                    want = L.formula(ast.parse(text, mode='eval').body)
                    try:
                        f = edge_formula(cfg, t, lab)
                    except Exception:
                        continue
                    if L.implies(f, want):
                        edges.append((t, succ, lab))
                        if L.equivalent(f, want)[0]:
                            exact = True
        dom = bool(edges) and cfg.must_pass(cfg.entry, an, through_edges=edges)
        why = ''
        if not dom:
            why = f'append not dominated by the {name} guard' + (f' `{text}`' if text else '')
            if name == 'count':
                why += ' (a deque with maxlen silently drops the bottom item when appended to while full)'
        elif not exact:
            why = f'{name} guard is stricter than documented `{text}`'
        rep.check('C07.R1', f'classes.Stack.put|guard|{name}', dom and exact, line=an.line, file=RELC, why=why)
        if edges:
            for t, succ, lab in edges:
                for s2, l2 in t.succ:
                    if l2 is not lab and name != 'type':
                        ok = cfg.raise_class_of(s2) == SCRIPT_ERR
                        rep.check('C07.R7', f'classes.Stack.put|{name}|error-class', ok, line=t.line, file=RELC,
                                  why='' if ok else f'limit violation does not raise {SCRIPT_ERR}')
    # limits are the constructor arguments
    init = w.repo.func('classes', 'Stack.__init__')
    for attr in ('max_items', 'max_item_size'):
        ok = False
        for n in ast.walk(init.node):
            if isinstance(n, ast.Assign) and isinstance(n.targets[0], ast.Attribute) and n.targets[0].attr == attr \
                    and isinstance(n.value, ast.Name) and n.value.id == attr:
                ok = True
        rep.check('C07.R1', f'classes.Stack.__init__|{attr}', ok, line=init.node.lineno, file=RELC,
                  why='' if ok else f'Stack.{attr} is not the constructor argument')
    # nobody rewrites the limits afterwards
    for fi in w.repo.all_funcs():
        for n in ast.walk(fi.node):
            if isinstance(n, (ast.Assign, ast.AugAssign)):
                tg = n.targets if isinstance(n, ast.Assign) else [n.target]
                for t in tg:
                    if isinstance(t, ast.Attribute) and t.attr in ('max_items', 'max_item_size') and \
                            fi.key != 'classes.Stack.__init__':
                        rep.check('C07.R1', f'{fi.key}|writes-{t.attr}', False, line=n.lineno,
                                  file=w.repo.rel(fi.module.path), why='stack limit rewritten after construction')


def _r2(w: World, rep: Report):
    want_txt = 'self.pointer + {n} <= len(self.data)'
    for q in ('Tape.read', 'Tape.move_pointer'):
        fi = w.repo.func('classes', q)
        cfg = w.cfg(fi)
        npar = fi.params[1]
        want = L.formula(ast.parse(want_txt.format(n=npar), mode='eval').body)
        edges, exact = [], False
        for t in cfg.nodes:
            if t.kind != 'test':
                continue
            for succ, lab in t.succ:
                if lab not in (True, False):
                    continue
                try:
                    f = edge_formula(cfg, t, lab)
                except Exception:
                    continue
                if L.implies(f, want):
                    edges.append((t, succ, lab))
                    exact = exact or L.equivalent(f, want)[0]
        targets = []
        for n in cfg.nodes:
            if n.ast is None:
                continue
            for x in ast.walk(n.ast):
                if isinstance(x, ast.Subscript) and isinstance(x.slice, ast.Slice) and dotted(x.value) == 'self.data':
                    targets.append((n, 'slice'))
            for ev in node_events(n):
                if ev[0] == 'aug' and dotted(ev[1].target) == 'self.pointer':
                    targets.append((n, 'pointer-update'))
                if ev[0] == 'store' and dotted(ev[1]) == 'self.pointer':
                    targets.append((n, 'pointer-update'))
        if not targets:
            raise AnalysisError(f'{q}: no slice / pointer update found')
        for n, what in targets:
            dom = bool(edges) and cfg.must_pass(cfg.entry, n, through_edges=edges)
            why = ''
            if not dom:
                why = f'{what} not dominated by `{want_txt.format(n=npar)}`'
            elif not exact:
                why = 'bounds guard is stricter than pointer + n <= len(data) (last byte unreadable)'
            rep.check('C07.R2', f'classes.{q}|{what}', dom and exact, line=n.line, file=RELC, why=why)
        for t, succ, lab in edges:
            for s2, l2 in t.succ:
                if l2 is not lab:
                    ok = cfg.raise_class_of(s2) == SCRIPT_ERR
                    rep.check('C07.R7', f'classes.{q}|bounds|error-class', ok, line=t.line, file=RELC,
                              why='' if ok else f'tape overrun does not raise {SCRIPT_ERR}')
        # the slice must be [pointer : pointer+size]
        if q == 'Tape.read':
            ok = False
            for n in ast.walk(fi.node):
                if isinstance(n, ast.Subscript) and isinstance(n.slice, ast.Slice) and dotted(n.value) == 'self.data':
                    lo, hi = n.slice.lower, n.slice.upper
                    if lo is not None and hi is not None and ast.unparse(lo) == 'self.pointer' and \
                            L.linear(hi).key() == L.linear(ast.parse(f'self.pointer + {npar}', mode='eval').body).key():
                        ok = True
            rep.check('C07.R2', 'classes.Tape.read|slice-bounds', ok, line=fi.node.lineno, file=RELC,
                      why='' if ok else 'read does not return data[pointer:pointer+size]')
            # pointer advance equals the size read
            adv = False
            for n in ast.walk(fi.node):
                if isinstance(n, ast.Call) and dotted(n.func) == 'self.move_pointer' and n.args and \
                        isinstance(n.args[0], ast.Name) and n.args[0].id == npar:
                    adv = True
                if isinstance(n, ast.AugAssign) and dotted(n.target) == 'self.pointer' and isinstance(n.op, ast.Add) \
                        and isinstance(n.value, ast.Name) and n.value.id == npar:
                    adv = True
            rep.check('C07.R2', 'classes.Tape.read|advance', adv, line=fi.node.lineno, file=RELC,
                      why='' if adv else 'read does not advance the pointer by the size read')


def _r3(w: World, rep: Report):
    n_sites = 0
    for fi in w.repo.all_funcs(['functions']):
        cfg = w.cfg(fi)
        kinds = w.kinds(fi)
        idx = {}
        for n, c in cfg.nodes_with_call(lambda c: isinstance(c.func, ast.Attribute)
                                        and c.func.attr in ('read', 'move_pointer')):
            recv = kinds.of(c.func.value, n)
            if kinds.recv_type(recv) != 'Tape':
                continue
            n_sites += 1
            arg = c.args[0] if c.args else None
            for kw in c.keywords:
                if kw.arg in ('size', 'n'):
                    arg = kw.value
            if arg is None:
                raise AnalysisError(f'{fi.key}: read without size')
            k = kinds.of(arg, n)
            size, decode, prefix = size_class(k)
            ok = (decode == 'const' and size >= 0) or decode in ('uint', 'byte', 'len')
            base = f'{fi.key}|{c.func.attr}({ast.unparse(arg)[:24]})'
            idx[base] = idx.get(base, 0) + 1
            tag = base if idx[base] == 1 else f'{base}#{idx[base]}'
            rep.check('C07.R3a', tag, ok, line=n.line, file=RELF, trivial=(decode == 'const'),
                      why='' if ok else f'size of the tape read is `{decode}` - it can be negative, and a '
                      f'negative size moves the pointer backwards',
                      facts={'decode': decode, 'prefix': prefix})
    if n_sites < 55:
        raise AnalysisError(f'only {n_sites} tape reads found in functions.py')
    # R3b: who writes .pointer
    ret = w.handler_for('OP_RETURN')
    call = w.handler_for('OP_CALL')
    used_tape = vm_used_methods(w, 'Tape')
    for fi in w.repo.all_funcs(['functions', 'classes', 'parsing', 'tools']):
        if fi.cls == 'Tape' and fi.name not in used_tape:
            rep.note(f'Tape.{fi.name} is called by nothing in the package: not part of any run, not examined')
            continue
        cfg = w.cfg(fi)
        kinds = w.kinds(fi)
        own = fi.params[0] if fi.params else None
        idx = {}
        for n in cfg.nodes:
            for ev in node_events(n):
                tgt = None
                val = None
                if ev[0] == 'store' and isinstance(ev[1], ast.Attribute) and ev[1].attr == 'pointer':
                    tgt, val = ev[1], ev[2]
                if ev[0] == 'aug' and isinstance(ev[1].target, ast.Attribute) and ev[1].target.attr == 'pointer':
                    tgt, val = ev[1].target, None
                if tgt is not None:
                    ok, why = False, ''
                    recv = tgt.value
                    if fi.cls == 'Tape' and isinstance(recv, ast.Name) and recv.id == 'self':
                        ok = True
                        if fi.name not in ('move_pointer', 'reset_pointer', 'reset', '__init__', '__post_init__'):
                            ok = False
                            why = f'Tape.{fi.name} writes the pointer'
                        if fi.name in ('reset_pointer', 'reset') and not (
                                isinstance(val, ast.Constant) and val.value == 0):
                            ok, why = False, 'reset does not set the pointer to 0'
                        if fi.name == 'move_pointer' and not (
                                ev[0] == 'aug' and isinstance(ev[1].op, ast.Add)
                                and isinstance(ev[1].value, ast.Name) and ev[1].value.id == fi.params[1]):
                            ok, why = False, 'move_pointer does not advance by its argument'
                    elif fi.key == ret.key and isinstance(recv, ast.Name) and recv.id == own:
                        ok = isinstance(val, ast.Call) and ast.unparse(val) == f'len({own}.data)'
                        why = '' if ok else 'OP_RETURN does not move the pointer to the end of its tape'
                    elif fi.key == call.key:
                        k = kinds.of(recv, n)
                        ok = all(l.tag == 'index' and l.src.tag == 'attr' and l.src.attr == 'definitions'
                                 for l in k.leaves())
                        why = '' if ok else 'OP_CALL writes the pointer of a tape other than the called definition'
                    else:
                        why = 'tape pointer written outside Tape / OP_RETURN / OP_CALL'
                    base = f'{fi.key}|pointer-write'
                    idx[base] = idx.get(base, 0) + 1
                    rep.check('C07.R3b', base if idx[base] == 1 else f'{base}#{idx[base]}', ok, line=n.line,
                              file=w.repo.rel(fi.module.path), why=why)
                if ev[0] == 'call' and isinstance(ev[1].func, ast.Attribute) and \
                        ev[1].func.attr in ('reset_pointer', 'reset') and fi.module.name == 'functions':
                    k = kinds.of(ev[1].func.value, n)
                    if kinds.recv_type(k) != 'Tape':
                        continue
                    ok = all(l.tag == 'new' for l in k.leaves())
                    base = f'{fi.key}|{ev[1].func.attr}'
                    idx[base] = idx.get(base, 0) + 1
                    rep.check('C07.R3b', base if idx[base] == 1 else f'{base}#{idx[base]}', ok, line=n.line,
                              file=RELF, why='' if ok else 'a handler rewinds a tape it did not construct')


def _r4(w: World, rep: Report):
    fields = tape_fields(w)
    n = 0
    for fname, fi in sorted(w.handlers.items()):
        cfg = w.cfg(fi)
        runs = cfg.nodes_with_call(lambda c: isinstance(c.func, ast.Name) and c.func.id == 'run_tape')
        if not runs:
            continue
        own = fi.params[0]
        want = L.formula(ast.parse(f'{own}.callstack_count < {own}.callstack_limit', mode='eval').body)
        edges = []
        for t in cfg.nodes:
            if t.kind != 'test':
                continue
            for succ, lab in t.succ:
                if lab not in (True, False):
                    continue
                try:
                    f = edge_formula(cfg, t, lab, subst=False)
                except Exception:
                    continue
                if L.implies(f, want):
                    edges.append((t, succ, lab))
        sites = {s.var: s for s in tape_sites(w, fi) if s.var}
        ok_all, why = True, ''
        for rn, rc in runs:
            n += 1
            guarded = bool(edges) and cfg.must_pass(cfg.entry, rn, through_edges=edges)
            larger = False
            a0 = rc.args[0] if rc.args else None
            if isinstance(a0, ast.Name) and a0.id in sites:
                reach = {d[0].id for d in cfg.defs_reaching(a0.id, rn)}
                cands = [s for s in tape_sites(w, fi) if s.var == a0.id and s.node.id in reach]
                larger = bool(cands)
                for s in cands:
                    e = s.field_expr('callstack_count', fields)
                    if not _strictly_larger(e, own):
                        larger = False
            else:
                # OP_CALL style: own count incremented, then handed over
                inc = False
                hand = False
                for m in cfg.nodes:
                    for ev in node_events(m):
                        if ev[0] == 'aug' and dotted(ev[1].target) == f'{own}.callstack_count' and \
                                isinstance(ev[1].op, ast.Add) and isinstance(ev[1].value, ast.Constant) \
                                and ev[1].value.value >= 1 and cfg.dominates(m, rn):
                            inc = True
                        if ev[0] == 'store' and isinstance(ev[1], ast.Attribute) and ev[1].attr == 'callstack_count' \
                                and isinstance(a0, ast.Name) and isinstance(ev[1].value, ast.Name) \
                                and ev[1].value.id == a0.id and dotted(ev[2]) == f'{own}.callstack_count' \
                                and cfg.dominates(m, rn):
                            hand = True
                larger = inc and hand
            if not guarded:
                ok_all = False
                why = 'sub-tape run is not dominated by a callstack_count < callstack_limit guard'
            elif not larger:
                ok_all = False
                why = 'the sub-tape does not receive a strictly larger callstack_count'
        if not ok_all and not any(edges):
            why = ('nested bodies recurse through run_tape without depth accounting: nesting depth is '
                   'bounded only by tape length (RecursionError, an interpreter-level failure)')
        rep.check('C07.R4', f'functions.{fname}|run_tape|depth', ok_all, line=fi.node.lineno, file=RELF, why=why)
        for t, succ, lab in edges:
            for s2, l2 in t.succ:
                if l2 is not lab:
                    ok = cfg.raise_class_of(s2) == SCRIPT_ERR
                    rep.check('C07.R7', f'functions.{fname}|depth|error-class', ok, line=t.line, file=RELF,
                              why='' if ok else f'call-depth violation does not raise {SCRIPT_ERR}')
    if n < 6:
        raise AnalysisError('fewer than 6 run_tape call sites in handlers')
    _cumulative_budget(w, rep, fields)
    # R4b: no execution sub-tape starts with a smaller count than its parent (the budget is never reset)
    from .rules_c09 import _count_ge_parent, _site_tag
    for fname, fi in sorted(w.handlers.items()):
        own = fi.params[0]
        sites = tape_sites(w, fi)
        for s in sites:
            if s.role() != 'exec':
                continue
            e = s.field_expr('callstack_count', fields)
            ok = e is not None and _count_ge_parent(e, own)
            rep.check('C07.R4b', f'functions.{fname}|{_site_tag(fi, s, sites)}|count-not-reset', ok, line=s.line,
                      file=RELF, why='' if ok else 'the sub-tape starts with a call-stack count below its parent\'s: '
                      'calls / evaluations made from inside it escape the call-stack limit')


def _cumulative_budget(w: World, rep: Report, fields):
    """R4c: drivers that run several tapes in sequence (run_auth_scripts) carry the call-stack count from
    the tape that ran last into the next one: the count is read from the loop-carried tape variable at
    construction time, never from a snapshot taken before the loop."""
    rep.rule('C07.R4c', 'sequential drivers carry the call-stack count of the tape that ran last into the next '
             'tape (cumulative budget; no snapshot from before the loop, no reset)', floor=1)
    # the passes of one LOOP share a call budget: the body runs on ONE sub-tape built before the loop (its running
    # count is what carries the calls of a pass into the next pass); a fresh sub-tape per pass starts each pass from
    # the count the LOOP was entered with
    lp_h = w.handler_for('OP_LOOP')
    whiles = [x for x in ast.walk(lp_h.node) if isinstance(x, (ast.While, ast.For))]
    inside = [c for wl in whiles for c in ast.walk(wl) if isinstance(c, ast.Call) and isinstance(c.func, ast.Name) and c.func.id == 'Tape']
    carried = any(isinstance(x, (ast.Assign, ast.AugAssign)) and 'callstack_count' in ast.unparse(x.targets[0] if isinstance(x, ast.Assign) else x.target)
                  for wl in whiles for x in ast.walk(wl))
    ok_lp = bool(whiles) and (not inside or carried)
    rep.check('C07.R4b', 'functions.OP_LOOP|passes-share-the-call-budget', ok_lp, line=lp_h.node.lineno, file=RELF,
              why='' if ok_lp else 'the loop body gets a fresh sub-tape on every pass and the call count is not carried over: calls '
              'made in one pass are not charged in the next, so a loop can make far more calls than the call-stack limit')
    for fi in w.repo.all_funcs(['functions']):
        if w.is_handler(fi) or fi.parent is not None:
            continue
        cfg = w.cfg(fi)
        kinds = w.kinds(fi)
        for s in tape_sites(w, fi):
            if s.role() != 'exec' or not cfg.loops_around(s.node):
                continue
            e = s.field_expr('callstack_count', fields)
            stores = s.attr_stores.get('callstack_count', [])
            if e is None and stores:
                e, at = stores[-1][1], stores[-1][0]
            else:
                at = s.node
            ok, why = False, 'the tape built for each further script starts with the default count 0: the budget ' \
                'spent by earlier scripts is forgotten'
            if e is not None:
                k = kinds.of(e, at)
                ok, why = True, ''
                for l in _resolve_unpack(k).leaves():
                    l = _resolve_unpack(l)
                    if l.tag == 'binop' and l.op == 'Add':
                        l = l.left if l.left.tag == 'attr' else l.right
                    if l.tag != 'attr' or l.attr != 'callstack_count':
                        ok, why = False, f'the count handed to the next tape is not a tape\'s callstack_count ({l.tag})'
                        break
                    bl = list(l.base.leaves())
                    carried = any(b.tag in ('new', 'cycle') for b in bl)
                    if not carried:
                        ok = False
                        why = ('the count handed to the next tape is read from the tape(s) run before the loop only '
                               '(a snapshot): calls made by the scripts run inside the loop are forgotten, so the '
                               'limit is not enforced across the whole run')
                        break
            rep.check('C07.R4c', f'{fi.key}|loop-tape|count-carried', ok, line=s.line, file=RELF, why=why)


def _resolve_unpack(k: K) -> K:
    """`a, b = x, y` : the kind of b is the kind of y."""
    seen = 0
    while k.tag == 'unpack' and k.src.tag in ('tuple', 'list') and seen < 5:
        elts = k.src.elts
        if not (0 <= k.index < len(elts)):
            break
        k = elts[k.index]
        seen += 1
    return k


def _strictly_larger(e, own) -> bool:
    if not (isinstance(e, ast.BinOp) and isinstance(e.op, ast.Add)):
        return False
    for a, b in ((e.left, e.right), (e.right, e.left)):
        if dotted(a) == f'{own}.callstack_count' and isinstance(b, ast.Constant) and isinstance(b.value, int) \
                and b.value >= 1:
            return True
    return False


# ---------------------------------------------------------------------------
# R5 loops
# ---------------------------------------------------------------------------

def _bounded_int(k: K) -> tuple[bool, str]:
    """Is this integer bounded by a small constant / a length?  (ok, description)"""
    if k.tag == 'const' and isinstance(k.value, int):
        return True, 'constant'
    if k.tag in ('uint', 'sint'):
        src = k.src
        if src.tag == 'tape_read' and src.size.tag == 'const' and src.size.value == 1:
            return True, 'one tape byte'
        if src.tag == 'tape_read':
            return False, 'multi-byte integer from the tape'
        return False, 'integer decoded from ' + src.tag
    if k.tag == 'index' and k.src.tag == 'tape_read':
        return True, 'one tape byte'
    if k.tag == 'len':
        return True, 'length'
    if k.tag == 'binop':
        l, r = _bounded_int(k.left), _bounded_int(k.right)
        if k.op in ('Add', 'Sub', 'FloorDiv', 'Mod', 'BitAnd') and l[0] and r[0]:
            return True, f'{l[1]} {k.op} {r[1]}'
        if k.op == 'Mult' and l[0] and r[0] and ('constant' in (l[1], r[1])):
            return True, f'{l[1]} * {r[1]}'
        return False, f'arithmetic over ({l[1]}, {r[1]})'
    if k.tag == 'join':
        rs = [_bounded_int(a) for a in k.alts]
        return all(r[0] for r in rs), ' | '.join(r[1] for r in rs)
    if k.tag == 'int':
        return _bounded_int(k.src)
    if k.tag == 'param':
        return False, f'parameter {k.name}'
    return False, k.tag


def _body_pops(body, stack_names) -> bool:
    """Does the loop body unconditionally pop the stack (first-level statement)?"""
    for st in body:
        if isinstance(st, (ast.If, ast.For, ast.While, ast.Try)):
            continue
        for x in ast.walk(st):
            if isinstance(x, ast.Call) and isinstance(x.func, ast.Attribute) and x.func.attr == 'get' \
                    and isinstance(x.func.value, ast.Name) and x.func.value.id in stack_names:
                return True
    return False


def _r5(w: World, rep: Report, storage: str):
    count = 0
    for fi in w.repo.all_funcs(['functions', 'classes']):
        cfg = w.cfg(fi)
        kinds = w.kinds(fi)
        stack_names = {p for p in fi.params if fi.annotations.get(p) == 'Stack'} | {'stack'}
        idx = {}

        def tag_for(base):
            idx[base] = idx.get(base, 0) + 1
            return base if idx[base] == 1 else f'{base}#{idx[base]}'

        # while loops
        for st in [x for b in cfg.body for x in ast.walk(b) if isinstance(x, ast.While)]:
            count += 1
            ok, variant, why = _while_variant(w, fi, cfg, st)
            rep.check('C07.R5', tag_for(f'{fi.key}|while|{variant or "unrecognised"}'), ok, line=st.lineno,
                      file=w.repo.rel(fi.module.path), why=why, facts={'test': ast.unparse(st.test)})
        # for loops and comprehensions
        prior_popping_ranges = []
        for n in cfg.nodes:
            iters = []
            if n.kind == 'for':
                iters.append((n.ast.iter, n.ast.body, n, 'for'))
            elif n.ast is not None and n.kind != 'except':
                for x in ast.walk(n.ast):
                    if isinstance(x, (ast.ListComp, ast.SetComp, ast.DictComp, ast.GeneratorExp)):
                        for g in x.generators:
                            elt = [x.elt] if not isinstance(x, ast.DictComp) else [x.key, x.value]
                            iters.append((g.iter, [ast.Expr(value=e) for e in elt], n, 'comp'))
            for it, body, node, what in iters:
                count += 1
                ok, variant, why = True, 'collection', ''
                if isinstance(it, ast.Call) and isinstance(it.func, ast.Name) and it.func.id == 'range':
                    arg = it.args[-1] if len(it.args) <= 2 else it.args[1]
                    k = kinds.of(arg, node)
                    b, desc = _bounded_int(k)
                    if b:
                        variant = 'bounded-range'
                    elif _body_pops(body, stack_names):
                        variant = 'popping-body'
                        prior_popping_ranges.append((ast.unparse(arg), node))
                    elif any(txt == ast.unparse(arg) and cfg.dominates(pn, node)
                             for txt, pn in prior_popping_ranges):
                        variant = 'count-consumed-by-dominating-popping-loop'
                    else:
                        ok = False
                        variant = 'unbounded-range'
                        why = (f'loop over range({ast.unparse(arg)}) where the count is {desc} and the body '
                               f'does not pop the stack: iterations are not bounded by any limit')
                rep.check('C07.R5', tag_for(f'{fi.key}|{what}|{variant}'), ok, line=node.line,
                          file=w.repo.rel(fi.module.path), why=why, trivial=(variant == 'collection'),
                          facts={'iter': ast.unparse(it)[:50]})
    if count < 40:
        raise AnalysisError(f'only {count} loops found in the VM modules')


def _while_variant(w, fi, cfg, st: ast.While):
    test = st.test
    # (a) pointer progress: `while not tape.has_terminated()` with an unconditional >=1-byte read first
    if isinstance(test, ast.UnaryOp) and isinstance(test.op, ast.Not) and isinstance(test.operand, ast.Call) \
            and isinstance(test.operand.func, ast.Attribute) and test.operand.func.attr == 'has_terminated':
        tp = dotted(test.operand.func.value)
        first = st.body[0] if st.body else None
        progress = False
        if first is not None and not isinstance(first, (ast.If, ast.For, ast.While, ast.Try)):
            for x in ast.walk(first):
                if isinstance(x, ast.Call) and isinstance(x.func, ast.Attribute) and x.func.attr == 'read' \
                        and dotted(x.func.value) == tp and x.args and isinstance(x.args[0], ast.Constant) \
                        and isinstance(x.args[0].value, int) and x.args[0].value >= 1 \
                        and len(x.args) == 1 and not x.keywords:
                    progress = True
        if progress:
            # no continue before the read: it is the first statement
            return True, 'pointer-progress', ''
        return False, 'pointer-progress', 'fetch loop does not start each iteration with a >= 1 byte read'
    # (b0) countdown: while c > K: ... c -= k (k >= 1) unconditionally in every iteration, no other write of c
    if isinstance(test, ast.Compare) and len(test.ops) == 1 and isinstance(test.ops[0], (ast.Gt, ast.GtE, ast.Lt, ast.LtE)):
        l, r = test.left, test.comparators[0]
        cvar = None
        if isinstance(test.ops[0], (ast.Gt, ast.GtE)) and isinstance(l, ast.Name) and isinstance(r, ast.Constant):
            cvar = l.id
        if isinstance(test.ops[0], (ast.Lt, ast.LtE)) and isinstance(r, ast.Name) and isinstance(l, ast.Constant):
            cvar = r.id
        if cvar is not None:
            decs = [x for x in st.body if isinstance(x, ast.AugAssign) and isinstance(x.target, ast.Name) and x.target.id == cvar
                    and isinstance(x.op, ast.Sub) and isinstance(x.value, ast.Constant) and isinstance(x.value.value, int)
                    and x.value.value >= 1]
            writes = [x for x in ast.walk(st) if isinstance(x, ast.Name) and x.id == cvar and isinstance(x.ctx, ast.Store)]
            has_continue = any(isinstance(x, ast.Continue) for x in ast.walk(st))
            if len(decs) == 1 and len(writes) == 1 and (not has_continue or st.body.index(decs[0]) == 0):
                return True, 'countdown', ''
            return False, 'countdown', f'loop counter `{cvar}` is not decreased by a positive constant in every iteration'
    # (b1) a list filled up to a bound: while len(xs) < n: xs.append(..) exactly once per iteration, n not written
    if isinstance(test, ast.Compare) and len(test.ops) == 1 and isinstance(test.ops[0], (ast.Lt, ast.Gt)):
        a, b = test.left, test.comparators[0]
        if isinstance(test.ops[0], ast.Gt):
            a, b = b, a
        if isinstance(a, ast.Call) and dotted(a.func) == 'len' and a.args and isinstance(a.args[0], ast.Name) and \
                isinstance(b, (ast.Name, ast.Constant)):
            x = a.args[0].id
            apps = [s2 for s2 in st.body if isinstance(s2, ast.Expr) and isinstance(s2.value, ast.Call) and
                    isinstance(s2.value.func, ast.Attribute) and s2.value.func.attr == 'append' and
                    isinstance(s2.value.func.value, ast.Name) and s2.value.func.value.id == x]
            other = [n for n in ast.walk(st) if isinstance(n, ast.Call) and isinstance(n.func, ast.Attribute) and
                     isinstance(n.func.value, ast.Name) and n.func.value.id == x and n.func.attr != 'append']
            rebinds = [n for n in ast.walk(st) if isinstance(n, ast.Name) and isinstance(n.ctx, ast.Store) and
                       n.id in {x} | ({b.id} if isinstance(b, ast.Name) else set())]
            has_continue = any(isinstance(n, ast.Continue) for n in ast.walk(st))
            if len(apps) == 1 and not other and not rebinds and not has_continue:
                return True, 'filling-list', ''
    # (b) shrinking difference: while len(a) < len(b): a += <non-empty bytes>
    if isinstance(test, ast.Compare) and len(test.ops) == 1 and isinstance(test.ops[0], (ast.Lt, ast.Gt)):
        a, b = test.left, test.comparators[0]
        if isinstance(test.ops[0], ast.Gt):
            a, b = b, a
        # a is the smaller side: len(x) where x grows; b is len(y) or a name
        if isinstance(a, ast.Call) and dotted(a.func) == 'len' and isinstance(a.args[0], ast.Name):
            x = a.args[0].id
            body = [s for s in st.body if not (isinstance(s, ast.Expr) and isinstance(s.value, ast.Constant))]
            if len(body) == 1 and isinstance(body[0], ast.AugAssign) and isinstance(body[0].op, ast.Add) \
                    and isinstance(body[0].target, ast.Name) and body[0].target.id == x:
                v = body[0].value
                nonempty = (isinstance(v, ast.Constant) and isinstance(v.value, bytes) and len(v.value) >= 1) or \
                    (isinstance(v, ast.Call) and isinstance(v.func, ast.Attribute) and v.func.attr == 'digest')
                other_fixed = x not in {n.id for n in ast.walk(b) if isinstance(n, ast.Name)}
                if nonempty and other_fixed:
                    return True, 'shrinking-difference', ''
        return False, 'shrinking-difference', 'padding loop does not strictly grow the shorter operand'
    # (c) bounded counter: first statement is a script-error guard  c < LIMIT, c += k>0 on every back edge
    body = st.body
    g_cls, g_cond = None, None
    if body and isinstance(body[0], ast.Expr) and isinstance(body[0].value, ast.Call):
        g_cls = cfg.exc.guard_class(fi.module.name, body[0].value)
        g_cond = body[0].value.args[0] if body[0].value.args else None
    elif body and isinstance(body[0], ast.If) and not body[0].orelse and len(body[0].body) == 1 and \
            isinstance(body[0].body[0], ast.Raise):
        exc = body[0].body[0].exc
        g_cls = ast.unparse(exc.func if isinstance(exc, ast.Call) else exc) if exc is not None else None
        t = body[0].test
        if isinstance(t, ast.UnaryOp) and isinstance(t.op, ast.Not):
            g_cond = t.operand
        elif isinstance(t, ast.Compare) and len(t.ops) == 1 and isinstance(t.ops[0], (ast.GtE, ast.Gt)):
            inv = ast.Lt() if isinstance(t.ops[0], ast.GtE) else ast.LtE()
            g_cond = ast.Compare(left=t.left, ops=[inv], comparators=t.comparators)
    if g_cls is not None and g_cond is not None:
        cls = g_cls
        cond = g_cond
        # orientation: `LIMIT > c` is `c < LIMIT`
        if isinstance(cond, ast.Compare) and len(cond.ops) == 1 and isinstance(cond.ops[0], (ast.Gt, ast.GtE)) and \
                isinstance(cond.comparators[0], ast.Name):
            cond = ast.Compare(left=cond.comparators[0], ops=[ast.Lt() if isinstance(cond.ops[0], ast.Gt) else ast.LtE()],
                               comparators=[cond.left])
        if cls and isinstance(cond, ast.Compare) and len(cond.ops) == 1 and isinstance(cond.ops[0], (ast.Lt, ast.LtE)) \
                and isinstance(cond.left, ast.Name):
            c = cond.left.id
            limit = cond.comparators[0]
            limit_ok = 'callstack_limit' in ast.unparse(limit) or 'max_' in ast.unparse(limit)
            # all assignments to c inside the loop are `c += const>0`, and one dominates every back edge
            incs, others = [], []
            for x in ast.walk(st):
                if isinstance(x, ast.AugAssign) and isinstance(x.target, ast.Name) and x.target.id == c:
                    if isinstance(x.op, ast.Add) and isinstance(x.value, ast.Constant) and \
                            isinstance(x.value.value, int) and x.value.value >= 1:
                        incs.append(x)
                    else:
                        others.append(x)
                if isinstance(x, ast.Assign) and any(isinstance(t, ast.Name) and t.id == c for t in x.targets):
                    others.append(x)
            head = [n for n in cfg.nodes if n.kind == 'join' and n.stmt is st]
            if len(head) != 1:
                return False, 'bounded-counter', 'loop head not found'
            head = head[0]
            inc_nodes = [n for n in cfg.nodes if n.kind == 'stmt' and any(n.ast is i for i in incs)]
            back_ok = True
            for p, lab in head.pred:
                if p.id in cfg.reachable_from([head]) and lab in ('back',) or (
                        p.id in cfg.reachable_from([s for s, _ in head.succ]) and p is not None
                        and any(p is q for q, _ in head.pred) and _is_back(cfg, p, head)):
                    first_body = [s for s, l2 in head.succ]
                    # every path from loop head to this back edge passes an increment
                    if not cfg.must_pass(head, p, through_nodes=inc_nodes) and p not in inc_nodes:
                        back_ok = False
            exact_cls = cls == SCRIPT_ERR
            # `continue` statements would bypass a trailing increment
            for x in ast.walk(st):
                if isinstance(x, ast.Continue):
                    back_ok = back_ok and False
            # the number of iterations: the guard is the first statement of an iteration and sees
            # c0 + (k-1)*inc in the k-th one, so `c < L` admits L - c0 iterations and `c <= L` admits
            # L - c0 + 1: "no more than the limit" needs c0 >= 0 resp. c0 >= 1
            inits = [x for x in ast.walk(fi.node) if isinstance(x, (ast.Assign, ast.AnnAssign)) and
                     any(isinstance(t, ast.Name) and t.id == c for t in
                         (x.targets if isinstance(x, ast.Assign) else [x.target]))
                     and not any(x is y for y in ast.walk(st))]
            init_vals = [x.value.value if isinstance(x.value, ast.Constant) and type(x.value.value) is int else None
                         for x in inits]
            need0 = 0 if isinstance(cond.ops[0], ast.Lt) else 1
            start_ok = bool(init_vals) and all(v is not None and v >= need0 for v in init_vals)
            if incs and not others and back_ok and limit_ok and exact_cls and start_ok:
                return True, 'bounded-counter', ''
            if incs and not others and back_ok and limit_ok and exact_cls and not start_ok:
                return False, 'bounded-counter', (
                    f'loop guard `{ast.unparse(cond)}` with the counter starting at '
                    f'{[ast.unparse(x.value) for x in inits] or "an unknown value"} admits more iterations than the limit')
            why = 'iteration counter of the loop is not strictly increased on every path back to the guard'
            if not limit_ok:
                why = f'loop bound `{ast.unparse(limit)}` is not a configured limit'
            if not exact_cls:
                why = f'loop limit raises {cls}, not {SCRIPT_ERR}'
            if not incs:
                why = 'loop counter is never increased'
            return False, 'bounded-counter', why
    return False, None, 'while loop with no recognised termination variant'


def _is_back(cfg, p, head) -> bool:
    return head.id in cfg.reachable_from([head]) and p.id in cfg.reachable_from([s for s, _ in head.succ])


# ---------------------------------------------------------------------------
# R6 taint to allocation sinks
# ---------------------------------------------------------------------------

def _value_taint(k: K) -> str | None:
    """Description of a script-chosen integer source with value-taint, or None."""
    if k.tag in ('sint', 'uint'):
        src = k.src
        for leaf in src.leaves():
            if leaf.tag == 'stack_item':
                return 'integer decoded from a stack item'
            if leaf.tag == 'tape_read':
                sz = leaf.size
                if not (sz.tag == 'const' and isinstance(sz.value, int) and sz.value <= 1):
                    return 'multi-byte integer read from the tape'
        return None
    if k.tag in ('len',):
        return None
    if k.tag == 'call' and k.name in ('log2', 'floor', 'ceil', 'bit_length'):
        inner = [_value_taint(a) for a in k.args]
        if k.name == 'log2':
            return None
        return next((i for i in inner if i), None)
    if k.tag == 'mcall' and k.method == 'bit_length':
        return None
    if k.tag == 'binop':
        return _value_taint(k.left) or _value_taint(k.right)
    if k.tag == 'unary':
        return _value_taint(k.operand)
    if k.tag == 'join':
        return next((t for t in (_value_taint(a) for a in k.alts) if t), None)
    if k.tag == 'int':
        return _value_taint(k.src)
    if k.tag == 'index' and k.src.tag == 'stack_item':
        return None     # one byte of an item
    return None


def _r6(w: World, rep: Report):
    n_sinks = 0
    for fi in w.repo.all_funcs(['functions']):
        cfg = w.cfg(fi)
        kinds = w.kinds(fi)
        idx = {}
        for n in cfg.nodes:
            if n.ast is None or n.kind == 'except':
                continue
            root = n.ast if n.kind != 'for' else n.ast.iter
            for x in ast.walk(root):
                sink, arg = None, None
                if isinstance(x, ast.Call):
                    nm = dotted(x.func) or ''
                    last = nm.split('.')[-1]
                    if last in ('token_bytes', 'urandom', 'bytearray', 'randbytes') and x.args:
                        sink, arg = last, x.args[0]
                    elif nm == 'bytes' and len(x.args) == 1:
                        ka = kinds.of(x.args[0], n)
                        if ka.tag in ('sint', 'uint', 'int', 'binop', 'len'):
                            sink, arg = 'bytes(n)', x.args[0]
                    elif isinstance(x.func, ast.Attribute) and x.func.attr in ('digest', 'hexdigest') and x.args:
                        sink, arg = '.digest(n)', x.args[0]
                    elif isinstance(x.func, ast.Attribute) and x.func.attr == 'to_bytes' and x.args:
                        sink, arg = '.to_bytes(n)', x.args[0]
                elif isinstance(x, ast.BinOp) and isinstance(x.op, ast.Mult):
                    for a, b in ((x.left, x.right), (x.right, x.left)):
                        ka = kinds.of(a, n)
                        if (ka.tag == 'const' and isinstance(ka.value, (bytes, str))) or ka.tag in ('list',):
                            sink, arg = 'sequence * n', b
                elif isinstance(x, ast.BinOp) and isinstance(x.op, (ast.LShift, ast.Pow)):
                    sink, arg = ('1 << n' if isinstance(x.op, ast.LShift) else 'base ** n'), x.right
                if sink is None:
                    continue
                n_sinks += 1
                k = kinds.of(arg, n)
                taint = _value_taint(k)
                ok, why = True, ''
                if taint:
                    ok = _bounded_by_guard(cfg, n, arg)
                    if not ok:
                        why = (f'{taint} flows into `{sink}` without a dominating script-error guard that '
                               f'bounds it by a stack/tape limit: memory proportional to an attacker-chosen number')
                base = f'{fi.key}|{sink}'
                idx[base] = idx.get(base, 0) + 1
                rep.check('C07.R6', base if idx[base] == 1 else f'{base}#{idx[base]}', ok, line=n.line,
                          file=RELF, why=why, trivial=not taint,
                          facts={'arg': ast.unparse(arg)[:40], 'taint': taint})
    if n_sinks < 4:
        raise AnalysisError(f'only {n_sinks} allocation sinks found')


def _bounded_by_guard(cfg, n, arg) -> bool:
    """A dominating script-error guard `arg <= <expr mentioning a limit>`."""
    names = {x.id for x in ast.walk(arg) if isinstance(x, ast.Name)}
    edges = []
    for t in cfg.nodes:
        if t.kind != 'test' or not isinstance(t.ast, ast.Compare) or len(t.ast.ops) != 1:
            continue
        a, b, op = t.ast.left, t.ast.comparators[0], t.ast.ops[0]
        if isinstance(op, (ast.Gt, ast.GtE)):
            a, b = b, a
            op = ast.Lt() if isinstance(op, ast.Gt) else ast.LtE()
        if not isinstance(op, (ast.Lt, ast.LtE)):
            continue
        an = {x.id for x in ast.walk(a) if isinstance(x, ast.Name)}
        btxt = ast.unparse(b)
        if names & an and ast.unparse(a) == ast.unparse(arg) and \
                any(s in btxt for s in ('max_item_size', 'max_items', 'len(', 'remaining(')):
            for succ, lab in t.succ:
                if lab is True:
                    # the failing side must raise the script-error class
                    bad = [s2 for s2, l2 in t.succ if l2 is False]
                    if all(cfg.raise_class_of(s2) == SCRIPT_ERR for s2 in bad):
                        edges.append((t, succ, lab))
    return bool(edges) and cfg.must_pass(cfg.entry, n, through_edges=edges)
