"""Write-effect summaries: which parameter-/global-rooted containers a function mutates,
directly or through the package functions it calls (fixpoint over the call graph)."""
from __future__ import annotations
import ast
from .report import AnalysisError
from .summary import World, node_events
from .model import dotted, FuncRef

MUTATING = ('append', 'appendleft', 'extend', 'extendleft', 'insert', 'remove', 'pop', 'popleft',
            'clear', 'sort', 'reverse', 'update', 'add', 'discard', 'setdefault', 'popitem',
            '__setitem__', '__delitem__', 'rotate')
STRUCTURAL = set(MUTATING) - {'sort', 'reverse', 'rotate'} | {'del', 'rebind', 'store-new'}


class Write:
    __slots__ = ('path', 'op', 'line', 'via', 'key', 'fn')

    def __init__(self, path, op, line, via=None, key=None, fn=None):
        self.path = path
        self.op = op
        self.line = line
        self.via = via          # callee chain
        self.key = key          # ast of the key/element (direct writes only)
        self.fn = fn

    def sig(self):
        return (self.path, self.op)

    def __repr__(self):
        return f'{self.op}@{self.path}' + (f' via {self.via}' if self.via else '')


class Effects:
    def __init__(self, w: World, modules=('functions', 'parsing', 'classes', 'tools')):
        self.w = w
        self.modules = modules
        self.direct: dict[str, list[Write]] = {}
        self.summary: dict[str, dict[tuple, Write]] = {}
        self.funcs = {fi.key: fi for fi in w.repo.all_funcs(modules)}
        self._cmap = {}
        self._compute()

    # -- paths ----------------------------------------------------------------
    def path(self, fi, expr, node) -> str | None:
        kinds = self.w.kinds(fi)
        return self._kpath(kinds, kinds.of(expr, node))

    def _kpath(self, kinds, k) -> str | None:
        leaves = k.leaves()
        ps = set()
        for l in leaves:
            if l.tag == 'mcall' and l.method in ('items', 'keys', 'values'):
                ps.add(self._kpath(kinds, l.recv))
            elif l.tag == 'mcall' and l.method == 'get':
                b = self._kpath(kinds, l.recv)
                ps.add(None if b is None else b + '[*]')
            else:
                ps.add(kinds.path(l))
        ps.discard(None)
        if len(ps) == 1:
            p = ps.pop()
            if p.startswith(('new@', 'copy@')):
                return None
            return p
        return None

    # -- direct writes -----------------------------------------------------------
    def _direct(self, fi):
        out = []
        cfg = self.w.cfg(fi)
        for n in cfg.nodes:
            for ev in node_events(n):
                if ev[0] in ('store', 'del') and isinstance(ev[1], ast.Subscript):
                    p = self.path(fi, ev[1].value, n)
                    if p:
                        out.append(Write(p, 'store' if ev[0] == 'store' else 'del', n.line, key=ev[1].slice, fn=fi.key))
                elif ev[0] == 'store' and isinstance(ev[1], ast.Attribute):
                    p = self.path(fi, ev[1].value, n)
                    if p:
                        out.append(Write(p + '.' + ev[1].attr, 'rebind', n.line, fn=fi.key))
                elif ev[0] == 'aug':
                    t = ev[1].target
                    if isinstance(t, ast.Subscript):
                        p = self.path(fi, t.value, n)
                        if p:
                            out.append(Write(p, 'store', n.line, key=t.slice, fn=fi.key))
                    elif isinstance(t, ast.Attribute):
                        p = self.path(fi, t.value, n)
                        if p:
                            out.append(Write(p + '.' + t.attr, 'rebind', n.line, fn=fi.key))
                    elif isinstance(t, ast.Name) and not getattr(ev[1], 'tsa_from_assign', False):
                        # x += [..] on a list/dict alias mutates in place (`x = x + [..]` rebinds instead)
                        k = self.w.kinds(fi).of_name(t.id, n)
                        p = self._kpath(self.w.kinds(fi), k)
                        if p and isinstance(ev[1].op, (ast.Add, ast.BitOr)) and p != t.id:
                            out.append(Write(p, 'extend', n.line, fn=fi.key))
                elif ev[0] == 'call' and isinstance(ev[1].func, ast.Attribute) and ev[1].func.attr in MUTATING:
                    c = ev[1]
                    p = self.path(fi, c.func.value, n)
                    if p:
                        out.append(Write(p, c.func.attr, n.line, key=c.args[0] if c.args else None, fn=fi.key))
        return out

    # -- fixpoint ----------------------------------------------------------------
    def _compute(self):
        for key, fi in self.funcs.items():
            self.direct[key] = self._direct(fi)
            self.summary[key] = {}
            for wr in self.direct[key]:
                if self._rooted(fi, wr.path):
                    self.summary[key].setdefault(wr.sig(), wr)
        changed = True
        rounds = 0
        while changed:
            changed = False
            rounds += 1
            if rounds > 30:
                raise AnalysisError('write-effect fixpoint did not converge')
            for key, fi in self.funcs.items():
                for wr in self.call_writes(fi):
                    if self._rooted(fi, wr.path) and wr.sig() not in self.summary[key]:
                        self.summary[key][wr.sig()] = wr
                        changed = True

    def _rooted(self, fi, path: str) -> bool:
        root = path.split('.')[0].split('[')[0]
        if root.startswith('::'):
            return True
        if root.startswith('^'):
            return True
        return root in fi.params

    def call_writes(self, fi, within: ast.AST | None = None) -> list[Write]:
        """Writes performed by callees of fi (optionally only calls inside `within`),
        expressed in fi's own paths."""
        out = []
        cfg = self.w.cfg(fi)
        inside = None
        if within is not None:
            inside = {id(x) for x in ast.walk(within)}
        for n in cfg.nodes:
            for ev in node_events(n):
                if ev[0] != 'call':
                    continue
                c = ev[1]
                if inside is not None and id(c) not in inside:
                    continue
                callee = None
                if isinstance(c.func, ast.Name):
                    fr = self.w.resolve_call(fi, c)
                    if fr is not None:
                        callee = self.funcs.get(f'{fr.module}.{fr.name}')
                    if callee is None and fi.parent is None:
                        # nested function of fi
                        callee = self.funcs.get(f'{fi.module.name}.{fi.qualname}.{c.func.id}')
                recv_expr = None
                if callee is None and isinstance(c.func, ast.Attribute):
                    callee = self._method(fi, c, n)
                    recv_expr = c.func.value if callee is not None else None
                if callee is None:
                    continue
                for wr in self.summary[callee.key].values():
                    root = wr.path.split('.')[0].split('[')[0]
                    rest = wr.path[len(root):]
                    if root.startswith('::'):
                        out.append(Write(wr.path, wr.op, n.line, via=(callee.name + ('>' + wr.via if wr.via else '')),
                                         fn=wr.fn))
                        continue
                    if root not in callee.params:
                        continue
                    arg = self._arg_for(callee, c, root)
                    if recv_expr is not None and callee.params and root == callee.params[0]:
                        arg = recv_expr
                    if arg is None:
                        # default used: the shared default object of the callee
                        if root in callee.defaults:
                            out.append(Write(f'::default:{callee.key}:{root}' + rest, wr.op, n.line,
                                             via=callee.name, fn=wr.fn))
                        continue
                    p = self.path(fi, arg, n)
                    if p is None and rest.startswith('.'):
                        # the argument is a fresh object: its attributes may alias what was handed to
                        # the constructor (`Tape(.., flags=d)`): resolve attribute by attribute
                        import re as _re
                        m = _re.match(r'^((?:\.\w+)+)(.*)$', rest)
                        if m:
                            kinds = self.w.kinds(fi)
                            from .kinds import K
                            for leaf in kinds.of(arg, n).leaves():
                                k2 = leaf
                                for a in m.group(1).split('.')[1:]:
                                    k2 = K('attr', base=k2, attr=a, node=None)
                                p2 = kinds.path(k2)
                                if p2 and not p2.startswith(('new@', 'copy@')):
                                    out.append(Write(p2 + m.group(2), wr.op, n.line,
                                                     via=(callee.name + ('>' + wr.via if wr.via else '')), fn=wr.fn))
                        continue
                    if p:
                        out.append(Write(p + rest, wr.op, n.line,
                                         via=(callee.name + ('>' + wr.via if wr.via else '')), fn=wr.fn))
        return out

    def _method(self, fi, c: ast.Call, n):
        """Resolve `recv.m(...)` to a method of a package class when the receiver's class is known
        (annotation, constructor, or a module-level `NAME = Class(...)`)."""
        kinds = self.w.kinds(fi)
        recv = kinds.of(c.func.value, n)
        rt = kinds.recv_type(recv)
        if rt is None:
            for l in recv.leaves():
                if l.tag == 'global':
                    rt = self._global_class(fi.module.name, l.name) or rt
        if rt is None:
            return None
        for key, cand in self.funcs.items():
            if cand.cls == rt and cand.name == c.func.attr and cand.parent is None:
                return cand
        return None

    def _global_class(self, modname: str, name: str):
        m = self.w.repo.modules.get(modname)
        if m is None:
            return None
        for st in m.tree.body:
            if isinstance(st, ast.Assign) and any(isinstance(t, ast.Name) and t.id == name for t in st.targets) and \
                    isinstance(st.value, ast.Call) and isinstance(st.value.func, ast.Name):
                cn = st.value.func.id
                if any(cand.cls == cn for cand in self.funcs.values()):
                    return cn
        return None

    @staticmethod
    def _arg_for(callee, call: ast.Call, pname: str):
        idx = callee.params.index(pname)
        if callee.cls and callee.params and callee.params[0] in ('self', 'cls'):
            idx -= 1
        if 0 <= idx < len(call.args):
            a = call.args[idx]
            return None if isinstance(a, ast.Starred) else a
        for kw in call.keywords:
            if kw.arg == pname:
                return kw.value
        return None

    def writes_in(self, fi, region: ast.AST) -> list[Write]:
        """Direct + transitive writes of the statements inside `region` (an ast subtree of
        the function's CFG body)."""
        inside = {id(x) for x in ast.walk(region)}
        cfg = self.w.cfg(fi)
        out = []
        for n in cfg.nodes:
            for ev in node_events(n):
                anchor = ev[1] if ev[0] != 'aug' else ev[1]
                if id(anchor) not in inside:
                    continue
                if ev[0] in ('store', 'del') and isinstance(ev[1], ast.Subscript):
                    p = self.path(fi, ev[1].value, n)
                    if p:
                        out.append(Write(p, 'store' if ev[0] == 'store' else 'del', n.line, key=ev[1].slice, fn=fi.key))
                elif ev[0] == 'call' and isinstance(ev[1].func, ast.Attribute) and ev[1].func.attr in MUTATING:
                    p = self.path(fi, ev[1].func.value, n)
                    if p:
                        out.append(Write(p, ev[1].func.attr, n.line, key=ev[1].args[0] if ev[1].args else None, fn=fi.key))
                elif ev[0] == 'store' and isinstance(ev[1], ast.Attribute):
                    p = self.path(fi, ev[1].value, n)
                    if p:
                        out.append(Write(p + '.' + ev[1].attr, 'rebind', n.line, fn=fi.key))
        out += self.call_writes(fi, within=region)
        return out
