"""E3 - value kinds through intra-procedural reaching definitions."""
from __future__ import annotations
import ast
from .model import Repo, FuncRef, ClassRef, ExtRef, dotted
from .cfg import CFG, Node


class K:
    """An abstract value kind.  `tag` plus free-form fields."""
    __slots__ = ('tag', 'f')

    def __init__(self, tag: str, **fields):
        self.tag = tag
        self.f = fields

    def __getattr__(self, name):
        try:
            return self.f[name]
        except KeyError:
            raise AttributeError(name)

    def get(self, name, default=None):
        return self.f.get(name, default)

    def __repr__(self):
        def show(v):
            if isinstance(v, ast.AST):
                return ast.unparse(v)[:40]
            if isinstance(v, list):
                return '[' + ', '.join(show(x) for x in v) + ']'
            return repr(v)
        inner = ', '.join(f'{k}={show(v)}' for k, v in self.f.items() if k not in ('node', 'at'))
        return f'{self.tag}({inner})'

    def leaves(self):
        """All kinds reachable through joins (flattened)."""
        if self.tag == 'join':
            out = []
            for a in self.alts:
                out += a.leaves()
            return out
        return [self]

    def walk(self):
        yield self
        for v in self.f.values():
            if isinstance(v, K):
                yield from v.walk()
            elif isinstance(v, (list, tuple)):
                for x in v:
                    if isinstance(x, K):
                        yield from x.walk()
            elif isinstance(v, dict):
                for x in v.values():
                    if isinstance(x, K):
                        yield from x.walk()


COPY_CALLS = {'dict', 'list', 'tuple', 'set', 'frozenset', 'sorted', 'deepcopy', 'copy'}


class Kinds:
    def __init__(self, cfg: CFG):
        self.cfg = cfg
        self.repo = cfg.repo
        self.module = cfg.module
        self.fi = cfg.fi

    # ------------------------------------------------------------------
    def of_name(self, name: str, at: Node, seen=None) -> K:
        seen = seen or frozenset()
        defs = self.cfg.defs_reaching(name, at)
        if not defs:
            # enclosing function's variable (nested def) or a global
            par = self.fi.parent
            if par is not None:
                names = set(par.params)
                for n in ast.walk(par.node):
                    if isinstance(n, ast.Name) and isinstance(n.ctx, ast.Store):
                        names.add(n.id)
                if name in names:
                    return K('free', name=name)
            r = self.repo.resolve(self.module, name)
            if r is not None:
                return K('global', name=name, ref=r)
            m = self.repo.modules.get(self.module)
            if m is not None:
                for st in m.tree.body:
                    tg = []
                    if isinstance(st, ast.Assign):
                        tg = st.targets
                    elif isinstance(st, ast.AnnAssign):
                        tg = [st.target]
                    elif isinstance(st, ast.For):
                        for s2 in st.body:
                            if isinstance(s2, ast.Assign):
                                tg += [t.value for t in s2.targets if isinstance(t, ast.Subscript)]
                    for t in tg:
                        if isinstance(t, ast.Name) and t.id == name:
                            return K('global', name=name, ref=('table', self.module, name))
            return K('builtin', name=name)
        alts = []
        for dn, how, payload in defs:
            key = (dn.id, name)
            if key in seen:
                alts.append(K('cycle', name=name))
                continue
            s2 = seen | {key}
            if how == 'param':
                alts.append(K('param', name=name, ann=self.fi.annotations.get(name)))
            elif how == 'assign':
                alts.append(self.of(payload, dn, s2))
            elif how == 'aug':
                prev = self.of_name(name, dn, s2)
                alts.append(K('binop', op=type(payload.op).__name__, left=prev,
                              right=self.of(payload.value, dn, s2), node=payload))
            elif how == 'iter':
                alts.append(K('elem', of=self.of(payload.iter, dn, s2), node=payload))
            elif how == 'unpack':
                value, idx, n = payload
                alts.append(K('unpack', src=self.of(value, dn, s2), index=idx, n=n))
            elif how == 'exc':
                alts.append(K('exception'))
            elif how == 'def':
                alts.append(K('localdef', name=name, node=payload))
            elif how == 'with':
                alts.append(K('with', src=self.of(payload, dn, s2)))
            else:
                alts.append(K('unknown', why=how))
        if len(alts) == 1:
            return alts[0]
        return K('join', alts=alts)

    def of(self, e: ast.AST, at: Node, seen=None) -> K:
        seen = seen or frozenset()
        if isinstance(e, ast.Constant):
            return K('const', value=e.value)
        if isinstance(e, ast.Name):
            return self.of_name(e.id, at, seen)
        if isinstance(e, ast.Attribute):
            return K('attr', base=self.of(e.value, at, seen), attr=e.attr, node=e)
        if isinstance(e, ast.Subscript):
            base = self.of(e.value, at, seen)
            if isinstance(e.slice, ast.Slice):
                return K('slice', src=base,
                         lower=self.of(e.slice.lower, at, seen) if e.slice.lower else None,
                         upper=self.of(e.slice.upper, at, seen) if e.slice.upper else None,
                         node=e)
            return K('index', src=base, index=self.of(e.slice, at, seen), node=e)
        if isinstance(e, ast.Call):
            return self._call(e, at, seen)
        if isinstance(e, ast.BinOp):
            return K('binop', op=type(e.op).__name__, left=self.of(e.left, at, seen),
                     right=self.of(e.right, at, seen), node=e)
        if isinstance(e, ast.UnaryOp):
            return K('unary', op=type(e.op).__name__, operand=self.of(e.operand, at, seen))
        if isinstance(e, ast.IfExp):
            return K('join', alts=[self.of(e.body, at, seen), self.of(e.orelse, at, seen)])
        if isinstance(e, ast.BoolOp):
            return K('join', alts=[self.of(v, at, seen) for v in e.values])
        if isinstance(e, ast.Compare):
            return K('bool', node=e)
        if isinstance(e, ast.JoinedStr):
            return K('fstr', node=e)
        if isinstance(e, ast.Dict):
            if len(e.keys) == 1 and e.keys[0] is None:
                return K('copy', src=self.of(e.values[0], at, seen), node=e)
            spreads = [self.of(v, at, seen) for k, v in zip(e.keys, e.values) if k is None]
            return K('dict', spreads=spreads, nkeys=sum(1 for k in e.keys if k is not None),
                     node=e)
        if isinstance(e, (ast.List, ast.Tuple, ast.Set)):
            if len(e.elts) == 1 and isinstance(e.elts[0], ast.Starred):
                return K('copy', src=self.of(e.elts[0].value, at, seen), node=e)
            return K(type(e).__name__.lower(), elts=[self.of(x, at, seen) for x in e.elts
                                                     if not isinstance(x, ast.Starred)], node=e)
        if isinstance(e, (ast.ListComp, ast.SetComp, ast.GeneratorExp, ast.DictComp)):
            return K('comp', node=e)
        if isinstance(e, ast.Lambda):
            return K('lambda', node=e)
        if isinstance(e, ast.Starred):
            return self.of(e.value, at, seen)
        if isinstance(e, ast.NamedExpr):
            return self.of(e.value, at, seen)
        return K('unknown', why=type(e).__name__)

    def _call(self, e: ast.Call, at: Node, seen) -> K:
        name = dotted(e.func)
        args = [self.of(a, at, seen) for a in e.args]
        kws = {k.arg: self.of(k.value, at, seen) for k in e.keywords if k.arg}
        if isinstance(e.func, ast.Attribute):
            recv = self.of(e.func.value, at, seen)
            m = e.func.attr
            rt = self.recv_type(recv)
            if rt == 'Tape' and m == 'read':
                size = args[0] if args else kws.get('size', K('unknown', why='no size'))
                return K('tape_read', tape=recv, size=size, node=e)
            if rt == 'Stack' and m in ('get', 'peek'):
                return K('stack_item', stack=recv, how=m, node=e)
            if name == 'int.from_bytes':
                signed = False
                for k in e.keywords:
                    if k.arg == 'signed':
                        signed = not (isinstance(k.value, ast.Constant) and k.value.value is False)
                if len(e.args) >= 3:
                    signed = True
                order = None
                if len(e.args) >= 2 and isinstance(e.args[1], ast.Constant):
                    order = e.args[1].value
                for k in e.keywords:
                    if k.arg == 'byteorder' and isinstance(k.value, ast.Constant):
                        order = k.value.value
                src = args[0] if args else K('unknown', why='no arg')
                return K('sint' if signed else 'uint', src=src, order=order, node=e)
            if m == 'copy' and not args:
                return K('copy', src=recv, node=e)
            return K('mcall', recv=recv, method=m, args=args, kws=kws, node=e, rtype=rt)
        if isinstance(e.func, ast.Name):
            fk = self.of_name(e.func.id, at, seen)
            ref = fk.get('ref') if fk.tag == 'global' else None
            fname = e.func.id
            if isinstance(ref, FuncRef) and ref.module == 'functions' and ref.name == 'bytes_to_int':
                return K('sint', src=args[0] if args else K('unknown', why='no arg'), node=e)
            if isinstance(ref, ClassRef):
                return K('new', cls=ref.name, args=args, kws=kws, node=e)
            if fk.tag == 'builtin':
                if fname == 'len' and args:
                    return K('len', src=args[0], node=e)
                if fname in COPY_CALLS and len(args) == 1 and not kws:
                    return K('copy', src=args[0], node=e, via=fname)
                if fname == 'int' and args:
                    return K('int', src=args[0], node=e)
            return K('call', name=fname, ref=ref, args=args, kws=kws, node=e, fk=fk)
        return K('call', name=name, ref=None, args=args, kws=kws, node=e)

    # ------------------------------------------------------------------
    def origin(self, e: ast.AST, at: Node, depth: int = 6):
        """Follow plain names through their single reaching assignment: the expression (and the CFG
        node of that assignment) a value was computed by.  `t = Tape(x); f(t)` -> the Tape(x) call."""
        node = at
        while depth > 0 and isinstance(e, ast.Name):
            defs = self.cfg.defs_reaching(e.id, node)
            if len(defs) != 1 or defs[0][1] != 'assign' or not isinstance(defs[0][2], ast.AST):
                break
            node, e = defs[0][0], defs[0][2]
            depth -= 1
        return e, node

    def recv_type(self, k: K) -> str | None:
        """'Tape' / 'Stack' / 'dict' ... for a receiver kind, from annotations,
        constructors and `self` inside the class."""
        for leaf in k.leaves():
            t = self._recv_type1(leaf)
            if t:
                return t
        return None

    def _recv_type1(self, k: K) -> str | None:
        if k.tag == 'param':
            ann = k.get('ann')
            if ann:
                a = ann.strip('\'"')
                for cand in ('Tape', 'Stack'):
                    if a == cand or a.startswith(cand + '|') or a.endswith('|' + cand):
                        return cand
                if a.startswith('dict'):
                    return 'dict'
                if a.startswith('list'):
                    return 'list'
            if k.name == 'self' and self.fi.cls:
                return self.fi.cls
            return None
        if k.tag == 'new':
            return k.cls
        if k.tag == 'free':
            # closure variable: look at the enclosing function's annotation/ctor
            par = self.fi.parent
            if par is not None:
                ann = par.annotations.get(k.name)
                if ann in ('Tape', 'Stack'):
                    return ann
                for n in ast.walk(par.node):
                    if isinstance(n, ast.Assign) and any(
                            isinstance(t, ast.Name) and t.id == k.name for t in n.targets):
                        if isinstance(n.value, ast.Call) and isinstance(n.value.func, ast.Name) \
                                and n.value.func.id in ('Tape', 'Stack'):
                            return n.value.func.id
            return None
        if k.tag == 'index':
            # tape.definitions[handle] -> Tape
            src = k.src
            if src.tag == 'attr' and src.attr == 'definitions':
                return 'Tape'
            return None
        if k.tag == 'unpack' and k.src.tag == 'call' and isinstance(k.src.get('ref'), FuncRef):
            fr = k.src.ref
            fi = self.repo.modules[fr.module].funcs.get(fr.name)
            if fi is not None and isinstance(fi.node.returns, ast.Subscript) \
                    and isinstance(fi.node.returns.slice, ast.Tuple):
                elts = fi.node.returns.slice.elts
                if k.index < len(elts):
                    r = ast.unparse(elts[k.index]).strip('\'"')
                    if r in ('Tape', 'Stack'):
                        return r
                    if r.startswith('dict'):
                        return 'dict'
            return None
        if k.tag == 'call' and isinstance(k.get('ref'), FuncRef):
            fr = k.ref
            fi = self.repo.modules[fr.module].funcs.get(fr.name)
            if fi is not None and fi.node.returns is not None:
                r = ast.unparse(fi.node.returns).strip('\'"')
                if r in ('Tape', 'Stack'):
                    return r
        return None

    # ------------------------------------------------------------------
    def path(self, k: K) -> str | None:
        """Canonical access path for alias reasoning: 'tape.flags', 'new@<line>.flags',
        'copy(...)' ... None when the kind does not denote a stable object."""
        if k.tag == 'param':
            return k.name
        if k.tag == 'free':
            return '^' + k.name
        if k.tag == 'global':
            return '::' + k.name
        if k.tag == 'attr':
            # an attribute of a freshly constructed object that was handed in as a keyword argument
            # (`Tape(.., flags=d).flags`) *is* that argument: the constructor stores, it does not copy
            if k.base.tag == 'new' and k.attr in (k.base.get('kws') or {}):
                inner = self.path(k.base.kws[k.attr])
                if inner is not None and not inner.startswith(('new@', 'copy@')):
                    return inner
            b = self.path(k.base)
            return None if b is None else f'{b}.{k.attr}'
        if k.tag == 'new':
            return f'new@{k.node.lineno}:{k.node.col_offset}'
        if k.tag == 'copy':
            return f'copy@{k.node.lineno}:{k.node.col_offset}'
        if k.tag == 'index':
            b = self.path(k.src)
            if b is None:
                return None
            return f'{b}[*]'
        return None


def is_const(k: K, value=None) -> bool:
    if k.tag != 'const':
        return False
    return value is None or (k.value == value and type(k.value) is type(value))
