"""C05 - taproot: key path and script path are exact (structural clauses)."""
from __future__ import annotations
import ast
from .report import Report, AnalysisError
from .summary import World, node_events
from .model import dotted

LEVEL = 'other'
REL = 'tapescript/functions.py'


def run(w: World, rep: Report):
    rep.rule('C05.R1', 'OP_TAPROOT script path: OP_EVAL is reachable only through the edge on which the recomputed '
             'point equals the popped root; the evaluated item is the script that was hashed; mismatch puts false', floor=5)
    rep.rule('C05.R2', 'OP_TAPROOT key path: the root is pushed back as the key and OP_CHECK_SIG receives a tape '
             'holding the operand byte and the parent\'s plugins', floor=3)
    fi = w.handler_for('OP_TAPROOT')
    cfg = w.cfg(fi)
    kinds = w.kinds(fi)
    tape, stack, cache = fi.params[:3]
    rep.covered('handlers', fi.name)
    ev = w.handler_for('OP_EVAL')
    cs = w.handler_for('OP_CHECK_SIG')
    evals = cfg.nodes_with_call(lambda c: isinstance(c.func, ast.Name) and c.func.id == ev.name)
    if not evals:
        runs = cfg.nodes_with_call(lambda c: isinstance(c.func, ast.Name) and c.func.id == 'run_tape')
        if runs:
            # the script path re-implements evaluation instead of handing the script to OP_EVAL: whatever OP_EVAL does
            # for an evaluated script (copies of the definitions and flags, plugins, contracts, call accounting, return
            # handling, the disallow flag) has to be repeated exactly - the native lock and the non-native one, which
            # does use OP_EVAL, then differ as soon as one of them is missing
            def tape_kws(f):
                out = []
                for x in ast.walk(f.node):
                    if isinstance(x, ast.Call) and isinstance(x.func, ast.Name) and x.func.id == 'Tape' and x.keywords:
                        out.append({k.arg: ast.unparse(k.value).replace(' ', '') for k in x.keywords if k.arg})
                return out
            want_kws = tape_kws(ev)
            got_kws = tape_kws(fi)
            if len(want_kws) == 1 and got_kws:
                missing = sorted(set(want_kws[0]) - set().union(*[set(g) for g in got_kws]))
                differing = sorted(k for k in want_kws[0] for g in got_kws if k in g and g[k] != want_kws[0][k])
                if missing or differing:
                    rep.check('C05.R1', f'functions.{fi.name}|script-path-evaluates-like-OP_EVAL', False,
                              line=runs[0][0].line, file=REL,
                              why='the committed script is run by a private copy of the evaluation code whose sub-tape ' +
                              (f'lacks {missing} of what OP_EVAL gives an evaluated script' if missing else
                               f'sets {differing} differently from OP_EVAL') +
                              ': the native lock no longer evaluates like EVAL (and like the non-native lock, which uses it)')
                    return
    if len(evals) != 1:
        raise AnalysisError('OP_TAPROOT: expected exactly one OP_EVAL call')
    en, ec = evals[0]
    # root: first popped item with a 32-byte guard
    root_var = None
    for n in cfg.nodes:
        if n.kind == 'stmt' and isinstance(n.ast, ast.Assign) and isinstance(n.ast.targets[0], ast.Name):
            k = kinds.of(n.ast.value, n)
            if k.tag == 'stack_item' and k.how == 'get':
                root_var = n.ast.targets[0].id
                break
    ok = root_var is not None
    rep.check('C05.R1', f'functions.{fi.name}|root-popped-first', ok, line=fi.node.lineno, file=REL,
              why='' if ok else 'the root is not the first item popped')
    # equality test
    tests = [t for t in cfg.nodes if t.kind == 'test' and isinstance(t.ast, ast.Call)
             and dotted(t.ast.func) == 'bytes_are_same']
    ok = len(tests) == 1
    why = '' if ok else f'{len(tests)} bytes_are_same tests found'
    point_var = script_var = None
    if ok:
        t = tests[0]
        args = [ast.unparse(a) for a in t.ast.args]
        if root_var not in args:
            ok, why = False, 'the comparison is not against the popped root'
        else:
            point_var = [a for a in args if a != root_var][0]
            edges = [(t, s, lab) for s, lab in t.succ if lab is True]
            if not cfg.must_pass(cfg.entry, en, through_edges=edges):
                ok, why = False, 'OP_EVAL is reachable without passing the edge on which the recomputed point equals the root'
    rep.check('C05.R1', f'functions.{fi.name}|eval-only-on-match', ok, line=en.line, file=REL, why=why)
    if tests:
        t = tests[0]
        # mismatch edge: puts false and returns without evaluating
        ok = True
        for s, lab in t.succ:
            if lab is False:
                reach = cfg.reachable_from([s])
                if en.id in reach:
                    ok = False
                puts = [c for n, c in cfg.nodes_with_call(lambda c: dotted(c.func) == f'{stack}.put')
                        if n.id in reach and not cfg.reaches(en, n) or n is s]
                first = s
                pc = [c for _, c in cfg.nodes_with_call(lambda c: dotted(c.func) == f'{stack}.put') if cfg.node_of(c) is first]
                if not pc or not (isinstance(pc[0].args[0], ast.Constant) and pc[0].args[0].value == b'\x00'):
                    ok = False
        rep.check('C05.R1', f'functions.{fi.name}|mismatch-puts-false', ok, line=t.line, file=REL,
                  why='' if ok else 'on a mismatching (script, key) pair the handler does not put false and stop')
        # the point is derived from the script and the key that were popped: point = f(sha256(pubkey + sha256(script)))
        d = cfg.defs_reaching(point_var, t) if point_var and point_var.isidentifier() else []
        src_names = set()
        todo = [(pl, dn) for dn, how, pl in d if how == 'assign']
        seen = set()
        depth = 0
        while todo and depth < 40:
            depth += 1
            e, at = todo.pop()
            for x in ast.walk(e):
                if isinstance(x, ast.Name) and x.id not in ('sha256', 'clamp_scalar', 'derive_point_from_scalar',
                                                            'aggregate_points'):
                    src_names.add(x.id)
                    for dn, how, pl in cfg.defs_reaching(x.id, at):
                        if how == 'assign' and isinstance(pl, ast.AST) and (dn.id, x.id) not in seen:
                            seen.add((dn.id, x.id))
                            todo.append((pl, dn))
        # the evaluated script: the item put right before OP_EVAL
        put_before = None
        for p, lab in en.pred:
            pc = [c for _, c in cfg.nodes_with_call(lambda c: dotted(c.func) == f'{stack}.put') if cfg.node_of(c) is p]
            if pc:
                put_before = ast.unparse(pc[0].args[0])
        popped = [n.ast.targets[0].id for n in cfg.nodes if n.kind == 'stmt' and isinstance(n.ast, ast.Assign)
                  and isinstance(n.ast.targets[0], ast.Name) and kinds.of(n.ast.value, n).tag == 'stack_item'
                  and kinds.of(n.ast.value, n).how == 'get']
        ok = put_before is not None and put_before in src_names and put_before in popped
        rep.check('C05.R1', f'functions.{fi.name}|evaluates-the-hashed-script', ok, line=en.line, file=REL,
                  why='' if ok else f'the item evaluated (`{put_before}`) is not the popped script that was hashed into the '
                  f'recomputed point (inputs of the point: {sorted(src_names)})')
        ok = isinstance(ec.args[0], ast.Name) and ec.args[0].id == tape
        rep.check('C05.R1', f'functions.{fi.name}|eval-on-own-tape', ok, line=en.line, file=REL,
                  why='' if ok else 'OP_EVAL is not called with the handler\'s own tape')
    # every normal exit that neither evaluates nor checks a signature leaves exactly one False
    paths = cfg.paths(cfg.entry, lambda n: n is cfg.exit or n.kind == 'raise', cap=4096)
    bad_exit = ''
    n_fail_paths = 0
    for pth in paths:
        if pth[-1][0].kind == 'raise':
            continue
        nodes = [n for n, _ in pth]
        if any(n is en for n in nodes) or any(n is c0 for c0, _ in cfg.nodes_with_call(
                lambda c: isinstance(c.func, ast.Name) and c.func.id == cs.name) for n in nodes):
            continue
        n_fail_paths += 1
        puts = []
        for n in nodes:
            if n.kind == 'stmt' and n.ast is not None:
                for e in node_events(n):
                    if e[0] == 'call' and dotted(e[1].func) == f'{stack}.put':
                        a = e[1].args[0] if e[1].args else None
                        puts.append(a.value if isinstance(a, ast.Constant) else '?')
        if puts != [b'\x00']:
            via = [n.line for n in nodes if n.kind == 'except']
            bad_exit = (f'a path that neither evaluates the script nor checks a signature returns after putting {puts} '
                        f'(expected exactly one False)' + (f'; it leaves through the exception handler at line {via[0]}' if via else ''))
    rep.check('C05.R1', f'functions.{fi.name}|every-failing-exit-puts-false', not bad_exit and n_fail_paths >= 1,
              line=fi.node.lineno, file=REL, why=bad_exit or ('' if n_fail_paths else 'no failing exit found'),
              facts={'failing_exits': n_fail_paths})

    # ---- R2 key path -------------------------------------------------------------
    checks = cfg.nodes_with_call(lambda c: isinstance(c.func, ast.Name) and c.func.id == cs.name)
    ok = len(checks) == 1
    if not ok:
        raise AnalysisError('OP_TAPROOT: expected exactly one OP_CHECK_SIG call')
    cn, cc = checks[0]
    # the tape argument
    k = kinds.of(cc.args[0], cn)
    leaf = k.leaves()[0]
    ok = leaf.tag == 'new' and leaf.cls == 'Tape' and len(k.leaves()) == 1
    why = '' if ok else 'OP_CHECK_SIG does not get a freshly built operand tape'
    if ok:
        data = leaf.args[0] if leaf.args else leaf.kws.get('data')
        ok = data is not None and data.tag == 'tape_read' and data.size.tag == 'const' and data.size.value == 1 \
            and data.tape.tag == 'param'
        if not ok:
            why = 'the tape given to OP_CHECK_SIG does not hold the allowed-sigflags operand byte'
        pk = leaf.kws.get('plugins')
        if ok and not (pk is not None and kinds.path(pk) == f'{tape}.plugins'):
            ok, why = False, 'the key-path check runs without the parent\'s plugins'
    rep.check('C05.R2', f'functions.{fi.name}|keypath-operand-tape', ok, line=cn.line, file=REL, why=why)
    # root pushed back as key directly before the check
    # the last stack event on every way into the check is `put(root)` (statements without stack events in between)
    def _stack_events(nd):
        out = []
        if nd.ast is None:
            return out
        for ev in node_events(nd):
            if ev[0] == 'call' and isinstance(ev[1].func, ast.Attribute) and dotted(ev[1].func.value) == stack:
                out.append(ev[1])
            elif ev[0] == 'call' and isinstance(ev[1].func, ast.Name) and w.handler_call(fi, ev[1]) is not None:
                out.append(ev[1])
        return out
    last, seen, todo = [], set(), [p for p, lab in cn.pred]
    while todo:
        nd = todo.pop()
        if nd.id in seen:
            continue
        seen.add(nd.id)
        evs = _stack_events(nd)
        if evs:
            last.append(evs[-1])
        else:
            todo += [p for p, lab in nd.pred]
    pushed = None
    if last and all(isinstance(c.func, ast.Attribute) and c.func.attr == 'put' and c.args for c in last):
        vals = {ast.unparse(c.args[0]) for c in last}
        pushed = vals.pop() if len(vals) == 1 else sorted(vals)
    elif last:
        pushed = 'not a put: ' + ast.unparse(last[0])[:40]
    ok = pushed == root_var
    rep.check('C05.R2', f'functions.{fi.name}|root-is-the-key', ok, line=cn.line, file=REL,
              why='' if ok else f'the key pushed for the key-path check is `{pushed}`, not the root')
    # path selection: 32-byte second item -> script path; the test is on the peeked item length
    sel = [t for t in cfg.nodes if t.kind == 'test' and cfg.reaches(t, en) and cfg.reaches(t, cn)]
    ok = False
    from .rules_c02 import _accepted_lengths
    for t in sel:
        txt = ast.unparse(t.ast)
        cands = [t.ast]
        d = cfg.defs_reaching(txt, t) if txt.isidentifier() else []
        cands += [pl for _, how, pl in d if how == 'assign' and isinstance(pl, ast.AST)]
        for c in cands:
            # the test holds for exactly the 32-byte length of the item it looks at (a name or the peeked item itself)
            c2 = c

            class P(ast.NodeTransformer):
                def visit_Call(self, n):
                    self.generic_visit(n)
                    if isinstance(n.func, ast.Attribute) and n.func.attr == 'peek' and not n.args:
                        return ast.Name(id='peeked__', ctx=ast.Load())
                    return n
            import copy as _copy
            c2 = P().visit(_copy.deepcopy(c))
            al = _accepted_lengths(c2)
            if al is not None and al[1] == {32}:
                ok = True
    rep.check('C05.R2', f'functions.{fi.name}|path-selected-by-32-byte-item', ok, line=fi.node.lineno, file=REL,
              why='' if ok else 'script path / key path are not selected by the 32-byte length of the next item')
    g = [t for t in cfg.nodes if t.kind == 'test' and t.guard is not None and
         ast.unparse(t.ast).replace(' ', '') == f'len({root_var})==32']
    rep.check('C05.R2', f'functions.{fi.name}|root-length-guard', bool(g), line=fi.node.lineno, file=REL,
              why='' if g else 'the supplied root is not required to be 32 bytes')
    _commitment_is_hash_of_bytes(w, rep)
    from .report import depend
    depend(rep, w, 'rules_c06', ('C06.R6',), 'C05.TD6',
           'the non-native lock keeps its root in a definition: the DEF of the lock must replace whatever a witness defined under that handle, and CALL must run it (C06.R6 re-evaluated)', floor=3)
    depend(rep, w, 'rules_c17', ('C17.R4',), 'C05.TD17',
           'the point sum of the root formula adds every point it is given (C17.R4 re-evaluated)', floor=2)
    depend(rep, w, 'rules_c02', ('C02.R2', 'C02.R3', 'C02.R4', 'C02.R5'), 'C05.TD2',
           'the key path ends in the single-signature check: permitted flags per bit, one message builder, length guards and '
           'the verdict mapping (C02.R2-R5 re-evaluated)', floor=20)
    rep.explanation = (
        'Decides the exactness of the two spend paths structurally: the committed script runs only through the '
        'edge on which the recomputed point equals the popped root, it is the very item that was hashed, a '
        'mismatch yields false without evaluation, and the key path checks the signature under the root with the '
        'operand flags and the parent\'s plugins. The algebraic identity root = P + clamp(sha256(P || sha256(S)))*G '
        'and native/non-native verdict equivalence are not decided; the non-native lock template is typed in the '
        'template rules (C05.R3).')
    try:
        from . import rules_templates as rt2
        if hasattr(rt2, 'c05_builders'):
            rt2.c05_builders(w, rep)
    except ImportError:
        pass


def _commitment_is_hash_of_bytes(w: World, rep: Report):
    """The `sha256(S)` of the root formula is whatever `Script.commitment()` returns: it must be the hash of
    the byte code the instance holds at the time of the call, on every path (a memo that can go stale, or a
    hash of the source text, commits to something other than S)."""
    rep.rule('C05.R4', 'Script.commitment() returns sha256 of the instance\'s current byte code on every path '
             '(no stored/memoised value, no other field)', floor=1)
    tools = w.repo.module('tools')
    n = 0
    for fi in tools.funcs.values():
        if fi.name != 'commitment' or fi.cls is None or fi.parent is not None:
            continue
        cd = tools.classes.get(fi.cls)
        anns = {st.target.id: ast.unparse(st.annotation) for st in cd.body
                if isinstance(st, ast.AnnAssign) and isinstance(st.target, ast.Name)} if cd is not None else {}
        # the class that pairs source text and byte code (the committed script S itself): one str field, one bytes field
        code_fields = [k for k, a in anns.items() if a == 'bytes']
        if not (len(code_fields) == 1 and any(a == 'str' for a in anns.values())):
            continue
        code_field = code_fields[0]
        n += 1
        cfg = w.cfg(fi)
        kinds = w.kinds(fi)
        me = fi.params[0]
        rets = [nd for nd in cfg.nodes if nd.kind == 'stmt' and isinstance(nd.ast, ast.Return)]
        ok, why = bool(rets), 'no return statement'
        for r in rets:
            if r.ast.value is None:
                ok, why = False, 'returns None on a path'
                break
            for l in kinds.of(r.ast.value, r).leaves():
                good = (l.tag == 'mcall' and l.method == 'digest' and l.recv.tag == 'call' and l.recv.name == 'sha256'
                        and len(l.recv.args) == 1 and
                        all(x.tag == 'attr' and x.attr == code_field and kinds.path(x.base) == me
                            for x in l.recv.args[0].leaves()))
                if not good:
                    ok = False
                    why = (f'a path returns `{ast.unparse(r.ast.value)}` which is not sha256({me}.{code_field}).digest() computed '
                           f'at the time of the call: a stored or memoised commitment goes stale when the byte code '
                           f'changes or the object is copied (dataclasses.replace, +), so locks commit to another script')
                    break
            if not ok:
                break
        rep.check('C05.R4', f'tools.{fi.cls}.commitment|sha256-of-current-bytes', ok, line=fi.node.lineno,
                  file='tapescript/tools.py', why='' if ok else why)
    if n == 0:
        raise AnalysisError('no class pairing a str and a bytes field with a commitment() method found in tools.py')
