"""setup_cmd: parse the package, evaluate the tables, build every CFG.  Builds nothing."""
from __future__ import annotations
import sys
import time
from .report import AnalysisError


def main() -> int:
    t = time.time()
    try:
        from .summary import World
        from .cfg import cfg_of
        w = World()
        n = 0
        for fi in w.repo.all_funcs():
            c = cfg_of(w.repo, fi)
            c.reaching()
            n += 1
        print(f'selfcheck: parsed {len(w.repo.modules)} modules, {n} functions, '
              f'{len(w.ops.by_code)} opcodes + {len(w.ops.nops)} NOP codes, '
              f'{len(w.ops.aliases)} aliases in {time.time() - t:.2f}s')
        return 0
    except AnalysisError as e:
        print(f'ANALYSIS-ERROR selfcheck: {e}')
        return 2
