"""Guard/dominance helpers combining the CFG (E2) with linear atoms (E5)."""
from __future__ import annotations
import ast
from .cfg import CFG, Node
from . import linear as L


def make_subst(cfg: CFG, at: Node, depth: int = 6, opaque_calls: bool = True):
    """Name -> its single reaching definition's RHS (pure expressions only)."""
    def subst(name_node: ast.Name, _d=[0]):
        if _d[0] >= depth:
            return None
        defs = cfg.defs_reaching(name_node.id, at)
        if len(defs) != 1:
            return None
        dn, how, payload = defs[0]
        if how != 'assign' or not isinstance(payload, ast.AST):
            return None
        if opaque_calls:
            # keep calls with side effects opaque (stack.get(), tape.read())
            for n in ast.walk(payload):
                if isinstance(n, ast.Call):
                    f = n.func
                    if isinstance(f, ast.Attribute) and f.attr in ('get', 'read', 'pop', 'peek'):
                        return None
        # the definition must dominate the use for substitution to be meaningful
        if not cfg.dominates(dn, at):
            return None
        # substitute recursively at the definition point
        inner = make_subst(cfg, dn, depth - 1, opaque_calls)

        class T(ast.NodeTransformer):
            def visit_Name(self, n):
                if isinstance(n.ctx, ast.Load):
                    r = inner(n)
                    if r is not None:
                        return r
                return n
        import copy
        return T().visit(copy.deepcopy(payload))
    return subst


def edge_formula(cfg: CFG, t: Node, label, subst=True):
    s = make_subst(cfg, t) if subst else None
    f = L.formula(t.ast, s)
    return f if label is True else L.f_not(f)


def edges_implying(cfg: CFG, cond, subst=True):
    """All test edges whose condition implies `cond` (a formula)."""
    out = []
    for t in cfg.nodes:
        if t.kind != 'test':
            continue
        for succ, lab in t.succ:
            if lab not in (True, False):
                continue
            try:
                f = edge_formula(cfg, t, lab, subst)
                if L.implies(f, cond):
                    out.append((t, succ, lab))
            except Exception:
                continue
    return out


def dominated_by_cond(cfg: CFG, node: Node, cond, src: Node | None = None, subst=True) -> bool:
    """Every path src(entry) -> node passes an edge on which `cond` holds."""
    edges = edges_implying(cfg, cond, subst)
    if not edges:
        return False
    return cfg.must_pass(src or cfg.entry, node, through_edges=edges)


def parse_cond(text: str):
    return L.formula(ast.parse(text, mode='eval').body)
