"""E1 - loader, resolver, restricted constant evaluator, call graph.

Nothing from the repository is imported or executed; everything is read with
``ast`` from ``$TSA_REPO`` (default /repo).
"""
from __future__ import annotations
import ast
import os
from .report import AnalysisError

REPO = os.environ.get('TSA_REPO', '/repo')
PKG = 'tapescript'


class FuncRef:
    """A reference to a function defined in the package (never called)."""
    __slots__ = ('module', 'name')

    def __init__(self, module: str, name: str):
        self.module = module
        self.name = name

    def __repr__(self):
        return f'<func {self.module}.{self.name}>'

    def __eq__(self, other):
        return isinstance(other, FuncRef) and (self.module, self.name) == (other.module, other.name)

    def __hash__(self):
        return hash((self.module, self.name))


class ClassRef:
    __slots__ = ('module', 'name')

    def __init__(self, module: str, name: str):
        self.module = module
        self.name = name

    def __repr__(self):
        return f'<class {self.module}.{self.name}>'

    def __eq__(self, other):
        return isinstance(other, ClassRef) and (self.module, self.name) == (other.module, other.name)

    def __hash__(self):
        return hash((self.module, self.name))


class ExtRef:
    """A name imported from outside the package."""
    __slots__ = ('path',)

    def __init__(self, path: str):
        self.path = path

    def __repr__(self):
        return f'<ext {self.path}>'

    def __eq__(self, other):
        return isinstance(other, ExtRef) and self.path == other.path

    def __hash__(self):
        return hash(self.path)


class Unknown:
    __slots__ = ('why',)

    def __init__(self, why: str = ''):
        self.why = why

    def __repr__(self):
        return f'<unknown {self.why}>'


class FunctionInfo:
    def __init__(self, module: 'Module', qualname: str, node: ast.FunctionDef,
                 cls: str | None = None, parent: 'FunctionInfo | None' = None):
        self.module = module
        self.qualname = qualname
        self.name = node.name
        self.node = node
        self.cls = cls
        self.parent = parent
        a = node.args
        self.params = [x.arg for x in a.posonlyargs + a.args]
        if a.vararg:
            self.params.append(a.vararg.arg)
        self.params += [x.arg for x in a.kwonlyargs]
        if a.kwarg:
            self.params.append(a.kwarg.arg)
        self.annotations = {}
        for x in a.posonlyargs + a.args + a.kwonlyargs:
            if x.annotation is not None:
                self.annotations[x.arg] = ast.unparse(x.annotation)
        pos = a.posonlyargs + a.args
        self.defaults = {}
        for p, d in zip(pos[len(pos) - len(a.defaults):], a.defaults):
            self.defaults[p.arg] = d
        for p, d in zip(a.kwonlyargs, a.kw_defaults):
            if d is not None:
                self.defaults[p.arg] = d

    @property
    def key(self) -> str:
        return f'{self.module.name}.{self.qualname}'

    def __repr__(self):
        return f'<FunctionInfo {self.key}>'


class Module:
    def __init__(self, name: str, path: str):
        self.name = name
        self.path = path
        with open(path, encoding='utf-8') as f:
            self.src = f.read()
        self.tree = ast.parse(self.src, filename=path)
        self.funcs: dict[str, FunctionInfo] = {}
        self.classes: dict[str, ast.ClassDef] = {}
        self.imports: dict[str, tuple[str, str]] = {}   # local -> (module|'ext:path', name)
        self._index()

    def _index(self):
        self._index_body(self.tree.body, prefix='', cls=None, parent=None)
        for node in ast.walk(self.tree):
            if isinstance(node, ast.ImportFrom):
                if node.level >= 1:
                    mod = node.module or ''
                    for al in node.names:
                        self.imports[al.asname or al.name] = (mod, al.name)
                else:
                    for al in node.names:
                        self.imports[al.asname or al.name] = ('ext:' + (node.module or ''), al.name)
            elif isinstance(node, ast.Import):
                for al in node.names:
                    self.imports[al.asname or al.name.split('.')[0]] = ('ext:' + al.name, '')

    def _index_body(self, body, prefix, cls, parent):
        for st in body:
            if isinstance(st, (ast.FunctionDef, ast.AsyncFunctionDef)):
                q = prefix + st.name
                fi = FunctionInfo(self, q, st, cls=cls, parent=parent)
                if q not in self.funcs:
                    self.funcs[q] = fi
                self._index_body(st.body, q + '.', None, fi)
            elif isinstance(st, ast.ClassDef):
                if not prefix:
                    self.classes[st.name] = st
                self._index_body(st.body, prefix + st.name + '.', st.name, parent)
            elif isinstance(st, (ast.If, ast.Try, ast.With, ast.For, ast.While)):
                for fld in ('body', 'orelse', 'finalbody'):
                    self._index_body(getattr(st, fld, []) or [], prefix, cls, parent)
                for h in getattr(st, 'handlers', []) or []:
                    self._index_body(h.body, prefix, cls, parent)


class Repo:
    """All parsed modules of the package plus resolution helpers."""

    def __init__(self, root: str | None = None):
        self.root = root or REPO
        pkg = os.path.join(self.root, PKG)
        if not os.path.isdir(pkg):
            raise AnalysisError(f'package directory {pkg} not found')
        self.modules: dict[str, Module] = {}
        for fn in sorted(os.listdir(pkg)):
            if fn.endswith('.py'):
                name = fn[:-3]
                try:
                    self.modules[name] = Module(name, os.path.join(pkg, fn))
                except SyntaxError as e:
                    raise AnalysisError(f'{fn} does not parse: {e}')
        self._tables: dict[str, dict] = {}
        # see through helper extraction (identity on a tree without such helpers)
        from .inline import normalise
        self.inline_notes = normalise(self.modules)
        if self.inline_notes['inlined'] or self.inline_notes.get('modules_absorbed') or any(
                self.inline_notes.get(k) for k in ('partials_specialised', 'idioms_canonicalised', 'static_classes_lifted', 'decorators_expanded',
                                                   'context_managers_expanded', 'generators_converted')):
            for m in self.modules.values():
                m.funcs.clear()
                m.classes.clear()
                m.imports.clear()
                m._index()

    # -- lookup ------------------------------------------------------------
    def module(self, name: str) -> Module:
        if name not in self.modules:
            raise AnalysisError(f'module {PKG}/{name}.py vanished')
        return self.modules[name]

    def func(self, module: str, qualname: str) -> FunctionInfo:
        m = self.module(module)
        if qualname not in m.funcs:
            raise AnalysisError(f'anchor function {module}.{qualname} vanished')
        return m.funcs[qualname]

    def has_func(self, module: str, qualname: str) -> bool:
        return module in self.modules and qualname in self.modules[module].funcs

    def all_funcs(self, modules=None):
        for mn, m in self.modules.items():
            if modules and mn not in modules:
                continue
            for fi in m.funcs.values():
                yield fi

    def resolve(self, module: str, name: str, _depth: int = 0):
        """Resolve a global name used in `module` to FuncRef/ClassRef/ExtRef/None."""
        if _depth > 5:
            return None
        m = self.modules.get(module)
        if m is None:
            return None
        if name in m.funcs and '.' not in name:
            return FuncRef(module, name)
        if name in m.classes:
            return ClassRef(module, name)
        if name in m.imports:
            src, orig = m.imports[name]
            if src.startswith('ext:'):
                return ExtRef(src[4:] + ('.' + orig if orig else ''))
            return self.resolve(src, orig, _depth + 1) or ExtRef(f'.{src}.{orig}')
        return None

    def rel(self, path: str) -> str:
        return os.path.relpath(path, self.root)

    # -- module-level tables -------------------------------------------------
    def tables(self, module: str) -> dict:
        if module not in self._tables:
            ev = ConstEval(self, module)
            ev.run()
            self._tables[module] = ev.env
        return self._tables[module]

    def table(self, module: str, name: str):
        env = self.tables(module)
        if name not in env:
            raise AnalysisError(f'module-level table {module}.{name} vanished')
        v = env[name]
        if isinstance(v, Unknown):
            raise AnalysisError(f'module-level table {module}.{name} not statically '
                                f'evaluable: {v.why}')
        return v


class _Unsupported(Exception):
    pass


class ConstEval:
    """Restricted evaluator for module bodies.  Handles exactly the constructs the
    package uses to build its tables; anything else yields Unknown for the names it
    binds (so a table the rules depend on turns into an ANALYSIS-ERROR, not a guess).
    """

    def __init__(self, repo: Repo, module: str):
        self.repo = repo
        self.module = module
        self.mod = repo.module(module)
        self.env: dict[str, object] = {}

    def run(self):
        self._exec_body(self.mod.tree.body)

    def _bind_unknown(self, target, why):
        for n in ast.walk(target):
            if isinstance(n, ast.Name):
                self.env[n.id] = Unknown(why)

    def _exec_body(self, body):
        for st in body:
            self._exec(st)

    def _exec(self, st):
        if isinstance(st, (ast.FunctionDef, ast.AsyncFunctionDef)):
            self.env[st.name] = FuncRef(self.module, st.name)
        elif isinstance(st, ast.ClassDef):
            self.env[st.name] = ClassRef(self.module, st.name)
        elif isinstance(st, (ast.Import, ast.ImportFrom)):
            names = [al.asname or al.name.split('.')[0] for al in st.names]
            for n in names:
                r = self.repo.resolve(self.module, n)
                if isinstance(r, (FuncRef, ClassRef)):
                    self.env[n] = r
                elif isinstance(st, ast.ImportFrom) and st.level >= 1:
                    # an imported table of a sibling module
                    src = st.module or ''
                    orig = [al.name for al in st.names if (al.asname or al.name) == n][0]
                    if src in self.repo.modules and src != self.module:
                        try:
                            self.env[n] = self.repo.tables(src).get(orig, ExtRef(f'.{src}.{orig}'))
                        except RecursionError:
                            self.env[n] = Unknown('import cycle')
                    else:
                        self.env[n] = ExtRef(f'.{src}.{orig}')
                else:
                    self.env[n] = r if r is not None else ExtRef(n)
        elif isinstance(st, ast.Assign):
            try:
                v = self._eval(st.value, {})
            except _Unsupported as e:
                for t in st.targets:
                    self._assign_unknown(t, str(e))
                return
            for t in st.targets:
                self._assign(t, v)
        elif isinstance(st, ast.AnnAssign):
            if st.value is None:
                return
            try:
                v = self._eval(st.value, {})
            except _Unsupported as e:
                self._assign_unknown(st.target, str(e))
                return
            self._assign(st.target, v)
        elif isinstance(st, ast.AugAssign):
            self._assign_unknown(st.target, 'augmented assignment at module level')
        elif isinstance(st, ast.For):
            try:
                it = self._eval(st.iter, {})
                seq = list(it)
            except (_Unsupported, TypeError) as e:
                for s in st.body:
                    for n in ast.walk(s):
                        if isinstance(n, (ast.Assign, ast.AugAssign)):
                            for t in (n.targets if isinstance(n, ast.Assign) else [n.target]):
                                self._assign_unknown(t, f'loop not evaluable: {e}')
                return
            if len(seq) > 100000:
                raise AnalysisError('module-level loop too long')
            for item in seq:
                self._assign(st.target, item)
                self._exec_body(st.body)
        elif isinstance(st, ast.Try):
            # `try: from hashlib import x / except ImportError: fallback` - the
            # import succeeds on every supported platform; bind the try body.
            self._exec_body(st.body)
        elif isinstance(st, ast.If):
            try:
                c = self._eval(st.test, {})
            except _Unsupported:
                for s in st.body + st.orelse:
                    for n in ast.walk(s):
                        if isinstance(n, ast.Assign):
                            for t in n.targets:
                                self._assign_unknown(t, 'under a non-evaluable module-level if')
                return
            self._exec_body(st.body if c else st.orelse)
        elif isinstance(st, ast.Expr):
            return
        elif isinstance(st, ast.Delete):
            for t in st.targets:
                self._assign_unknown(t, 'deleted at module level')
        else:
            return

    def _assign_unknown(self, t, why):
        if isinstance(t, ast.Name):
            self.env[t.id] = Unknown(why)
        elif isinstance(t, ast.Subscript):
            base = t.value
            while isinstance(base, ast.Subscript):
                base = base.value
            if isinstance(base, ast.Name):
                self.env[base.id] = Unknown(why)
        elif isinstance(t, (ast.Tuple, ast.List)):
            for e in t.elts:
                self._assign_unknown(e, why)

    def _assign(self, t, v):
        if isinstance(t, ast.Name):
            self.env[t.id] = v
        elif isinstance(t, (ast.Tuple, ast.List)):
            try:
                vals = list(v)
            except TypeError:
                self._assign_unknown(t, 'unpack of non-sequence')
                return
            if len(vals) != len(t.elts):
                self._assign_unknown(t, 'unpack length mismatch')
                return
            for e, x in zip(t.elts, vals):
                self._assign(e, x)
        elif isinstance(t, ast.Subscript):
            try:
                base = self._eval(t.value, {})
                key = self._eval(t.slice, {})
            except _Unsupported as e:
                self._assign_unknown(t, str(e))
                return
            if isinstance(base, (dict, list)):
                try:
                    base[key] = v
                except Exception as e:
                    self._assign_unknown(t, f'store failed: {e}')
            else:
                self._assign_unknown(t, 'store into non-container')
        else:
            pass

    # -- expressions ---------------------------------------------------------
    def _eval(self, e, loc):
        if isinstance(e, ast.Constant):
            return e.value
        if isinstance(e, ast.Name):
            if e.id in loc:
                return loc[e.id]
            if e.id in self.env:
                v = self.env[e.id]
                if isinstance(v, Unknown):
                    raise _Unsupported(f'{e.id} unknown: {v.why}')
                return v
            if e.id in ('True', 'False', 'None'):
                return {'True': True, 'False': False, 'None': None}[e.id]
            r = self.repo.resolve(self.module, e.id)
            if r is not None:
                return r
            if e.id in ('range', 'len', 'dict', 'list', 'tuple', 'set', 'str', 'int',
                        'bytes', 'sorted', 'enumerate', 'zip', 'bool', 'float',
                        'frozenset', 'object', 'type'):
                return ExtRef('builtins.' + e.id)
            raise _Unsupported(f'unbound name {e.id}')
        if isinstance(e, ast.Tuple):
            return tuple(self._eval_elts(e.elts, loc))
        if isinstance(e, ast.List):
            return list(self._eval_elts(e.elts, loc))
        if isinstance(e, ast.Set):
            return set(self._eval_elts(e.elts, loc))
        if isinstance(e, ast.Dict):
            d = {}
            for k, v in zip(e.keys, e.values):
                if k is None:
                    sub = self._eval(v, loc)
                    if not isinstance(sub, dict):
                        raise _Unsupported('** of non-dict')
                    d.update(sub)
                else:
                    d[self._hashable(self._eval(k, loc))] = self._eval(v, loc)
            return d
        if isinstance(e, (ast.ListComp, ast.SetComp, ast.GeneratorExp, ast.DictComp)):
            return self._eval_comp(e, loc)
        if isinstance(e, ast.Subscript):
            base = self._eval(e.value, loc)
            if isinstance(e.slice, ast.Slice):
                lo = self._eval(e.slice.lower, loc) if e.slice.lower else None
                hi = self._eval(e.slice.upper, loc) if e.slice.upper else None
                stp = self._eval(e.slice.step, loc) if e.slice.step else None
                try:
                    return base[lo:hi:stp]
                except Exception as ex:
                    raise _Unsupported(f'slice failed: {ex}')
            key = self._eval(e.slice, loc)
            try:
                return base[key]
            except Exception as ex:
                raise _Unsupported(f'subscript failed: {ex}')
        if isinstance(e, ast.Attribute):
            base = self._eval(e.value, loc)
            if e.attr == '__name__' and isinstance(base, (ClassRef, FuncRef)):
                return base.name
            if e.attr == '__name__' and isinstance(base, ExtRef):
                return base.path.split('.')[-1]
            if isinstance(base, ExtRef):
                return ExtRef(base.path + '.' + e.attr)
            raise _Unsupported(f'attribute {e.attr}')
        if isinstance(e, ast.JoinedStr):
            out = ''
            for v in e.values:
                if isinstance(v, ast.Constant):
                    out += str(v.value)
                elif isinstance(v, ast.FormattedValue):
                    if v.format_spec is not None or v.conversion != -1:
                        raise _Unsupported('format spec')
                    x = self._eval(v.value, loc)
                    if not isinstance(x, (str, int)):
                        raise _Unsupported('f-string of non-scalar')
                    out += str(x)
            return out
        if isinstance(e, ast.BinOp):
            l, r = self._eval(e.left, loc), self._eval(e.right, loc)
            ok = (int, str, bytes, list, tuple, float)
            if not isinstance(l, ok) or not isinstance(r, ok):
                raise _Unsupported('binop on non-scalar')
            try:
                if isinstance(e.op, ast.Add):
                    return l + r
                if isinstance(e.op, ast.Sub):
                    return l - r
                if isinstance(e.op, ast.Mult):
                    if isinstance(l, int) and isinstance(r, int) and abs(l * r) > 10**9:
                        raise _Unsupported('large product')
                    return l * r
                if isinstance(e.op, ast.FloorDiv):
                    return l // r
                if isinstance(e.op, ast.Mod):
                    return l % r
                if isinstance(e.op, ast.LShift):
                    if r > 64:
                        raise _Unsupported('large shift')
                    return l << r
                if isinstance(e.op, ast.Pow):
                    if r > 64:
                        raise _Unsupported('large pow')
                    return l ** r
                if isinstance(e.op, ast.BitOr):
                    return l | r
                if isinstance(e.op, ast.BitAnd):
                    return l & r
            except _Unsupported:
                raise
            except Exception as ex:
                raise _Unsupported(f'binop failed: {ex}')
            raise _Unsupported('binop kind')
        if isinstance(e, ast.UnaryOp):
            v = self._eval(e.operand, loc)
            if isinstance(e.op, ast.USub) and isinstance(v, (int, float)):
                return -v
            if isinstance(e.op, ast.Not):
                return not v
            raise _Unsupported('unary op')
        if isinstance(e, ast.Compare) and len(e.ops) == 1:
            l, r = self._eval(e.left, loc), self._eval(e.comparators[0], loc)
            op = e.ops[0]
            try:
                if isinstance(op, ast.Eq):
                    return l == r
                if isinstance(op, ast.NotEq):
                    return l != r
                if isinstance(op, ast.In):
                    return l in r
                if isinstance(op, ast.NotIn):
                    return l not in r
                if isinstance(op, ast.Lt):
                    return l < r
                if isinstance(op, ast.LtE):
                    return l <= r
                if isinstance(op, ast.Gt):
                    return l > r
                if isinstance(op, ast.GtE):
                    return l >= r
            except Exception as ex:
                raise _Unsupported(f'compare failed: {ex}')
            raise _Unsupported('compare op')
        if isinstance(e, ast.IfExp):
            return self._eval(e.body if self._eval(e.test, loc) else e.orelse, loc)
        if isinstance(e, ast.Call):
            return self._eval_call(e, loc)
        if isinstance(e, ast.Starred):
            raise _Unsupported('starred')
        if isinstance(e, ast.Lambda):
            return Unknown('lambda')
        raise _Unsupported(type(e).__name__)

    def _eval_elts(self, elts, loc):
        out = []
        for x in elts:
            if isinstance(x, ast.Starred):
                out.extend(list(self._eval(x.value, loc)))
            else:
                out.append(self._eval(x, loc))
        return out

    @staticmethod
    def _hashable(k):
        try:
            hash(k)
        except TypeError:
            raise _Unsupported('unhashable key')
        return k

    def _eval_call(self, e, loc):
        if e.keywords and not (isinstance(e.func, ast.Name) and e.func.id == 'dict'):
            raise _Unsupported('call with keywords')
        if isinstance(e.func, ast.Name) and e.func.id not in loc and e.func.id not in self.env:
            args = [self._eval(a, loc) for a in e.args]
            f = e.func.id
            try:
                if f == 'range':
                    r = range(*args)
                    if len(r) > 100000:
                        raise _Unsupported('long range')
                    return r
                if f == 'len':
                    return len(args[0])
                if f == 'dict':
                    d = dict(*args)
                    for kw in e.keywords:
                        d[kw.arg] = self._eval(kw.value, loc)
                    return d
                if f == 'list':
                    return list(*args)
                if f == 'tuple':
                    return tuple(*args)
                if f == 'set':
                    return set(*args)
                if f == 'sorted':
                    return sorted(*args)
                if f == 'enumerate':
                    return list(enumerate(*args))
                if f == 'zip':
                    return list(zip(*args))
                if f == 'str' and len(args) == 1 and isinstance(args[0], (int, str)):
                    return str(args[0])
                if f == 'int' and len(args) == 1 and isinstance(args[0], (int, str)):
                    return int(args[0])
            except _Unsupported:
                raise
            except Exception as ex:
                raise _Unsupported(f'builtin {f} failed: {ex}')
            raise _Unsupported(f'call of {f}')
        if isinstance(e.func, ast.Attribute):
            base = self._eval(e.func.value, loc)
            args = [self._eval(a, loc) for a in e.args]
            m = e.func.attr
            try:
                if isinstance(base, dict) and m in ('items', 'keys', 'values', 'copy', 'get'):
                    r = getattr(base, m)(*args)
                    return list(r) if m in ('items', 'keys', 'values') else r
                if isinstance(base, str) and m in ('upper', 'lower', 'strip', 'split', 'join',
                                                   'startswith', 'replace', 'format'):
                    return getattr(base, m)(*args)
                if isinstance(base, (list, tuple)) and m in ('index', 'count', 'copy'):
                    return getattr(base, m)(*args)
                if isinstance(base, int) and m == 'to_bytes':
                    return base.to_bytes(*args)
                if isinstance(base, bytes) and m == 'hex':
                    return base.hex()
            except Exception as ex:
                raise _Unsupported(f'method {m} failed: {ex}')
            raise _Unsupported(f'method {m}')
        raise _Unsupported('call')

    def _eval_comp(self, e, loc):
        results = []

        def rec(gens, loc):
            if not gens:
                if isinstance(e, ast.DictComp):
                    results.append((self._hashable(self._eval(e.key, loc)),
                                    self._eval(e.value, loc)))
                else:
                    results.append(self._eval(e.elt, loc))
                return
            g = gens[0]
            it = self._eval(g.iter, loc)
            if isinstance(it, dict):
                it = list(it.keys())
            try:
                seq = list(it)
            except TypeError:
                raise _Unsupported('comprehension over non-iterable')
            for item in seq:
                loc2 = dict(loc)
                self._bind_local(g.target, item, loc2)
                if all(self._eval(c, loc2) for c in g.ifs):
                    rec(gens[1:], loc2)

        rec(e.generators, loc)
        if isinstance(e, ast.DictComp):
            return dict(results)
        if isinstance(e, ast.SetComp):
            return set(results)
        return results

    def _bind_local(self, t, v, loc):
        if isinstance(t, ast.Name):
            loc[t.id] = v
        elif isinstance(t, (ast.Tuple, ast.List)):
            vals = list(v)
            if len(vals) != len(t.elts):
                raise _Unsupported('comprehension unpack mismatch')
            for a, b in zip(t.elts, vals):
                self._bind_local(a, b, loc)
        else:
            raise _Unsupported('comprehension target')


# ---------------------------------------------------------------------------
# helpers over ast
# ---------------------------------------------------------------------------

def call_name(node: ast.AST) -> str | None:
    """`f(...)` -> 'f'; `a.b.c(...)` -> 'a.b.c'; otherwise None."""
    if not isinstance(node, ast.Call):
        return None
    return dotted(node.func)


def dotted(node: ast.AST) -> str | None:
    parts = []
    while isinstance(node, ast.Attribute):
        parts.append(node.attr)
        node = node.value
    if isinstance(node, ast.Name):
        parts.append(node.id)
        return '.'.join(reversed(parts))
    return None


def walk_no_nested(node: ast.AST):
    """ast.walk that does not descend into nested function/class/lambda bodies."""
    todo = [node]
    first = True
    while todo:
        n = todo.pop()
        if not first and isinstance(n, (ast.FunctionDef, ast.AsyncFunctionDef,
                                        ast.ClassDef, ast.Lambda)):
            continue
        first = False
        yield n
        todo.extend(ast.iter_child_nodes(n))


def norm(node: ast.AST) -> str:
    """Normalised source text of an expression/statement (whitespace-insensitive)."""
    return ast.unparse(node)


def const_value(node: ast.AST):
    if isinstance(node, ast.Constant):
        return node.value
    raise ValueError('not a constant')


class Opcodes:
    """The VM opcode tables as evaluated from functions.py."""

    def __init__(self, repo: Repo):
        t = repo.table('functions', 'opcodes')
        if not isinstance(t, dict) or not t:
            raise AnalysisError('functions.opcodes is not a non-empty dict')
        self.by_code: dict[int, tuple[str, FuncRef]] = {}
        for code, val in t.items():
            if (not isinstance(code, int) or not isinstance(val, tuple) or len(val) != 2
                    or not isinstance(val[0], str) or not isinstance(val[1], FuncRef)):
                raise AnalysisError(f'functions.opcodes[{code!r}] has unexpected shape {val!r}')
            self.by_code[code] = val
        self.by_name = {name: (code, fn) for code, (name, fn) in self.by_code.items()}
        n = repo.table('functions', 'nopcodes')
        self.nops: dict[int, tuple[str, FuncRef]] = {}
        for code, val in n.items():
            if (not isinstance(code, int) or not isinstance(val, tuple) or len(val) != 2
                    or not isinstance(val[1], FuncRef)):
                raise AnalysisError(f'functions.nopcodes[{code!r}] has unexpected shape')
            self.nops[code] = val
        self.aliases: dict[str, str] = repo.table('functions', 'opcode_aliases')
        self.inverse = repo.table('functions', 'opcodes_inverse')
        self.nop_inverse = repo.table('functions', 'nopcodes_inverse')

    def handler(self, name: str) -> FuncRef:
        if name not in self.by_name:
            raise AnalysisError(f'opcode {name} vanished from the opcode table')
        return self.by_name[name][1]

    def handler_names(self) -> dict[str, str]:
        """op name -> handler function name."""
        return {name: fn.name for name, (code, fn) in self.by_name.items()}
