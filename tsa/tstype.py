"""E6 part 2 - stack-effect and integrity typing of tapescript templates.

A flow-sensitive abstract interpreter in the style of a bytecode verifier: items carry a
trust label (T trusted: literal / builder parameter / comptime result; U untrusted: from
the initial stack), an identity (copies share it), split/copy ancestry and the set of
identities a hash-like value commits to.  Authentication is evaluated at the END of each
path by a fixpoint over recorded rules (a script that later fails a verify never
authorises), so a field may be used before the statement that authenticates it.  Paths
fork at if/else; no path conditions beyond that, no solver."""
from __future__ import annotations
import ast
import itertools
from .report import AnalysisError
from .summary import World
from .stackfx import StackFx, DYNAMIC
from .tscript import Node, Tok, Hole
from . import linear as L


class Item:
    _n = 0

    def __init__(self, label='U', ident=None, parent=None, commits=None, const=None, hole=None,
                 kind='data', boolf=None, check=None, origin='', params=None):
        Item._n += 1
        self.id = Item._n
        self.label = label
        self.ident = ident if ident is not None else self.id
        self.parent = parent
        self.commits = set(commits or ())
        self.const = const
        self.hole = hole
        self.kind = kind
        self.boolf = boolf           # formula for time booleans
        self.check = check           # ('sig', key, ...) / ('eq', a, b) / ('css', key, msg) / ...
        self.origin = origin
        self.params = set(params or ())   # builder parameters it derives from
        self.deps = []               # items it was computed from

    def copy(self):
        c = Item(self.label, self.ident, self.parent, self.commits, self.const, self.hole, self.kind,
                 self.boolf, self.check, self.origin, self.params)
        c.deps = list(self.deps)
        return c

    def __repr__(self):
        return f'<{self.label}{self.id}:{self.origin[:18]}>'


class Path:
    def __init__(self, stack=None, supply=False):
        self.stack: list[Item] = list(stack or [])
        self.supply = supply          # adversarial unbounded supply of U items under the stack
        self.supplied: list[Item] = []
        self.vars: dict[str, list[Item]] = {}
        self.defs: dict[str, list[Node]] = {}
        self.rules: list[tuple[list[Item], set[int], str]] = []    # premises -> identities
        self.obligations: list[tuple[str, Item, str]] = []
        self.constraints: list = []                                    # boolean formulas verified
        self.events: list[str] = []
        self.underflow: list[str] = []
        self.dynamic = False          # an eval / recursive call made the final depth unknown
        self.ended = None             # 'return' / 'fail'
        self.call_stack: list[str] = []
        self.branch: list[str] = []
        self.used_vars: set[str] = set()
        self.set_vars: set[str] = set()
        self.time_checks: list[tuple[Item, bool, int]] = []   # (constraint item, verified?, position)
        self.sig_checks: list[tuple[Item, object, str]] = []  # (key item, flags operand tok, op)
        self.pos = 0
        self.branch_items: list[Item] = []
        self.const_branch = False     # follow only the matching arm when the condition is a constant

    def clone(self):
        p = Path(self.stack, self.supply)
        p.supplied = list(self.supplied)
        p.vars = {k: list(v) for k, v in self.vars.items()}
        p.defs = dict(self.defs)
        p.rules = list(self.rules)
        p.obligations = list(self.obligations)
        p.constraints = list(self.constraints)
        p.events = list(self.events)
        p.underflow = list(self.underflow)
        p.dynamic = self.dynamic
        p.ended = self.ended
        p.call_stack = list(self.call_stack)
        p.branch = list(self.branch)
        p.used_vars = set(self.used_vars)
        p.set_vars = set(self.set_vars)
        p.time_checks = list(self.time_checks)
        p.sig_checks = list(self.sig_checks)
        p.pos = self.pos
        p.branch_items = list(self.branch_items)
        p.const_branch = self.const_branch
        for extra in ('multisig', 'eval_result', 'sign_ops'):
            if hasattr(self, extra):
                setattr(p, extra, getattr(self, extra))
        return p

    def pop(self, why='') -> Item:
        if self.stack:
            return self.stack.pop()
        if self.supply:
            it = Item('U', origin=f'witness#{len(self.supplied) + 1}')
            self.supplied.append(it)
            return it
        self.underflow.append(why)
        return Item('U', origin='underflow')

    def push(self, it: Item):
        self.stack.append(it)

    # authentication fixpoint ---------------------------------------------------
    def auth_set(self) -> set[int]:
        auth: set[int] = set()

        def is_auth(it: Item) -> bool:
            cur = it
            seen = 0
            while cur is not None and seen < 50:
                if cur.label == 'T' or cur.ident in auth:
                    return True
                cur = cur.parent
                seen += 1
            return False
        changed = True
        while changed:
            changed = False
            for prem, concl, why in self.rules:
                if all(is_auth(p) for p in prem):
                    new = concl - auth
                    if new:
                        auth |= new
                        changed = True
        self._is_auth = is_auth
        return auth

    def trusted(self, it: Item) -> bool:
        if not hasattr(self, '_is_auth'):
            self.auth_set()
        return self._is_auth(it)


def F_time(cid):
    """Formula of OP_CHECK_TIMESTAMP for constraint `cid`:  t >= c  and  slack."""
    return L.f_and([('lit', ('ge', cid), True), ('lit', ('slack',), True)])


class Typer:
    MODELLED = {
        'OP_DUP': (1, 1), 'OP_SWAP2': (2, 0), 'OP_SPLIT': (2, 0), 'OP_CONCAT': (2, -1), 'OP_SIZE': (1, 0),
        'OP_POP0': (1, -1), 'OP_SHA256': (1, 0), 'OP_SHAKE256': (1, 0), 'OP_EQUAL': (2, -1),
        'OP_EQUAL_VERIFY': (2, -2), 'OP_VERIFY': (1, -1), 'OP_NOT': (1, 0), 'OP_AND': (2, -1),
        'OP_TRUE': (0, 1), 'OP_FALSE': (0, 1), 'OP_CHECK_SIG': (2, -1), 'OP_CHECK_SIG_VERIFY': (2, -2),
        'OP_CHECK_SIG_STACK': (3, -2), 'OP_CHECK_TIMESTAMP': (1, 0), 'OP_CHECK_TIMESTAMP_VERIFY': (1, -1),
        'OP_GET_MESSAGE': (0, 1), 'OP_DERIVE_POINT': (1, 0), 'OP_DERIVE_SCALAR': (1, 0), 'OP_CLAMP_SCALAR': (1, 0),
        'OP_SIGN': (1, 0), 'OP_SIGN_STACK': (2, -1), 'OP_CHECK_ADAPTER_SIG': (5, -4),
        'OP_DECRYPT_ADAPTER_SIG': (3, -1), 'OP_MAKE_ADAPTER_SIG_PUBLIC': (3, -1), 'OP_RETURN': (0, 0),
        'OP_RANDOM': (1, 0), 'OP_PUSH0': (0, 1), 'OP_PUSH1': (0, 1), 'OP_PUSH2': (0, 1),
    }
    OPERAND_SAMPLES = {'OP_SHAKE256': (20,), 'OP_CHECK_SIG': (0,), 'OP_CHECK_SIG_VERIFY': (0,), 'OP_GET_MESSAGE': (0,),
                       'OP_CLAMP_SCALAR': (0,), 'OP_SIGN': (0,), 'OP_PUSH0': (7,), 'OP_PUSH1': (3, None), 'OP_PUSH2': (3, None)}

    def __init__(self, w: World):
        self.w = w
        self.fx = StackFx(w)
        self.hname = {op: fn.name for op, (code, fn) in w.ops.by_name.items()}
        self.max_paths = 512

    # -- model / handler cross-check ---------------------------------------------
    def model_drift(self) -> list[tuple[str, tuple, object]]:
        """Hand-modelled arities that no longer equal the handler's own stack effect."""
        out = []
        for op, want in self.MODELLED.items():
            got = self.fx.effect(self.hname[op], self.OPERAND_SAMPLES.get(op, ()))
            if got != want:
                out.append((op, want, got))
        for n in (2, 3):
            got = self.fx.effect(self.hname['OP_ADD_POINTS'], (n,))
            if got != (n, -n + 1):
                out.append(('OP_ADD_POINTS', (n, -n + 1), got))
        got = self.fx.effect(self.hname['OP_CHECK_MULTISIG'], (0, 2, 3))
        if got != (5, -4):
            out.append(('OP_CHECK_MULTISIG', (5, -4), got))
        return out

    # -- running ------------------------------------------------------------------
    def run(self, nodes: list[Node], init: Path) -> list[Path]:
        paths = [init]
        return self._seq(nodes, paths)

    def _seq(self, nodes, paths):
        for n in nodes:
            nxt = []
            for p in paths:
                if p.ended:
                    nxt.append(p)
                    continue
                nxt += self._node(n, p)
            paths = nxt
            if len(paths) > self.max_paths:
                raise AnalysisError('too many template paths')
        return paths

    def _lit_item(self, tok, p: Path) -> Item:
        if isinstance(tok, Node) and tok.kind == 'comptime':
            # build-time evaluation: run the body on an empty trusted stack
            sub = Path([], supply=False)
            res = self._seq(tok.body, [sub])
            if len(res) != 1:
                raise AnalysisError('comptime block with branches')
            r = res[0]
            if tok.mode == '~!':
                if not r.stack:
                    raise AnalysisError('comptime ~! block leaves nothing')
                top = r.stack[-1]
                it = Item('T', commits=top.commits | {d.ident for d in top.deps}, origin='comptime',
                          params=set().union(*[x.params for x in [top] + top.deps]) if True else None)
                it.deps = [top]
                return it
            it = Item('T', origin='comptime-code', params=set().union(*[x.params for x in r.stack]) if r.stack else set())
            return it
        params = set()
        hole = None
        for h in tok.holes.values():
            params |= h.params
            hole = h
        return Item('T', const=tok.literal(), hole=hole, origin=tok.plain, params=params)

    def _derived(self, ins: list[Item], origin: str, commits_through=False, hashed=False) -> Item:
        label = 'T' if all(i.label == 'T' for i in ins) else 'U'
        commits = set()
        if hashed:
            for i in ins:
                commits |= {i.ident} | i.commits
        elif commits_through:
            for i in ins:
                commits |= i.commits
        params = set().union(*[i.params for i in ins]) if ins else set()
        it = Item(label, commits=commits, origin=origin, params=params)
        it.deps = list(ins)
        return it

    def _node(self, n: Node, p: Path) -> list[Path]:
        p.pos += 1
        k = n.kind
        if k == 'comment':
            return [p]
        if k == 'repeat':
            # a segment repeated a symbolic number of times: typed for 1 iteration here; the
            # caller (pair rules) handles the count relation
            out = self._seq(n.body, [p])
            for q in out:
                q.events.append(f'repeat:{ast.unparse(n.count)}')
            return out
        if k == 'script_hole':
            p.dynamic = True
            p.events.append(f'script-hole:{n.tok.plain}')
            return [p]
        if k == 'setvar':
            if n.values is not None:
                items = [self._lit_item(v, p) for v in n.values]
                p.vars[n.name] = list(reversed(items))
            else:
                items = [p.pop(f'@= {n.name}') for _ in range(n.count)]
                p.vars[n.name] = items
            p.set_vars.add(n.name)
            return [p]
        if k == 'getvar':
            p.used_vars.add(n.name)
            if n.name not in p.vars:
                p.underflow.append(f'@{n.name} read before it is set')
                p.push(Item('U', origin=f'@{n.name}?'))
                return [p]
            for it in p.vars[n.name]:
                p.push(it.copy())
            return [p]
        if k == 'sizevar':
            p.used_vars.add(n.name)
            p.push(Item('T', origin=f'@#{n.name}'))
            return [p]
        if k == 'def':
            p.defs[n.handle.lstrip('dDxX') if n.handle[0] in 'dDxX' else n.handle] = n.body
            return [p]
        if k == 'if':
            paths = [p]
            if n.cond:
                paths = self._seq(n.cond, paths)
            out = []
            for q in paths:
                if q.ended:
                    out.append(q)
                    continue
                c = q.pop('if condition')
                q.branch_items.append(c)
                only = None
                if q.const_branch and c.boolf is not None and c.boolf[0] == 'const':
                    only = c.boolf[1]
                if only is not False:
                    a = q.clone() if only is None else q
                    a.branch.append('then')
                    self._assume(a, c, True)
                    out += self._seq(n.then, [a])
                if only is not True:
                    b = q
                    b.branch.append('else')
                    self._assume(b, c, False)
                    if n.orelse:
                        out += self._seq(n.orelse, [b])
                    else:
                        out.append(b)
            return out
        if k == 'try':
            a = p.clone()
            res = self._seq(n.body, [a])
            if n.orelse:
                b = p.clone()
                b.branch.append('except')
                res += self._seq(n.orelse, [b])
            return res
        if k == 'loop':
            p.dynamic = True
            return self._seq(n.body, [p])
        if k == 'op':
            return self._op(n, p)
        raise AnalysisError(f'unknown node kind {k}')

    def _assume(self, p: Path, cond: Item, truth: bool):
        """Facts established by branching on a boolean."""
        if cond.check and cond.check[0] == 'eq' and truth:
            _, a, b = cond.check
            p.rules.append(([b], {a.ident} | a.commits, 'if-equal'))
            p.rules.append(([a], {b.ident} | b.commits, 'if-equal'))
        if cond.boolf is not None:
            p.constraints.append(cond.boolf if truth else L.f_not(cond.boolf))

    # -- ops ------------------------------------------------------------------------
    def _op(self, n: Node, p: Path) -> list[Path]:
        op = n.name
        ops = n.operands
        if op == 'OP_PUSH' or op in ('OP_PUSH0', 'OP_PUSH1', 'OP_PUSH2'):
            p.push(self._lit_item(ops[-1], p))
            return [p]
        if op == 'OP_TRUE':
            it = Item('T', const=b'\xff', kind='bool', boolf=('const', True), origin='true')
            p.push(it)
            return [p]
        if op == 'OP_FALSE':
            p.push(Item('T', const=b'\x00', kind='bool', boolf=('const', False), origin='false'))
            return [p]
        if op == 'OP_DUP':
            a = p.pop('dup')
            p.push(a)
            p.push(a.copy())
            return [p]
        if op == 'OP_SWAP2':
            a, b = p.pop('swap2'), p.pop('swap2')
            p.push(a)
            p.push(b)
            return [p]
        if op == 'OP_SWAP':
            i, j = ops[0].literal(), ops[1].literal()
            if i is None or j is None:
                raise AnalysisError('swap with non-literal indices')
            if isinstance(i, bytes):
                i = int.from_bytes(i, 'big')
            if isinstance(j, bytes):
                j = int.from_bytes(j, 'big')
            need = max(i, j) + 1
            items = [p.pop('swap') for _ in range(need)]      # items[0] = top
            items[i], items[j] = items[j], items[i]
            for it in reversed(items):
                p.push(it)
            return [p]
        if op == 'OP_SPLIT':
            idx = p.pop('split index')
            a = p.pop('split item')
            if idx.label != 'T':
                p.obligations.append(('split-index', idx, 'split offset must be a template constant'))
            lo = Item(a.label, parent=a, origin=f'{a.origin}[:{idx.const}]', params=a.params)
            hi = Item(a.label, parent=a, origin=f'{a.origin}[{idx.const}:]', params=a.params)
            lo.deps = [a]
            hi.deps = [a]
            p.push(lo)
            p.push(hi)
            return [p]
        if op == 'OP_CONCAT':
            b, a = p.pop('concat'), p.pop('concat')
            it = self._derived([a, b], 'cat')
            it.commits = a.commits | b.commits          # hashes inside stay commitments
            it.cat_of = (a, b)
            p.push(it)
            return [p]
        if op == 'OP_SIZE':
            a = p.pop('size')
            it = self._derived([a], f'size({a.origin})')
            it.size_of = a
            p.push(it)
            return [p]
        if op == 'OP_POP0':
            a = p.pop('pop0')
            p.vars['P'] = [a]
            return [p]
        if op in ('OP_SHA256', 'OP_SHAKE256'):
            a = p.pop(op)
            it = self._derived([a], f'H({a.origin})', hashed=True)
            cat = getattr(a, 'cat_of', None)
            if cat:
                for x in cat:
                    it.commits |= {x.ident} | x.commits
            p.push(it)
            return [p]
        if op in ('OP_DERIVE_POINT', 'OP_CLAMP_SCALAR', 'OP_DERIVE_SCALAR'):
            a = p.pop(op)
            it = self._derived([a], f'{op[3:].lower()}({a.origin})', commits_through=True)
            p.push(it)
            return [p]
        if op == 'OP_ADD_POINTS':
            cnt = ops[0].literal()
            if cnt is None:
                raise AnalysisError('add_points with non-literal count')
            ins = [p.pop(op) for _ in range(cnt)]
            it = self._derived(ins, 'add_points', commits_through=True)
            p.push(it)
            return [p]
        if op in ('OP_EQUAL', 'OP_EQUAL_VERIFY'):
            a, b = p.pop(op), p.pop(op)
            if op == 'OP_EQUAL':
                it = Item('T' if a.label == b.label == 'T' else 'U', kind='bool', check=('eq', a, b), origin='eq')
                it.deps = [a, b]
                sz = getattr(a, 'size_of', None) or getattr(b, 'size_of', None)
                if sz is not None:
                    it.check = ('size-eq', sz)
                p.push(it)
            else:
                p.rules.append(([b], {a.ident} | a.commits, 'eqv'))
                p.rules.append(([a], {b.ident} | b.commits, 'eqv'))
                p.events.append('eqv')
            return [p]
        if op == 'OP_VERIFY':
            a = p.pop('verify')
            self._verified(p, a)
            return [p]
        if op == 'OP_NOT':
            a = p.pop('not')
            it = Item(a.label, kind='bool', origin=f'not({a.origin})', params=a.params)
            it.deps = [a]
            if a.boolf is not None:
                it.boolf = L.f_not(a.boolf)
            it.check = ('not', a)
            p.push(it)
            return [p]
        if op == 'OP_AND':
            a, b = p.pop('and'), p.pop('and')
            it = self._derived([a, b], 'and')
            it.kind = 'bool'
            if a.boolf is not None and b.boolf is not None:
                it.boolf = L.f_and([a.boolf, b.boolf])
            it.check = ('and', a, b)
            p.push(it)
            return [p]
        if op in ('OP_CHECK_TIMESTAMP', 'OP_CHECK_TIMESTAMP_VERIFY'):
            c = p.pop(op)
            p.obligations.append(('time-constraint', c, f'{op} constraint'))
            cid = c.hole.id if c.hole is not None else ('item', c.ident)
            f = F_time(cid)
            verified = op.endswith('_VERIFY')
            p.time_checks.append((c, verified, p.pos))
            if verified:
                p.constraints.append(f)
            else:
                it = Item('T', kind='bool', boolf=f, check=('time', c), origin=f'cts({c.origin})', params=c.params)
                it.deps = [c]
                p.push(it)
            return [p]
        if op in ('OP_CHECK_SIG', 'OP_CHECK_SIG_VERIFY'):
            key = p.pop(op + ' key')
            sig = p.pop(op + ' sig')
            p.obligations.append(('sig-key', key, f'{op} key'))
            p.sig_checks.append((key, ops[0], op))
            if op.endswith('_VERIFY'):
                p.events.append('sig-verified')
            else:
                it = Item('U', kind='bool', check=('sig', key, sig), origin=f'check_sig({key.origin})')
                it.deps = [key, sig]
                p.push(it)
            return [p]
        if op == 'OP_CHECK_SIG_STACK':
            key, msg, sig = p.pop(op), p.pop(op), p.pop(op)
            it = Item('U', kind='bool', check=('css', key, msg, sig), origin=f'css({key.origin})')
            it.deps = [key, msg, sig]
            p.push(it)
            return [p]
        if op in ('OP_CHECK_MULTISIG', 'OP_CHECK_MULTISIG_VERIFY'):
            mtok, ntok = ops[1], ops[2]
            m, nn = mtok.literal(), ntok.literal()
            keys = []
            if nn is None:
                # symbolic n: the keys are the items of the repeated push segment just below
                keys = [p.pop(op + ' key')]
                p.events.append(f'multisig-symbolic n={ntok.plain} m={mtok.plain}')
                p.multisig = {'n_tok': ntok, 'm_tok': mtok, 'flags': ops[0]}
                p.dynamic = True
            else:
                keys = [p.pop(op + ' key') for _ in range(nn)]
                for _ in range(m or 0):
                    p.pop(op + ' sig')
            for kx in keys:
                p.obligations.append(('sig-key', kx, f'{op} key'))
                p.sig_checks.append((kx, ops[0], op))
            if not op.endswith('_VERIFY'):
                it = Item('U', kind='bool', check=('msig', tuple(keys)), origin='check_multisig')
                it.deps = list(keys)
                p.push(it)
            return [p]
        if op == 'OP_GET_MESSAGE':
            it = Item('T', origin='sigfields-message')
            it.msg_flags = ops[0]
            p.push(it)
            return [p]
        if op == 'OP_CHECK_ADAPTER_SIG':
            X, T_, m, R, sa = (p.pop(op) for _ in range(5))
            p.obligations.append(('sig-key', X, 'check_adapter_sig key'))
            p.obligations.append(('adapter-tweak', T_, 'check_adapter_sig tweak point'))
            p.obligations.append(('adapter-message', m, 'check_adapter_sig message'))
            it = Item('U', kind='bool', check=('adapter', X, T_, m, R, sa), origin='check_adapter_sig')
            it.deps = [X, T_, m, R, sa]
            p.push(it)
            return [p]
        if op == 'OP_DECRYPT_ADAPTER_SIG':
            t, R, sa = p.pop(op), p.pop(op), p.pop(op)
            p.push(self._derived([t, R, sa], 'RT'))
            p.push(self._derived([t, R, sa], 's'))
            return [p]
        if op == 'OP_EVAL':
            s = p.pop('eval script')
            p.obligations.append(('eval-script', s, 'script evaluated by eval'))
            p.dynamic = True
            p.events.append('eval')
            p.push(Item('U', kind='bool', check=('eval', s), origin=f'eval({s.origin})'))
            p.eval_result = True
            return [p]
        if op == 'OP_CALL':
            h = ops[0].plain.lstrip('dDxX')
            h = str(int(h)) if h.isdigit() else h
            key = h
            if key not in p.defs:
                # handles are compared as written in `def N`
                cands = [k2 for k2 in p.defs if k2.lstrip('0') == key.lstrip('0')]
                key = cands[0] if cands else None
            if key is None:
                p.underflow.append(f'call of undefined function {h}')
                return [p]
            if key in p.call_stack:
                # recursion: typed under the assumption checked at the call site
                arg = p.stack[-1] if p.stack else p.pop('recursive call argument')
                if not p.stack:
                    p.push(arg)
                p.obligations.append(('recursive-call-arg', arg, f'argument of recursive call {h}'))
                p.dynamic = True
                p.events.append('recursive-call')
                p.ended = 'recursive'
                return [p]
            p.call_stack.append(key)
            out = self._seq(p.defs[key], [p])
            for q in out:
                if q.call_stack and q.call_stack[-1] == key:
                    q.call_stack.pop()
                if q.ended == 'return':
                    q.ended = None
            return out
        if op == 'OP_TAPROOT':
            root = p.pop('tr root')
            p.obligations.append(('sig-key', root, 'taproot root'))
            p.sig_checks.append((root, ops[0], op))
            p.dynamic = True
            p.events.append('taproot')
            p.pop('tr witness item')
            p.push(Item('U', kind='bool', check=('tr', root), origin='tr'))
            return [p]
        if op == 'OP_MERKLEVAL':
            p.dynamic = True
            p.events.append('merkleval')
            return [p]
        if op == 'OP_RETURN':
            p.ended = 'return'
            return [p]
        if op in ('OP_SIGN', 'OP_SIGN_STACK'):
            if op == 'OP_SIGN':
                seed = p.pop(op)
                it = self._derived([seed], 'signature')
                it.sign_flags = ops[0]
                p.sign_ops = getattr(p, 'sign_ops', []) + [(op, ops[0])]
            else:
                seed, msg = p.pop(op), p.pop(op)
                it = self._derived([seed, msg], 'signature-of-stack-message')
                it.signed_msg = msg
            p.push(it)
            return [p]
        # default: arity from the real handler, outputs derive from all inputs
        hn = self.hname.get(op)
        if hn is None:
            raise AnalysisError(f'op {op} not in the VM table')
        operands = []
        for t in ops:
            v = t.literal() if isinstance(t, Tok) else None
            if isinstance(v, bytes):
                v = int.from_bytes(v, 'big') if len(v) <= 2 else None
            operands.append(v)
        eff = self.fx.effect(hn, tuple(operands))
        if eff == DYNAMIC:
            raise AnalysisError(f'op {op} used in a template has a stack effect the engine cannot summarise')
        needs, net = eff
        ins = [p.pop(op) for _ in range(needs)]
        for _ in range(needs + net):
            p.push(self._derived(ins, op[3:].lower()))
        return [p]

    def _verified(self, p: Path, a: Item):
        c = a.check
        if a.boolf is not None:
            p.constraints.append(a.boolf)
        if not c:
            if a.kind != 'bool' and a.label != 'T':
                p.events.append('verify-of-data')
            return
        if c[0] == 'eq':
            _, x, y = c
            p.rules.append(([y], {x.ident} | x.commits, 'eq-verify'))
            p.rules.append(([x], {y.ident} | y.commits, 'eq-verify'))
        elif c[0] == 'css':
            _, key, msg, sig = c
            p.rules.append(([key], {msg.ident}, 'check_sig_stack-verify'))
            p.events.append('css-verified')
        elif c[0] == 'sig':
            p.events.append('sig-verified')
        elif c[0] == 'adapter':
            p.events.append('adapter-verified')
        elif c[0] == 'and':
            for x in c[1:]:
                self._verified(p, x)

    # -- verdict provenance ------------------------------------------------------------
    @staticmethod
    def verdict_sources(it: Item, depth=0) -> set[str]:
        """Which kinds of check the final verdict item derives from."""
        if it is None or depth > 10:
            return set()
        out = set()
        if it.check:
            out.add(it.check[0])
            if it.check[0] in ('not', 'and'):
                for x in it.check[1:]:
                    out |= Typer.verdict_sources(x, depth + 1)
        if it.boolf is not None and it.boolf[0] == 'const':
            out.add('const')
        if not it.check and it.kind != 'bool':
            out.add('data:' + it.label)
        return out
