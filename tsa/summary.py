"""E4 - handler inventory, call graph, event extraction, tape-read shapes."""
from __future__ import annotations
import ast
from .report import AnalysisError
from .model import Repo, FunctionInfo, FuncRef, ClassRef, ExtRef, Opcodes, dotted, walk_no_nested
from .cfg import CFG, Node, cfg_of
from .kinds import Kinds, K


class World:
    """Everything the rules share about one parsed repository."""

    def __init__(self, repo: Repo | None = None):
        self.repo = repo or Repo()
        self.ops = Opcodes(self.repo)
        self.handlers: dict[str, FunctionInfo] = {}        # function name -> info
        self.op_of_handler: dict[str, list[str]] = {}      # function name -> op names
        for name, (code, fr) in self.ops.by_name.items():
            fi = self.repo.func(fr.module, fr.name)
            self.handlers[fr.name] = fi
            self.op_of_handler.setdefault(fr.name, []).append(name)
        nopfuncs = {fr for (_, fr) in self.ops.nops.values()}
        if len(nopfuncs) != 1:
            raise AnalysisError(f'NOP table maps to {len(nopfuncs)} functions, expected 1')
        self.nop = list(nopfuncs)[0]
        self.handlers[self.nop.name] = self.repo.func(self.nop.module, self.nop.name)
        self.op_of_handler.setdefault(self.nop.name, []).append('NOP')
        self._calls: dict[str, list[tuple[FuncRef, ast.Call]]] = {}
        self._kinds: dict[str, Kinds] = {}

    # -- basics -----------------------------------------------------------
    def handler_for(self, op: str) -> FunctionInfo:
        fr = self.ops.handler(op)
        return self.repo.func(fr.module, fr.name)

    def cfg(self, fi: FunctionInfo) -> CFG:
        return cfg_of(self.repo, fi)

    def kinds(self, fi: FunctionInfo) -> Kinds:
        if fi.key not in self._kinds:
            self._kinds[fi.key] = Kinds(self.cfg(fi))
        return self._kinds[fi.key]

    def is_handler(self, fi: FunctionInfo) -> bool:
        return fi.module.name == 'functions' and fi.name in self.handlers and '.' not in fi.qualname

    def resolve_call(self, fi: FunctionInfo, call: ast.Call) -> FuncRef | None:
        if isinstance(call.func, ast.Name):
            # a local rebinding shadows the global
            r = self.repo.resolve(fi.module.name, call.func.id)
            if isinstance(r, FuncRef):
                return r
        return None

    def calls(self, fi: FunctionInfo) -> list[tuple[FuncRef, ast.Call]]:
        if fi.key not in self._calls:
            out = []
            for n in walk_no_nested(fi.node):
                if isinstance(n, ast.Call):
                    r = self.resolve_call(fi, n)
                    if r is not None:
                        out.append((r, n))
            self._calls[fi.key] = out
        return self._calls[fi.key]

    def reaches(self, fi: FunctionInfo, target: str, _seen=None) -> bool:
        """Does fi (transitively, through direct package calls) call function `target`?"""
        _seen = _seen if _seen is not None else set()
        if fi.key in _seen:
            return False
        _seen.add(fi.key)
        for fr, _ in self.calls(fi):
            if fr.name == target:
                return True
            m = self.repo.modules.get(fr.module)
            if m and fr.name in m.funcs and self.reaches(m.funcs[fr.name], target, _seen):
                return True
        return False

    def own(self, fi: FunctionInfo) -> tuple[str, str, str]:
        """(tape, stack, cache) parameter names of a handler-shaped function."""
        if len(fi.params) < 3:
            raise AnalysisError(f'{fi.key} does not have the (tape, stack, cache) signature')
        return fi.params[0], fi.params[1], fi.params[2]

    def handler_call(self, fi: FunctionInfo, call: ast.Call):
        """If `call` calls a handler function: (callee info, tape arg, stack arg, cache arg)."""
        fr = self.resolve_call(fi, call)
        if fr is None or fr.module != 'functions' or fr.name not in self.handlers:
            return None
        callee = self.handlers[fr.name]
        if any(isinstance(a, ast.Starred) for a in call.args) or any(k.arg is None for k in call.keywords):
            raise AnalysisError(f'{fi.key}: handler {fr.name} called with an unrecognised '
                                f'argument shape at line {call.lineno}')
        # bind the (tape, stack, cache) parameters by position or by keyword; further (optional)
        # parameters of the callee are a matter for the rules that read the callee's body
        bound = dict(zip(callee.params, call.args))
        for k in call.keywords:
            bound[k.arg] = k.value
        try:
            return callee, bound[callee.params[0]], bound[callee.params[1]], bound[callee.params[2]]
        except (KeyError, IndexError):
            raise AnalysisError(f'{fi.key}: handler {fr.name} called with an unrecognised '
                                f'argument shape at line {call.lineno}')


def events(node_ast: ast.AST):
    """Evaluation-ordered events inside one CFG node's ast:
    ('call', Call) after its arguments; ('store', target, value); ('del', target);
    ('aug', AugAssign).  Nested function bodies are not entered."""
    out = []

    def expr(e):
        if e is None:
            return
        if isinstance(e, (ast.Lambda, ast.FunctionDef, ast.AsyncFunctionDef, ast.ClassDef)):
            return
        if isinstance(e, ast.Call):
            expr(e.func)
            for a in e.args:
                expr(a)
            for k in e.keywords:
                expr(k.value)
            out.append(('call', e))
            return
        for c in ast.iter_child_nodes(e):
            expr(c)

    n = node_ast
    if isinstance(n, ast.Assign):
        expr(n.value)
        for t in n.targets:
            for sub in ast.iter_child_nodes(t):
                expr(sub)
            out.append(('store', t, n.value))
    elif isinstance(n, ast.AnnAssign):
        expr(n.value)
        if n.value is not None:
            out.append(('store', n.target, n.value))
    elif isinstance(n, ast.AugAssign):
        expr(n.value)
        out.append(('aug', n))
    elif isinstance(n, ast.Delete):
        for t in n.targets:
            for sub in ast.iter_child_nodes(t):
                expr(sub)
            out.append(('del', t))
    elif isinstance(n, ast.For):
        expr(n.iter)
    elif isinstance(n, ast.With):
        for it in n.items:
            expr(it.context_expr)
    elif isinstance(n, ast.ExceptHandler):
        pass
    elif isinstance(n, (ast.FunctionDef, ast.AsyncFunctionDef, ast.ClassDef)):
        pass
    elif isinstance(n, ast.Return):
        expr(n.value)
        out.append(('return', n))
    else:
        expr(n)
    return out


def node_events(n: Node):
    if n.ast is None:
        return []
    if n.kind == 'for':
        return events(n.ast)
    if n.kind == 'except':
        return []
    return events(n.ast)


# ---------------------------------------------------------------------------
# tape-read shapes
# ---------------------------------------------------------------------------

class Read:
    """One read on a handler's own tape."""
    __slots__ = ('size', 'decode', 'prefix', 'line', 'node', 'kind')

    def __init__(self, size, decode, prefix, line, node, kind):
        self.size = size        # int for constant sizes, None for variable
        self.decode = decode    # how a variable size was decoded: 'uint' 'sint' 'byte' ...
        self.prefix = prefix    # width in bytes of the length prefix a variable read uses
        self.line = line
        self.node = node
        self.kind = kind        # the K of the size argument

    def token(self) -> str:
        if self.size is not None:
            return str(self.size)
        return f'n[{self.decode}{self.prefix if self.prefix is not None else "?"}]'

    def __repr__(self):
        return self.token()


def size_class(k: K) -> tuple[int | None, str, int | None]:
    """Classify the size argument of a read: (const size | None, decode, prefix width)."""
    if k.tag == 'const' and isinstance(k.value, int) and not isinstance(k.value, bool):
        return k.value, 'const', None
    if k.tag in ('uint', 'sint'):
        src = k.src
        w = None
        if src.tag == 'tape_read':
            sz = src.size
            if sz.tag == 'const' and isinstance(sz.value, int):
                w = sz.value
        elif src.tag == 'stack_item':
            return None, ('stack-' + k.tag), None
        if k.tag == 'uint' and k.get('order') not in ('big', None):
            return None, 'uint-' + str(k.get('order')), w
        return None, k.tag, w
    if k.tag == 'index':
        # x[0] where x = tape.read(1): an unsigned byte
        src, idx = k.src, k.index
        if src.tag == 'tape_read' and idx.tag == 'const' and isinstance(idx.value, int):
            sz = src.size
            if sz.tag == 'const' and isinstance(sz.value, int) and -sz.value <= idx.value < sz.value:
                if sz.value == 1:
                    return None, 'byte', 1
                return None, 'byte-of-' + str(sz.value), sz.value
        return None, 'index', None
    if k.tag == 'len':
        return None, 'len', None
    if k.tag == 'join':
        cl = {size_class(a) for a in k.alts}
        if len(cl) == 1:
            return cl.pop()
        return None, 'join(' + ','.join(sorted(c[1] for c in cl)) + ')', None
    if k.tag == 'binop':
        return None, 'arith', None
    return None, k.tag, None


def tape_reads(world: World, fi: FunctionInfo, tape_name: str | None = None,
               _depth: int = 0, include_peek: bool = False) -> list[list[Read]]:
    """For each normal-exit path class of `fi`, the ordered reads on its own tape
    (callee handlers given the same tape are inlined).  Returns the list of distinct
    read sequences over all entry->exit paths (exception exits excluded)."""
    if _depth > 4:
        raise AnalysisError(f'{fi.key}: handler inlining too deep')
    cfg = world.cfg(fi)
    kinds = world.kinds(fi)
    tape_name = tape_name or fi.params[0]

    def is_own(expr) -> bool:
        return isinstance(expr, ast.Name) and expr.id == tape_name and _is_param(cfg, expr, tape_name)

    per_node: dict[int, list] = {}
    for n in cfg.nodes:
        evs = []
        for ev in node_events(n):
            if ev[0] != 'call':
                continue
            c = ev[1]
            if isinstance(c.func, ast.Attribute) and c.func.attr in ('read', 'move_pointer') \
                    and is_own(c.func.value):
                mv = True
                if c.func.attr == 'read':
                    if len(c.args) >= 2:
                        mv = not (isinstance(c.args[1], ast.Constant) and not c.args[1].value)
                    for kw in c.keywords:
                        if kw.arg == 'move_pointer':
                            mv = not (isinstance(kw.value, ast.Constant) and not kw.value.value)
                if not mv and not include_peek:
                    continue
                arg = c.args[0] if c.args else None
                if arg is None:
                    for kw in c.keywords:
                        if kw.arg in ('size', 'n'):
                            arg = kw.value
                if arg is None:
                    raise AnalysisError(f'{fi.key}: read without size at line {c.lineno}')
                k = kinds.of(arg, n)
                size, decode, prefix = size_class(k)
                evs.append(('read', Read(size, decode, prefix, c.lineno, c, k)))
            else:
                hc = world.handler_call(fi, c) if isinstance(c.func, ast.Name) else None
                if hc is not None and is_own(hc[1]):
                    evs.append(('inline', hc[0]))
        per_node[n.id] = evs

    interesting = {i for i, e in per_node.items() if e}
    seqs: list[list[Read]] = []
    seen = set()
    # path enumeration restricted to decision points that matter: collapse by DFS with
    # memo on (node, reads-so-far signature)
    results = set()

    def rec(n: Node, acc: tuple, used: dict):
        evs = per_node.get(n.id, ())
        cur = [acc]
        for ev in evs:
            nxt = []
            if ev[0] == 'read':
                for a in cur:
                    nxt.append(a + (ev[1],))
            else:
                subs = tape_reads(world, ev[1], None, _depth + 1, include_peek)
                for a in cur:
                    for s in subs:
                        nxt.append(a + tuple(s))
            cur = nxt
        if n is cfg.exit:
            for a in cur:
                results.add(a)
            return
        if n.kind == 'raise':
            return
        for a in cur:
            for s, lab in n.succ:
                if lab == 'exc' or s.kind == 'except':
                    continue
                k = (n.id, s.id, lab)
                c = used.get(k, 0)
                if c >= 1:
                    continue
                used[k] = 1
                sig = (s.id, tuple(id(r) for r in a))
                if sig not in seen or s is cfg.exit:
                    seen.add(sig)
                    rec(s, a, used)
                used[k] = c
    rec(cfg.entry, (), {})
    uniq = {}
    for a in results:
        uniq[tuple(r.token() for r in a)] = list(a)
    return list(uniq.values())


def _is_param(cfg: CFG, name_node: ast.Name, pname: str) -> bool:
    """True when every reaching definition of the name at its use is the parameter."""
    n = cfg.node_of(name_node)
    if n is None:
        return pname in cfg.fi.params
    defs = cfg.defs_reaching(pname, n)
    return bool(defs) and all(how == 'param' for _, how, _ in defs)


def shape_tokens(reads: list[Read]) -> list[str]:
    return [r.token() for r in reads]


# ---------------------------------------------------------------------------
# match-statement label tables (compiler / decompiler dispatch)
# ---------------------------------------------------------------------------

def match_tables(fi: FunctionInfo) -> list[tuple[ast.Match, list[tuple[list, ast.match_case]]]]:
    """All `match` statements in fi with, per case, the list of constant labels
    (None for the wildcard)."""
    out = []
    for n in walk_no_nested(fi.node):
        if isinstance(n, ast.Match):
            cases = []
            for c in n.cases:
                cases.append((_pattern_labels(c.pattern), c))
            out.append((n, cases))
    return out


def _pattern_labels(p) -> list:
    if isinstance(p, ast.MatchValue) and isinstance(p.value, ast.Constant):
        return [p.value.value]
    if isinstance(p, ast.MatchOr):
        out = []
        for q in p.patterns:
            out += _pattern_labels(q)
        return out
    if isinstance(p, ast.MatchAs) and p.pattern is None:
        return [None]
    if isinstance(p, ast.MatchSingleton):
        return [p.value]
    raise AnalysisError(f'unrecognised match pattern {ast.dump(p)[:60]}')


# ---------------------------------------------------------------------------
# Tape construction sites
# ---------------------------------------------------------------------------

class TapeSite:
    """One `Tape(...)` construction with where it flows."""

    def __init__(self, fi, node, call):
        self.fi = fi
        self.node = node          # CFG node holding the construction
        self.call = call          # the ast.Call
        self.var = None           # local variable it is bound to (if any)
        self.roles = []           # [(role, cfg node, call)] role: exec operand plugin definition other
        self.attr_stores = {}     # attr -> [(cfg node, value ast)]
        self.kw = {k.arg: k.value for k in call.keywords if k.arg}
        self.pos = list(call.args)

    @property
    def line(self):
        return self.call.lineno

    def role(self):
        rs = {r for r, _, _ in self.roles}
        for pref in ('exec', 'definition', 'operand', 'plugin'):
            if pref in rs:
                return pref
        return 'other'

    def field_expr(self, name: str, tape_fields: list[str]):
        """The constructor expression for dataclass field `name` (keyword or positional)."""
        if name in self.kw:
            return self.kw[name]
        if name in tape_fields:
            i = tape_fields.index(name)
            if i < len(self.pos):
                return self.pos[i]
        return None


def tape_fields(world: World) -> list[str]:
    cd = world.repo.module('classes').classes.get('Tape')
    if cd is None:
        raise AnalysisError('class Tape vanished')
    out = []
    for st in cd.body:
        if isinstance(st, ast.AnnAssign) and isinstance(st.target, ast.Name):
            out.append(st.target.id)
    return out


def tape_sites(world: World, fi: FunctionInfo) -> list[TapeSite]:
    cfg = world.cfg(fi)
    sites = []
    for n, call in cfg.nodes_with_call(
            lambda c: isinstance(c.func, ast.Name) and c.func.id == 'Tape'):
        r = world.repo.resolve(fi.module.name, 'Tape')
        if not isinstance(r, ClassRef):
            continue
        s = TapeSite(fi, n, call)
        # direct argument of another call?
        par = cfg.parent.get(id(call))
        if isinstance(par, ast.Call) and call in par.args:
            s.roles.append((_call_role(world, fi, par, par.args.index(call)), n, par))
        elif isinstance(par, ast.Assign) and len(par.targets) == 1 and isinstance(par.targets[0], ast.Name):
            s.var = par.targets[0].id
        elif isinstance(par, ast.Assign) and len(par.targets) == 1 and isinstance(par.targets[0], ast.Subscript) \
                and isinstance(par.targets[0].value, ast.Attribute) and par.targets[0].value.attr == 'definitions':
            s.roles.append(('definition', n, par))
        elif isinstance(par, ast.keyword):
            s.roles.append(('other', n, par))
        else:
            s.roles.append(('other', n, par))
        if s.var:
            for m in cfg.nodes:
                if m.ast is None or m.kind == 'except':
                    continue
                # is this def among the reaching defs of var at m?
                uses = [x for x in ast.walk(m.ast if m.kind != 'for' else m.ast.iter)
                        if isinstance(x, ast.Name) and x.id == s.var and isinstance(x.ctx, ast.Load)]
                if not uses:
                    continue
                if n.id not in {d[0].id for d in cfg.defs_reaching(s.var, m)}:
                    continue
                for u in uses:
                    p = cfg.parent.get(id(u))
                    if isinstance(p, ast.Call) and u in p.args:
                        s.roles.append((_call_role(world, fi, p, p.args.index(u)), m, p))
                    elif isinstance(p, ast.Attribute) and isinstance(p.ctx, ast.Store):
                        gp = cfg.parent.get(id(p))
                        if isinstance(gp, ast.Assign):
                            s.attr_stores.setdefault(p.attr, []).append((m, gp.value))
                    elif isinstance(p, ast.Assign) and u is p.value:
                        for t in p.targets:
                            if isinstance(t, ast.Subscript) and isinstance(t.value, ast.Attribute) \
                                    and t.value.attr == 'definitions':
                                s.roles.append(('definition', m, p))
                    elif isinstance(p, ast.Return):
                        s.roles.append(('returned', m, p))
                    elif isinstance(p, ast.Tuple) and isinstance(cfg.parent.get(id(p)), ast.Return):
                        s.roles.append(('returned', m, p))
        sites.append(s)
    return sites


def _call_role(world: World, fi: FunctionInfo, call: ast.Call, argidx: int) -> str:
    name = dotted(call.func) or ''
    if name == 'run_tape' and argidx == 0:
        return 'exec'
    hc = None
    if isinstance(call.func, ast.Name):
        fr = world.resolve_call(fi, call)
        if fr is not None and fr.module == 'functions' and fr.name in world.handlers:
            hc = fr
    if hc is not None and argidx == 0:
        return 'operand'
    if name in ('run_plugins', 'run_sig_extensions'):
        return 'plugin'
    if name == 'set_tape_flags':
        return 'exec'
    if isinstance(call.func, ast.Attribute) and isinstance(call.func.value, ast.Attribute) and \
            call.func.value.attr == 'definitions' and call.func.attr in ('setdefault', '__setitem__'):
        return 'definition'
    return 'other'
