"""Finite-domain evaluation of pure Python expressions taken from the analysed source.

Many rules ask a question of the form "for which values of this byte / this length does the condition hold?".
Matching the *spelling* of the condition (`x & 0b100`, `(x >> 2) & 1`, `x & Flags.F3`, `bool(x & 4)`) is brittle;
the domain is tiny, so the question is decided by evaluating the expression for every value of the domain with a
small interpreter of expression syntax.  Nothing of the analysed program is executed: the interpreter below
implements integers, bytes, tuples, comparisons, boolean and bit operators, conditional expressions, a few pure
builtins and comprehensions over finite iterables, and gives up (`Unknown`) on anything else.
"""
from __future__ import annotations
import ast
import operator


class Unknown(Exception):
    pass


_BIN = {ast.Add: operator.add, ast.Sub: operator.sub, ast.Mult: operator.mul, ast.FloorDiv: operator.floordiv,
        ast.Mod: operator.mod, ast.BitAnd: operator.and_, ast.BitOr: operator.or_, ast.BitXor: operator.xor,
        ast.LShift: operator.lshift, ast.RShift: operator.rshift, ast.Pow: operator.pow}
_CMP = {ast.Eq: operator.eq, ast.NotEq: operator.ne, ast.Lt: operator.lt, ast.LtE: operator.le, ast.Gt: operator.gt,
        ast.GtE: operator.ge, ast.In: lambda a, b: a in b, ast.NotIn: lambda a, b: a not in b,
        ast.Is: operator.is_, ast.IsNot: operator.is_not}
_PURE = {'len': len, 'int': int, 'bool': bool, 'bytes': bytes, 'str': str, 'abs': abs, 'min': min, 'max': max, 'sum': sum,
         'any': any, 'all': all, 'range': range, 'tuple': tuple, 'list': list, 'set': frozenset, 'sorted': sorted,
         'divmod': divmod, 'ceil': lambda x: -(-x // 1) if isinstance(x, int) else __import__('math').ceil(x),
         'reversed': lambda x: tuple(reversed(x)), 'enumerate': lambda x, s=0: tuple(enumerate(x, s)),
         'zip': lambda *a: tuple(zip(*a))}
_OK_TYPES = (int, bool, bytes, tuple, list, frozenset, str, type(None), range)


def feval(e: ast.AST, env: dict, consts=None, depth: int = 0):
    """Value of expression `e` under `env` (name -> value).  `consts(text)` may resolve dotted names that are
    constants of the analysed program (module-level literals, enum members).  Raises Unknown."""
    if depth > 60:
        raise Unknown('too deep')
    ev = lambda x: feval(x, env, consts, depth + 1)
    if isinstance(e, ast.Constant):
        if isinstance(e.value, _OK_TYPES):
            return e.value
        raise Unknown('constant')
    if isinstance(e, ast.Name):
        if e.id in env:
            return env[e.id]
        if e.id in ('True', 'False', 'None'):
            return {'True': True, 'False': False, 'None': None}[e.id]
        if consts is not None:
            v = consts(e.id)
            if v is not None:
                return v
        raise Unknown(f'name {e.id}')
    if isinstance(e, ast.Attribute):
        txt = ast.unparse(e)
        if txt in env:
            return env[txt]
        if consts is not None:
            v = consts(txt)
            if v is not None:
                return v
        raise Unknown(f'attribute {txt}')
    if isinstance(e, ast.BinOp) and type(e.op) in _BIN:
        a, b = ev(e.left), ev(e.right)
        if isinstance(e.op, (ast.LShift, ast.Pow)) and isinstance(b, int) and (b > 4096 or b < 0):
            raise Unknown('huge shift')
        if isinstance(e.op, ast.Mult) and isinstance(a, (bytes, tuple, list)) and isinstance(b, int) and b > 4096:
            raise Unknown('huge repeat')
        try:
            return _BIN[type(e.op)](a, b)
        except Exception as x:
            raise Unknown(f'binop {x}')
    if isinstance(e, ast.UnaryOp):
        v = ev(e.operand)
        try:
            if isinstance(e.op, ast.Not):
                return not v
            if isinstance(e.op, ast.Invert):
                return ~v
            if isinstance(e.op, ast.USub):
                return -v
            if isinstance(e.op, ast.UAdd):
                return +v
        except Exception as x:
            raise Unknown(f'unary {x}')
    if isinstance(e, ast.BoolOp):
        v = None
        for x in e.values:
            v = ev(x)
            if isinstance(e.op, ast.And) and not v:
                return v
            if isinstance(e.op, ast.Or) and v:
                return v
        return v
    if isinstance(e, ast.Compare):
        left = ev(e.left)
        for op, c in zip(e.ops, e.comparators):
            right = ev(c)
            if type(op) not in _CMP:
                raise Unknown('compare op')
            try:
                if not _CMP[type(op)](left, right):
                    return False
            except Exception as x:
                raise Unknown(f'compare {x}')
            left = right
        return True
    if isinstance(e, ast.IfExp):
        return ev(e.body) if ev(e.test) else ev(e.orelse)
    if isinstance(e, (ast.Tuple, ast.List)):
        out = []
        for x in e.elts:
            if isinstance(x, ast.Starred):
                out += list(ev(x.value))
            else:
                out.append(ev(x))
        return tuple(out)
    if isinstance(e, ast.Set):
        return frozenset(ev(x) for x in e.elts)
    if isinstance(e, ast.Subscript):
        v = ev(e.value)
        try:
            if isinstance(e.slice, ast.Slice):
                lo = ev(e.slice.lower) if e.slice.lower is not None else None
                hi = ev(e.slice.upper) if e.slice.upper is not None else None
                st = ev(e.slice.step) if e.slice.step is not None else None
                return v[lo:hi:st]
            return v[ev(e.slice)]
        except Unknown:
            raise
        except Exception as x:
            raise Unknown(f'subscript {x}')
    if isinstance(e, ast.Call):
        f = e.func
        if any(isinstance(a, ast.Starred) for a in e.args) or any(k.arg is None for k in e.keywords):
            raise Unknown('star call')
        args = [ev(a) for a in e.args]
        kws = {k.arg: ev(k.value) for k in e.keywords}
        try:
            if isinstance(f, ast.Name) and f.id in _PURE and f.id not in env:
                if f.id == 'range' and args and max(abs(a) for a in args) > 100000:
                    raise Unknown('huge range')
                return _PURE[f.id](*args, **kws)
            if isinstance(f, ast.Attribute):
                if ast.unparse(f) == 'int.from_bytes':
                    return int.from_bytes(*args, **kws)
                recv = ev(f.value)
                if isinstance(recv, int) and f.attr in ('to_bytes', 'bit_length', 'bit_count'):
                    return getattr(recv, f.attr)(*args, **kws)
                if isinstance(recv, bytes) and f.attr in ('hex', 'startswith', 'endswith', 'count', 'index', 'rjust', 'ljust'):
                    return getattr(recv, f.attr)(*args, **kws)
                if isinstance(recv, (tuple, list)) and f.attr in ('count', 'index'):
                    return getattr(recv, f.attr)(*args, **kws)
        except Unknown:
            raise
        except Exception as x:
            raise Unknown(f'call {x}')
        raise Unknown(f'call {ast.unparse(f)[:30]}')
    if isinstance(e, (ast.GeneratorExp, ast.ListComp, ast.SetComp)):
        out = []

        def rec(gi, env2):
            if gi == len(e.generators):
                out.append(feval(e.elt, env2, consts, depth + 1))
                return
            g = e.generators[gi]
            it = feval(g.iter, env2, consts, depth + 1)
            n = 0
            for v in it:
                n += 1
                if n > 5000:
                    raise Unknown('long iteration')
                env3 = dict(env2)
                _bind(g.target, v, env3)
                if all(feval(c, env3, consts, depth + 1) for c in g.ifs):
                    rec(gi + 1, env3)
        rec(0, dict(env))
        return tuple(out) if not isinstance(e, ast.SetComp) else frozenset(out)
    if isinstance(e, ast.NamedExpr) and isinstance(e.target, ast.Name):
        v = ev(e.value)
        env[e.target.id] = v
        return v
    raise Unknown(type(e).__name__)


def _bind(target, value, env):
    if isinstance(target, ast.Name):
        env[target.id] = value
    elif isinstance(target, (ast.Tuple, ast.List)):
        vals = list(value)
        if len(vals) != len(target.elts):
            raise Unknown('unpack')
        for t, v in zip(target.elts, vals):
            _bind(t, v, env)
    else:
        raise Unknown('target')


def free_names(e: ast.AST) -> set[str]:
    bound = set()
    for n in ast.walk(e):
        if isinstance(n, ast.comprehension):
            for x in ast.walk(n.target):
                if isinstance(x, ast.Name):
                    bound.add(x.id)
    return {n.id for n in ast.walk(e) if isinstance(n, ast.Name) and isinstance(n.ctx, ast.Load)} - bound - set(_PURE) - \
        {'True', 'False', 'None', 'int'}


def truth_table(e: ast.AST, var: str, domain, consts=None, extra_env=None):
    """[bool(e) for v in domain] with `var` bound to v; None when the expression cannot be evaluated."""
    out = []
    for v in domain:
        env = dict(extra_env or {})
        env[var] = v
        try:
            out.append(bool(feval(e, env, consts)))
        except Unknown:
            return None
    return out


def byte_mask(e: ast.AST, var: str, consts=None):
    """The mask m such that, for every byte value v, bool(e[v]) == bool(v & m) - or None.  (m may be 0 only for a
    constantly false expression, which is reported as None.)"""
    tt = truth_table(e, var, range(256), consts)
    if tt is None:
        return None
    m = 0
    for b in range(8):
        if tt[1 << b]:
            m |= 1 << b
    if m == 0:
        return None
    if all(tt[v] == bool(v & m) for v in range(256)):
        return m
    return None


def module_consts(repo, module: str):
    """Resolver for names that are constants of the analysed program: module-level `NAME = <int/bytes/str literal
    or arithmetic on such>` and members of IntFlag / IntEnum / Flag / Enum classes (`auto()` numbered the enum way)."""
    m = repo.modules.get(module)
    table: dict[str, object] = {}
    if m is None:
        return lambda t: None
    for st in m.tree.body:
        if isinstance(st, ast.Assign) and len(st.targets) == 1 and isinstance(st.targets[0], ast.Name):
            try:
                table[st.targets[0].id] = feval(st.value, {}, lambda t: table.get(t))
            except Unknown:
                pass
        if isinstance(st, ast.ClassDef) and any(isinstance(b, (ast.Name, ast.Attribute)) and
                                                ast.unparse(b).split('.')[-1] in ('IntFlag', 'IntEnum', 'Flag', 'Enum')
                                                for b in st.bases):
            flag = any(ast.unparse(b).split('.')[-1] in ('IntFlag', 'Flag') for b in st.bases)
            last = 0
            for s2 in st.body:
                if isinstance(s2, ast.Assign) and len(s2.targets) == 1 and isinstance(s2.targets[0], ast.Name):
                    v = None
                    if isinstance(s2.value, ast.Call) and ast.unparse(s2.value.func).split('.')[-1] == 'auto':
                        v = (1 if last == 0 else 1 << last.bit_length()) if flag else last + 1
                    else:
                        try:
                            local = {k.split('.', 1)[1]: x for k, x in table.items() if k.startswith(st.name + '.')}
                            v = feval(s2.value, local, lambda t: table.get(t))
                        except Unknown:
                            v = None
                    if isinstance(v, int):
                        table[f'{st.name}.{s2.targets[0].id}'] = v
                        last = v
    return lambda t: table.get(t)
