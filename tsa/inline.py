"""Normalisation pass: see through *helper extraction*.

The rules read handlers, drivers and the Tape/Stack methods.  A refactor that moves part of a handler
into a new helper function (`_eval_script(tape, script, stack, cache)`) or into a new method of
Stack/Tape (`stack.drop(count)`) leaves behaviour unchanged but hides the moved statements from every
rule that reads the handler's own body.  This pass puts them back: before anything is indexed, calls
to such helpers are replaced by the helper's body (parameters substituted, locals renamed, early
returns turned into if/else), to a fixpoint.

What is inlined (structural criteria, evaluated on the tree being analysed):
  * functions of functions.py that are not dispatch targets (not referenced from a module-level table),
    are not one of the functions the analyser models by name (MODELLED), and take VM state - a parameter
    annotated Tape or Stack, or an argument that is the caller's Tape/Stack at some call site;
  * methods of Tape / Stack that are not among the primitive methods the analyser models by name.
On today's tree nothing qualifies: the pass is the identity.  A helper that qualifies but cannot be
inlined (recursion, return inside a loop/try, call nested inside a larger expression, *args) is
recorded in `notes['opaque']`; VM-side checks then refuse to decide (exit 2) rather than treat the
call as effect-free.
"""
from __future__ import annotations
import ast
import copy

# module-level functions of functions.py the analyser has models for (by name).  Anything else that
# is called from VM code is looked into.
MODELLED = {'bytes_to_int', 'int_to_bytes', 'uint_to_bytes', 'bytes_to_bool', 'bytes_to_float', 'float_to_bytes',
            'clamp_scalar', 'H_big', 'H_small', 'derive_key_from_seed', 'derive_point_from_scalar',
            'aggregate_points', 'aggregate_scalars', 'sign_with_scalar', 'not_bytes', 'xor', 'or_bytes',
            'and_bytes', 'bytes_are_same', '_check_contract', 'add_contract', 'remove_contract',
            'add_contract_interface', 'remove_contract_interface', 'add_opcode', 'add_alias', 'add_plugin',
            'remove_plugin', 'reset_plugins', 'run_plugins', 'add_signature_extension',
            'remove_signature_extension', 'reset_signature_extensions', 'run_sig_extensions', 'set_tape_flags',
            'run_tape', 'run_script', 'run_auth_scripts', 'run_auth_script'}
API_PREFIXES = ('add_', 'remove_', 'reset_')
# parsing.py: the functions the compiler / decompiler rules know by name
MODELLED_PARSING = {'is_hex', 'get_symbols', 'define_macro', 'invoke_macro', 'set_variable', 'load_variable',
                    'size_variable', 'add_opcode_parsing_handlers', '_get_additional_opcode_args', '_get_OP_PUSH_args',
                    '_get_OP_WRITE_CACHE_args', '_get_OP_PUSH0_type_args', '_get_OP_PUSH1_type_args',
                    '_get_OP_PUSH2_args', '_get_OP_DIV_FLOAT_args', '_get_OP_SWAP_type_args',
                    '_get_OP_CHECK_MULTISIG_args', '_get_OP_MERKLEVAL_args', '_get_nopcode_args', 'get_args',
                    'parse_def', 'parse_if', 'parse_else', 'parse_try', 'parse_except', 'parse_loop', 'parse_next',
                    '_find_matching_brace', 'compile_script', 'parse_comptime', 'assemble', 'decompile_script'}
KNOWN = {'functions': MODELLED, 'parsing': MODELLED_PARSING, 'classes': set()}
# module-level names the rules refer to by name: never replaced by their value
KEEP_NAMES = {'_special_symbols', '_RETURNED', 'opcodes', 'nopcodes', 'opcodes_inverse', 'nopcodes_inverse', 'opcode_aliases',
              'flags', 'flags_to_set', '_plugins', '_contracts', '_contract_interfaces', 'additional_opcodes'}
PRIMITIVE_METHODS = {
    'Tape': {'read', 'move_pointer', 'reset_pointer', 'reset', 'has_terminated', 'remaining', '__init__',
             '__post_init__'},
    'Stack': {'__init__', 'get', 'put', 'size', '__len__', 'list', 'empty', 'peek'},
}
VM_CLASSES = ('Tape', 'Stack')


class NotInlinable(Exception):
    pass


def _ann_class(a: ast.AST | None) -> str | None:
    """'Tape'/'Stack' when the annotation is that class (or a union containing it)."""
    if a is None:
        return None
    if isinstance(a, ast.Constant) and isinstance(a.value, str):
        try:
            a = ast.parse(a.value, mode='eval').body
        except SyntaxError:
            return None
    if isinstance(a, ast.Name) and a.id in VM_CLASSES:
        return a.id
    if isinstance(a, ast.BinOp) and isinstance(a.op, ast.BitOr):
        return _ann_class(a.left) or _ann_class(a.right)
    return None


def _contains(node, kinds) -> bool:
    return any(isinstance(n, kinds) for n in ast.walk(node))


def _returns_in(stmts) -> bool:
    for s in stmts:
        for n in ast.walk(s):
            if isinstance(n, ast.Return):
                return True
    return False


class _Renamer(ast.NodeTransformer):
    def __init__(self, subst: dict[str, ast.AST], rename: dict[str, str]):
        self.subst = subst
        self.rename = rename

    def visit_Name(self, n: ast.Name):
        if n.id in self.subst and isinstance(n.ctx, ast.Load):
            return ast.copy_location(copy.deepcopy(self.subst[n.id]), n)
        if n.id in self.rename:
            return ast.copy_location(ast.Name(id=self.rename[n.id], ctx=n.ctx), n)
        return n

    def visit_arg(self, n: ast.arg):
        return n

    def visit_ExceptHandler(self, n: ast.ExceptHandler):
        if n.name and n.name in self.rename:
            n.name = self.rename[n.name]
        self.generic_visit(n)
        return n


def _stored_names(fn: ast.FunctionDef) -> set[str]:
    out = set()
    for n in ast.walk(fn):
        if isinstance(n, ast.Name) and isinstance(n.ctx, (ast.Store, ast.Del)):
            out.add(n.id)
        elif isinstance(n, ast.ExceptHandler) and n.name:
            out.add(n.name)
    return out


_NO_EFFECT_CALLS = {'len', 'int', 'bytes', 'bool', 'str', 'type', 'isinstance', 'range', 'min', 'max', 'abs', 'sum', 'sorted',
                    'list', 'tuple', 'set', 'dict', 'enumerate', 'zip', 'reversed', 'any', 'all', 'callable', 'hasattr',
                    'getattr', 'repr', 'hex', 'ord', 'chr', 'float', 'divmod', 'round',
                    'sert', 'vert', 'tert', 'yert', 'bytes_to_int', 'int_to_bytes', 'uint_to_bytes', 'bytes_to_bool',
                    'bytes_to_float', 'float_to_bytes', 'sha256', 'shake_256', 'clamp_scalar', 'derive_key_from_seed',
                    'derive_point_from_scalar', 'aggregate_points', 'aggregate_scalars', 'sign_with_scalar', 'xor',
                    'not_bytes', 'and_bytes', 'or_bytes', 'bytes_are_same', 'H_big', 'H_small', 'ceil', 'floor', 'log2',
                    'isnan', 'time', 'warn'}


def _path_root(e: ast.AST) -> str | None:
    while isinstance(e, (ast.Attribute, ast.Subscript)):
        e = e.value
    return e.id if isinstance(e, ast.Name) else None


def _path_may_change(e: ast.AST, stmts) -> bool:
    """Can executing `stmts` change what the attribute path `e` (a.b.c) evaluates to?  Writes to the path, to a prefix
    or to an extension of it, and any call that receives the path's root object (or is a method of a prefix)."""
    te = ast.unparse(e)
    root = _path_root(e)
    for s in stmts:
        for n in ast.walk(s):
            if isinstance(n, (ast.Attribute, ast.Subscript, ast.Name)) and isinstance(getattr(n, 'ctx', None), (ast.Store, ast.Del)):
                t = ast.unparse(n)
                if t == te or te.startswith(t + '.') or te.startswith(t + '[') or t.startswith(te + '.') or t.startswith(te + '['):
                    return True
            if isinstance(n, ast.Call):
                if isinstance(n.func, ast.Name) and n.func.id in _NO_EFFECT_CALLS:
                    continue
                if isinstance(n.func, ast.Attribute):
                    recv = ast.unparse(n.func.value)
                    if te == recv or te.startswith(recv + '.') or te.startswith(recv + '['):
                        # reading methods of the VM classes do not change their object
                        if n.func.attr not in ('peek', 'size', 'has_terminated', 'hex', 'get', 'keys', 'values', 'items',
                                               'copy', 'digest', 'to_bytes', 'from_bytes', 'lower', 'upper', 'index',
                                               'count', 'startswith', 'endswith', 'encode', 'decode') or recv == root and \
                                n.func.attr == 'get':
                            return True
                for a in list(n.args) + [k.value for k in n.keywords]:
                    if isinstance(a, ast.Name) and a.id == root:
                        return True
    return False


def _simple_arg(e: ast.AST) -> bool:
    if isinstance(e, (ast.Name, ast.Constant)):
        return True
    if isinstance(e, ast.Attribute):
        return _simple_arg(e.value)
    return False


class Inliner:
    def __init__(self, modules: dict):
        self.modules = modules
        self.notes = {'inlined': [], 'opaque': [], 'removed': []}
        self.counter = 0
        self.fn_helpers: dict[str, ast.FunctionDef] = {}
        self.method_helpers: dict[tuple[str, str], ast.FunctionDef] = {}

    # ------------------------------------------------------------------
    def run(self):
        fm = self.modules.get('functions')
        cm = self.modules.get('classes')
        if fm is None or cm is None:
            return self.notes
        self._discover(fm, cm)
        self.module_helpers = {'functions': dict(self.fn_helpers)}
        for mn in ('classes', 'parsing'):
            m = self.modules.get(mn)
            if m is not None:
                self.module_helpers[mn] = self._discover_module(m, KNOWN[mn])
        if not any(self.module_helpers.values()) and not self.method_helpers:
            return self.notes
        for mn in ('functions', 'classes', 'parsing'):
            m = self.modules.get(mn)
            if m is None:
                continue
            self.fn_helpers = self.module_helpers.get(mn, {})
            self._cur_module = mn
            for fn in self._all_defs(m.tree):
                self._inline_into(fn, m, chain=(fn.name,))
            self._remove_unreferenced_in(m, self.fn_helpers)
        self.fn_helpers = self.module_helpers.get('functions', {})
        self._remove_unreferenced(fm, cm)
        return self.notes

    def _discover_module(self, m, known: set) -> dict:
        """New module-level helper functions of a module: not known to the rules by name, not referenced from a
        module-level table, and called from inside the module."""
        table_refs = set()
        for st in m.tree.body:
            if not isinstance(st, (ast.FunctionDef, ast.ClassDef, ast.Import, ast.ImportFrom)):
                for n in ast.walk(st):
                    if isinstance(n, ast.Name):
                        table_refs.add(n.id)
        defs = {st.name: st for st in m.tree.body if isinstance(st, ast.FunctionDef)}
        called = {n.func.id for n in ast.walk(m.tree) if isinstance(n, ast.Call) and isinstance(n.func, ast.Name)}
        return {name: fn for name, fn in defs.items()
                if name not in known and name not in table_refs and name in called and not name.startswith(API_PREFIXES)}

    def _remove_unreferenced_in(self, m, helpers: dict):
        used = set()
        for mod in self.modules.values():
            for n in ast.walk(mod.tree):
                if isinstance(n, ast.Name):
                    used.add(n.id)
                elif isinstance(n, ast.alias):
                    used.add(n.name)
        inlined = {x.split(' into ')[0] for x in self.notes['inlined']}
        for name, fn in helpers.items():
            if name in inlined and name not in used and fn in m.tree.body:
                m.tree.body.remove(fn)
                self.notes['removed'].append(name)

    @staticmethod
    def _all_defs(tree):
        out = []
        for st in tree.body:
            if isinstance(st, ast.FunctionDef):
                out.append(st)
            elif isinstance(st, ast.ClassDef):
                out += [x for x in st.body if isinstance(x, ast.FunctionDef)]
        return out

    # ------------------------------------------------------------------
    def _discover(self, fm, cm):
        table_refs = set()
        for st in fm.tree.body:
            if not isinstance(st, (ast.FunctionDef, ast.ClassDef, ast.Import, ast.ImportFrom)):
                for n in ast.walk(st):
                    if isinstance(n, ast.Name):
                        table_refs.add(n.id)
        defs = {st.name: st for st in fm.tree.body if isinstance(st, ast.FunctionDef)}
        # call-site typing: which functions receive a caller's Tape/Stack?
        receives_vm = set()
        for fn in self._all_defs(fm.tree):
            env = self._type_env(fn, None)
            for n in ast.walk(fn):
                if isinstance(n, ast.Call) and isinstance(n.func, ast.Name) and n.func.id in defs:
                    for a in list(n.args) + [k.value for k in n.keywords]:
                        if isinstance(a, ast.Name) and env.get(a.id) in VM_CLASSES:
                            receives_vm.add(n.func.id)
        called = set()
        for m in (fm, cm):
            for n in ast.walk(m.tree):
                if isinstance(n, ast.Call) and isinstance(n.func, ast.Name):
                    called.add(n.func.id)
        for name, fn in defs.items():
            if name in table_refs or name in MODELLED or name.startswith(API_PREFIXES):
                continue
            if name not in called:
                continue
            self.fn_helpers[name] = fn
        for st in cm.tree.body:
            if isinstance(st, ast.ClassDef) and st.name in VM_CLASSES:
                for x in st.body:
                    if isinstance(x, ast.FunctionDef) and x.name not in PRIMITIVE_METHODS[st.name] \
                            and not x.decorator_list:
                        self.method_helpers[(st.name, x.name)] = x

    def _type_env(self, fn: ast.FunctionDef, cls: str | None) -> dict[str, str]:
        env: dict[str, str | None] = {}
        args = fn.args.posonlyargs + fn.args.args + fn.args.kwonlyargs
        for a in args:
            c = _ann_class(a.annotation)
            if c:
                env[a.arg] = c
        if cls and args and args[0].arg == 'self':
            env['self'] = cls
        for n in ast.walk(fn):
            if isinstance(n, ast.Assign) and len(n.targets) == 1 and isinstance(n.targets[0], ast.Name):
                nm = n.targets[0].id
                c = None
                if isinstance(n.value, ast.Call) and isinstance(n.value.func, ast.Name) and n.value.func.id in VM_CLASSES:
                    c = n.value.func.id
                if nm in env and env[nm] != c:
                    env[nm] = None if nm not in [a.arg for a in args] else env[nm]
                elif nm not in env:
                    env[nm] = c
        return {k: v for k, v in env.items() if v}

    # ------------------------------------------------------------------
    def _inline_expr_helpers(self, fn: ast.FunctionDef):
        """A helper whose whole body is `return <expression>` is a named expression: every call with simple
        arguments is replaced by the expression itself, wherever it stands (no hoisting, so conditional
        positions are fine)."""
        import copy as _copy
        outer = self

        def simple(e):
            if isinstance(e, (ast.Name, ast.Constant)):
                return True
            if isinstance(e, ast.Attribute):
                return simple(e.value)
            if isinstance(e, ast.Subscript):
                return simple(e.value) and (isinstance(e.slice, (ast.Constant, ast.Name)) or
                                            (isinstance(e.slice, ast.UnaryOp) and isinstance(e.slice.operand, ast.Constant)))
            return False

        class T(ast.NodeTransformer):
            changed = False

            def visit_Call(self, n):
                self.generic_visit(n)
                if not (isinstance(n.func, ast.Name) and n.func.id in outer.fn_helpers):
                    return n
                h = outer.fn_helpers[n.func.id]
                if h is fn:
                    return n
                body = [b for b in h.body if not (isinstance(b, ast.Expr) and isinstance(b.value, ast.Constant))]
                a = h.args
                if len(body) != 1 or not isinstance(body[0], ast.Return) or body[0].value is None or a.vararg or a.kwarg \
                        or a.kwonlyargs or h.decorator_list or n.keywords or any(isinstance(x, ast.Starred) for x in n.args):
                    return n
                params = [x.arg for x in a.posonlyargs + a.args]
                if len(n.args) > len(params):
                    return n
                bound = dict(zip(params, n.args))
                pos = a.posonlyargs + a.args
                for p, d in zip(pos[len(pos) - len(a.defaults):], a.defaults):
                    bound.setdefault(p.arg, d)
                if set(bound) != set(params) or not all(simple(v) for v in bound.values()):
                    return n
                expr = _copy.deepcopy(body[0].value)
                if any(isinstance(x, (ast.Lambda, ast.Yield, ast.Await, ast.NamedExpr, ast.ListComp, ast.GeneratorExp,
                                      ast.SetComp, ast.DictComp)) for x in ast.walk(expr)):
                    return n

                class S(ast.NodeTransformer):
                    def visit_Name(self2, x):
                        if isinstance(x.ctx, ast.Load) and x.id in bound:
                            return ast.copy_location(_copy.deepcopy(bound[x.id]), x)
                        return x
                expr = S().visit(expr)
                for x in ast.walk(expr):
                    ast.copy_location(x, n)
                T.changed = True
                outer.notes['inlined'].append(f'{n.func.id} into {fn.name} (line {n.lineno}, expression)')
                return expr
        t = T()
        for _ in range(4):
            T.changed = False
            fn.body = [t.visit(b) for b in fn.body]
            if not T.changed:
                break
        ast.fix_missing_locations(fn)

    def _inline_into(self, fn: ast.FunctionDef, module, chain, depth=0):
        self._inline_expr_helpers(fn)
        cls = None
        for st in module.tree.body:
            if isinstance(st, ast.ClassDef) and fn in st.body:
                cls = st.name
        changed = True
        rounds = 0
        while changed and rounds < 6:
            rounds += 1
            env = self._type_env(fn, cls)
            self._tails = _tail_positions(fn.body)
            fn.body, changed = self._inline_block(fn.body, env, fn, chain)
        # whatever candidate call is left is opaque
        env = self._type_env(fn, cls)
        for n in ast.walk(fn):
            if isinstance(n, ast.Call):
                tgt = self._target(n, env)
                if tgt is not None and tgt[1] is not fn:
                    self.notes['opaque'].append(f'{module.name}.{fn.name}: call to {tgt[0]} at line {n.lineno} could not be inlined')

    def _target(self, call: ast.Call, env):
        f = call.func
        if isinstance(f, ast.Name) and f.id in self.fn_helpers:
            return (f.id, self.fn_helpers[f.id], None)
        if isinstance(f, ast.Attribute) and isinstance(f.value, ast.Name):
            c = env.get(f.value.id)
            if c and (c, f.attr) in self.method_helpers:
                return (f'{c}.{f.attr}', self.method_helpers[(c, f.attr)], f.value)
        return None

    def _inline_block(self, stmts, env, fn, chain):
        out = []
        changed = False
        for s in stmts:
            # recurse into compound statements first
            for fld in ('body', 'orelse', 'finalbody'):
                sub = getattr(s, fld, None)
                if isinstance(sub, list) and sub and isinstance(sub[0], ast.stmt):
                    nb, ch = self._inline_block(sub, env, fn, chain)
                    setattr(s, fld, nb)
                    changed = changed or ch
            for h in getattr(s, 'handlers', []) or []:
                nb, ch = self._inline_block(h.body, env, fn, chain)
                h.body = nb
                changed = changed or ch
            for c in getattr(s, 'cases', []) or []:
                nb, ch = self._inline_block(c.body, env, fn, chain)
                c.body = nb
                changed = changed or ch
            hoisted = self._hoist(s, env)
            if hoisted is not None:
                # `tmp = helper(...)` placed before the statement; expand it right away
                tmp_assign, tgt_h = hoisted
                try:
                    repl = self._expand(tmp_assign.value, tgt_h, 'assign', tmp_assign.targets[0], tmp_assign)
                    self.notes['inlined'].append(f'{tgt_h[0]} into {fn.name} (line {tmp_assign.value.lineno}, hoisted)')
                    out += repl
                except NotInlinable as e:
                    self.notes['opaque'].append(f'{self._cur_module}.{fn.name}: call to {tgt_h[0]} at line {tmp_assign.value.lineno}: {e}')
                    out.append(tmp_assign)
                out.append(s)
                changed = True
                continue
            call, mode, target = None, None, None
            if isinstance(s, ast.Expr) and isinstance(s.value, ast.Call):
                call, mode = s.value, 'expr'
            elif isinstance(s, ast.Assign) and len(s.targets) == 1 and isinstance(s.value, ast.Call):
                call, mode, target = s.value, 'assign', s.targets[0]
            elif isinstance(s, ast.Return) and isinstance(s.value, ast.Call):
                call, mode = s.value, 'return'
            tgt = self._target(call, env) if call is not None else None
            if tgt is None or tgt[1] is fn or tgt[0] in chain:
                out.append(s)
                continue
            try:
                if mode == 'expr' and id(s) in getattr(self, '_tails', ()):
                    # last thing the caller does: a `return` of the helper is a `return` of the caller
                    repl = self._expand(call, tgt, 'tail', target, s)
                else:
                    repl = self._expand(call, tgt, mode, target, s)
            except NotInlinable as e:
                self.notes['opaque'].append(f'{self._cur_module}.{fn.name}: call to {tgt[0]} at line {call.lineno}: {e}')
                out.append(s)
                continue
            self.notes['inlined'].append(f'{tgt[0]} into {fn.name} (line {call.lineno})')
            out += repl
            changed = True
        return out, changed

    # ------------------------------------------------------------------
    def _hoist(self, s: ast.stmt, env):
        """A helper call nested inside the header expression of statement `s`, in an unconditional
        position with nothing impure evaluated before it: replace it by a fresh name and return
        (`tmp = call` statement, target).  None when there is nothing to hoist."""
        roots = []
        if isinstance(s, (ast.Expr, ast.Return)) and s.value is not None:
            if isinstance(s.value, ast.Call) and self._target(s.value, env):
                return None                    # handled directly
            roots = [s.value]
        elif isinstance(s, ast.Assign):
            if isinstance(s.value, ast.Call) and self._target(s.value, env) and len(s.targets) == 1:
                return None
            roots = [s.value]
        elif isinstance(s, ast.AnnAssign) and s.value is not None:
            roots = [s.value]
        elif isinstance(s, ast.AugAssign) and isinstance(s.target, ast.Name):
            roots = [s.value]
        elif isinstance(s, (ast.If, ast.Assert)):
            roots = [s.test]
        elif isinstance(s, ast.For):
            roots = [s.iter]
        if not roots:
            return None
        state = {'impure': False, 'found': None, 'blocked': False}

        def visit(e, cond):
            if state['found'] is not None or state['blocked'] or e is None:
                return
            if isinstance(e, ast.Call):
                visit(e.func, cond)
                for a in e.args:
                    visit(a, cond)
                for k in e.keywords:
                    visit(k.value, cond)
                if state['found'] is not None or state['blocked']:
                    return
                if self._target(e, env) is not None:
                    if cond or state['impure']:
                        state['blocked'] = True
                    else:
                        state['found'] = e
                    return
                state['impure'] = True
                return
            if isinstance(e, ast.IfExp):
                visit(e.test, cond)
                visit(e.body, True)
                visit(e.orelse, True)
                return
            if isinstance(e, ast.BoolOp):
                visit(e.values[0], cond)
                for v in e.values[1:]:
                    visit(v, True)
                return
            if isinstance(e, (ast.Lambda, ast.ListComp, ast.SetComp, ast.DictComp, ast.GeneratorExp)):
                for ch in ast.walk(e):
                    if isinstance(ch, ast.Call) and self._target(ch, env) is not None:
                        state['blocked'] = True
                return
            for ch in ast.iter_child_nodes(e):
                if isinstance(ch, ast.expr):
                    visit(ch, cond)

        for r in roots:
            visit(r, False)
        call = state['found']
        if call is None:
            return None
        self.counter += 1
        tmp = f'hoist__i{self.counter}'
        tgt = self._target(call, env)

        class Rep(ast.NodeTransformer):
            def visit_Call(self2, n):
                if n is call:
                    return ast.copy_location(ast.Name(id=tmp, ctx=ast.Load()), n)
                self2.generic_visit(n)
                return n
        for fld in ('value', 'test', 'iter'):
            v = getattr(s, fld, None)
            if isinstance(v, ast.expr):
                setattr(s, fld, Rep().visit(v))
        asg = ast.Assign(targets=[ast.Name(id=tmp, ctx=ast.Store())], value=call)
        ast.copy_location(asg, call)
        ast.fix_missing_locations(asg)
        return asg, tgt

    # ------------------------------------------------------------------
    def _expand(self, call: ast.Call, tgt, mode, target, stmt):
        name, hfn, recv = tgt
        a = hfn.args
        if a.vararg or a.kwarg or hfn.decorator_list:
            raise NotInlinable('*args/**kwargs/decorator')
        if any(isinstance(x, ast.Starred) for x in call.args) or any(k.arg is None for k in call.keywords):
            raise NotInlinable('star arguments at the call site')
        if _contains(hfn, (ast.Yield, ast.YieldFrom, ast.Global, ast.Nonlocal, ast.Await)):
            raise NotInlinable('yield/global/nonlocal')
        for n in ast.walk(hfn):
            if n is not hfn and isinstance(n, (ast.FunctionDef, ast.AsyncFunctionDef, ast.Lambda, ast.ClassDef)):
                raise NotInlinable('nested definition')
        self.counter += 1
        tag = f'__i{self.counter}'
        params = [x.arg for x in a.posonlyargs + a.args]
        kwonly = [x.arg for x in a.kwonlyargs]
        bound: dict[str, ast.AST] = {}
        actuals = list(call.args)
        if recv is not None:
            actuals = [recv] + actuals
        if len(actuals) > len(params):
            raise NotInlinable('too many positional arguments')
        for p, e in zip(params, actuals):
            bound[p] = e
        for k in call.keywords:
            if k.arg in bound or k.arg not in params + kwonly:
                raise NotInlinable(f'unexpected keyword {k.arg}')
            bound[k.arg] = k.value
        pos = a.posonlyargs + a.args
        for p, d in zip(pos[len(pos) - len(a.defaults):], a.defaults):
            bound.setdefault(p.arg, d)
        for p, d in zip(a.kwonlyargs, a.kw_defaults):
            if d is not None:
                bound.setdefault(p.arg, d)
        missing = [p for p in params + kwonly if p not in bound]
        if missing:
            raise NotInlinable(f'unbound parameters {missing}')
        stored = _stored_names(hfn)
        forced_temp: set[str] = set()
        for _attempt in range(len(params) + len(kwonly) + 1):
            subst: dict[str, ast.AST] = {}
            rename: dict[str, str] = {}
            pre: list[ast.stmt] = []
            for p in params + kwonly:
                e = bound[p]
                if _simple_arg(e) and p not in stored and p not in forced_temp:
                    subst[p] = e
                else:
                    rename[p] = p + tag
                    asg = ast.Assign(targets=[ast.Name(id=p + tag, ctx=ast.Store())], value=copy.deepcopy(e))
                    pre.append(ast.copy_location(asg, call))
            for nm in stored:
                if nm not in rename and nm not in subst:
                    rename[nm] = nm + tag
            body = copy.deepcopy(hfn.body)
            if body and isinstance(body[0], ast.Expr) and isinstance(body[0].value, ast.Constant) and \
                    isinstance(body[0].value.value, str):
                body = body[1:]
            ren = _Renamer(subst, rename)
            body = [ren.visit(s) for s in body]
            # an attribute path handed in by value (`helper(t, t.pointer)`) must not be read as the live path when
            # the helper writes it or passes its owner on: bind it to a temporary instead
            unsafe = [p for p, e in subst.items() if isinstance(e, ast.Attribute) and _path_may_change(e, body)]
            if not unsafe:
                break
            forced_temp |= set(unsafe)
        ret_target = None
        post: list[ast.stmt] = []
        if mode == 'assign':
            ret_target = target
        elif mode == 'return':
            pass        # handled below: the helper's returns become the caller's
        if mode in ('tail', 'return'):
            # the caller returns whatever the helper returns (tail: the value is dropped, the caller returns None)
            if mode == 'tail':
                class DropValue(ast.NodeTransformer):
                    def visit_Return(self, n):
                        if n.value is None:
                            return n
                        out = []
                        if _contains(n.value, ast.Call):
                            out.append(ast.copy_location(ast.Expr(value=n.value), n))
                        out.append(ast.copy_location(ast.Return(value=None), n))
                        return out
                body = [x for b in body for x in (lambda r: r if isinstance(r, list) else [r])(DropValue().visit(b))]
            tail_ret = [] if (body and isinstance(body[-1], ast.Return)) else \
                [ast.copy_location(ast.Return(value=None), stmt)]
            out = pre + body + (tail_ret if mode == 'return' else [])
            if not out:
                out = [ast.copy_location(ast.Pass(), stmt)]
            for x in out:
                ast.fix_missing_locations(x)
            return out
        conv = self._single_exit(body, [], ret_target, stmt)
        if not conv:
            conv = [ast.copy_location(ast.Pass(), stmt)]
        out = pre + conv + post
        for s in out:
            ast.fix_missing_locations(s)
        return out

    def _single_exit(self, stmts, k, ret_target, at):
        """Continuation-style conversion: `return` ends the block; an `if` holding a return absorbs the
        statements that follow it into its branches."""
        out = []
        for i, s in enumerate(stmts):
            if isinstance(s, ast.Return):
                if ret_target is not None:
                    v = s.value if s.value is not None else ast.Constant(value=None)
                    asg = ast.Assign(targets=[copy.deepcopy(ret_target)], value=v)
                    out.append(ast.copy_location(asg, s))
                elif s.value is not None and _contains(s.value, ast.Call):
                    out.append(ast.copy_location(ast.Expr(value=s.value), s))
                return out
            if _returns_in([s]) and isinstance(s, ast.Try):
                # returns only as the last statement of the try body / handlers / else, nothing after the try
                if stmts[i + 1:] or k or _returns_in(s.finalbody):
                    raise NotInlinable(f'return inside try followed by more statements (line {s.lineno})')
                blocks = [s.body] + [h.body for h in s.handlers] + ([s.orelse] if s.orelse else [])
                for b in blocks:
                    if _returns_in(b[:-1]) or (b and not isinstance(b[-1], ast.Return) and _returns_in(b[-1:])):
                        raise NotInlinable(f'return in the middle of a try block (line {s.lineno})')

                def tail(b):
                    if b and isinstance(b[-1], ast.Return):
                        r = b[-1]
                        if ret_target is not None:
                            v = r.value if r.value is not None else ast.Constant(value=None)
                            return b[:-1] + [ast.copy_location(ast.Assign(targets=[copy.deepcopy(ret_target)], value=v), r)]
                        if r.value is not None and _contains(r.value, ast.Call):
                            return b[:-1] + [ast.copy_location(ast.Expr(value=r.value), r)]
                        return b[:-1] or [ast.copy_location(ast.Pass(), r)]
                    if ret_target is not None and b is not s.body:
                        return b + [ast.copy_location(ast.Assign(targets=[copy.deepcopy(ret_target)],
                                                                   value=ast.Constant(value=None)), at)]
                    return b
                falls_through = not (s.body and isinstance(s.body[-1], ast.Return)) and not s.orelse
                s.body = tail(s.body)
                for h in s.handlers:
                    h.body = tail(h.body)
                if s.orelse:
                    s.orelse = tail(s.orelse)
                elif falls_through and ret_target is not None:
                    s.orelse = [ast.copy_location(ast.Assign(targets=[copy.deepcopy(ret_target)],
                                                             value=ast.Constant(value=None)), at)]
                out.append(s)
                return out
            if _returns_in([s]):
                if not isinstance(s, ast.If):
                    raise NotInlinable(f'return inside {type(s).__name__.lower()} (line {s.lineno})')
                krest = self._single_exit(stmts[i + 1:], k, ret_target, at)
                body = self._single_exit(s.body, copy.deepcopy(krest), ret_target, at)
                orelse = self._single_exit(s.orelse, copy.deepcopy(krest), ret_target, at)
                node = ast.If(test=s.test, body=body or [ast.copy_location(ast.Pass(), s)], orelse=orelse)
                out.append(ast.copy_location(node, s))
                return out
            out.append(s)
        # fell off the end of this block: run the continuation
        out += copy.deepcopy(k)
        if not k and ret_target is not None and not _always_assigns(out, ret_target):
            asg = ast.Assign(targets=[copy.deepcopy(ret_target)], value=ast.Constant(value=None))
            out.append(ast.copy_location(asg, at))
        return out

    # ------------------------------------------------------------------
    def _remove_unreferenced(self, fm, cm):
        used_names, used_attrs = set(), set()
        for m in self.modules.values():
            for n in ast.walk(m.tree):
                if isinstance(n, ast.Name):
                    used_names.add(n.id)
                elif isinstance(n, ast.Attribute):
                    used_attrs.add(n.attr)
                elif isinstance(n, ast.alias):
                    used_names.add(n.name)
        inlined = {x.split(' into ')[0] for x in self.notes['inlined']}
        for name, fn in self.fn_helpers.items():
            if name in inlined and name not in used_names and fn in fm.tree.body:
                fm.tree.body.remove(fn)
                self.notes['removed'].append(name)
        for (c, mname), fn in self.method_helpers.items():
            if f'{c}.{mname}' in inlined and mname not in used_attrs:
                for st in cm.tree.body:
                    if isinstance(st, ast.ClassDef) and st.name == c and fn in st.body:
                        st.body.remove(fn)
                        self.notes['removed'].append(f'{c}.{mname}')


def _tail_positions(body) -> set:
    """ids of the statements after which the function ends: the last statement of the body and,
    through `if` / `with`, the last statements of their blocks."""
    out = set()

    def rec(stmts):
        if not stmts:
            return
        last = stmts[-1]
        out.add(id(last))
        if isinstance(last, ast.If):
            rec(last.body)
            rec(last.orelse)
        elif isinstance(last, ast.With):
            rec(last.body)
    rec(body)
    return out


def _always_assigns(stmts, target) -> bool:
    """The tail of an already converted block ends in an assignment to the return target."""
    if not stmts:
        return False
    last = stmts[-1]
    if isinstance(last, ast.Assign) and ast.dump(last.targets[0]) == ast.dump(target):
        return True
    if isinstance(last, ast.If) and last.orelse:
        return _always_assigns(last.body, target) and _always_assigns(last.orelse, target)
    return False


class _CanonAug(ast.NodeTransformer):
    """`T = T op e` (same target spelled on both sides) is read as `T op= e`.  For numbers, bytes and str
    the two are the same; for a mutable container the augmented form mutates in place and the plain form
    rebinds - the node is therefore marked (`tsa_from_assign`) and the write-effect analysis does not
    count it as an in-place mutation."""

    def __init__(self):
        self.count = 0

    def visit_Assign(self, n: ast.Assign):
        self.generic_visit(n)
        if len(n.targets) != 1 or not isinstance(n.value, ast.BinOp):
            return n
        t = n.targets[0]
        ok = isinstance(t, ast.Name) or (isinstance(t, ast.Attribute) and isinstance(t.value, ast.Name)) or \
            (isinstance(t, ast.Subscript) and isinstance(t.value, ast.Name) and isinstance(t.slice, (ast.Name, ast.Constant)))
        if not ok:
            return n
        left = n.value.left
        if type(left) is not type(t):
            return n
        a = ast.dump(t).replace('Store()', 'Load()')
        if a != ast.dump(left):
            return n
        new = ast.AugAssign(target=t, op=n.value.op, value=n.value.right)
        new.tsa_from_assign = True
        self.count += 1
        return ast.copy_location(new, n)


class _NoConst(Exception):
    pass


def _safe_eval(e: ast.AST, env: dict):
    """Value of a small constant expression: literals, tuples, int arithmetic, f-strings over loop variables,
    tuple(...)/range(...) and one-generator comprehensions.  Raises _NoConst for anything else."""
    if isinstance(e, ast.Constant) and type(e.value) in (int, str, bytes, bool):
        return e.value
    if isinstance(e, ast.Name) and e.id in env:
        return env[e.id]
    if isinstance(e, ast.Tuple):
        return tuple(_safe_eval(x, env) for x in e.elts)
    if isinstance(e, ast.UnaryOp) and isinstance(e.op, ast.USub):
        v = _safe_eval(e.operand, env)
        if isinstance(v, int):
            return -v
        raise _NoConst()
    if isinstance(e, ast.BinOp):
        a, b = _safe_eval(e.left, env), _safe_eval(e.right, env)
        if isinstance(a, int) and isinstance(b, int) and not isinstance(a, bool):
            ops = {ast.Add: lambda: a + b, ast.Sub: lambda: a - b, ast.Mult: lambda: a * b,
                   ast.LShift: lambda: a << b if 0 <= b < 64 else None, ast.RShift: lambda: a >> b if 0 <= b < 64 else None,
                   ast.BitAnd: lambda: a & b, ast.BitOr: lambda: a | b,
                   ast.Pow: lambda: a ** b if 0 <= b < 64 and abs(a) < 1 << 16 else None}
            for k, f in ops.items():
                if isinstance(e.op, k):
                    r = f()
                    if r is not None:
                        return r
        if isinstance(a, (str, bytes)) and type(a) is type(b) and isinstance(e.op, ast.Add):
            return a + b
        raise _NoConst()
    if isinstance(e, ast.JoinedStr):
        out = ''
        for v in e.values:
            if isinstance(v, ast.Constant) and isinstance(v.value, str):
                out += v.value
            elif isinstance(v, ast.FormattedValue) and v.format_spec is None and v.conversion == -1:
                x = _safe_eval(v.value, env)
                if type(x) not in (int, str):
                    raise _NoConst()
                out += str(x)
            else:
                raise _NoConst()
        return out
    if isinstance(e, ast.Call) and isinstance(e.func, ast.Name) and not e.keywords:
        if e.func.id == 'range' and 1 <= len(e.args) <= 3:
            vals = [_safe_eval(a, env) for a in e.args]
            if all(isinstance(v, int) for v in vals):
                r = range(*vals)
                if len(r) <= 512:
                    return tuple(r)
            raise _NoConst()
        if e.func.id == 'tuple' and len(e.args) == 1:
            v = _safe_eval(e.args[0], env)
            if isinstance(v, tuple):
                return v
            raise _NoConst()
    if isinstance(e, (ast.GeneratorExp, ast.ListComp)) and len(e.generators) == 1:
        g = e.generators[0]
        if g.is_async:
            raise _NoConst()
        seq = _safe_eval(g.iter, env)
        if not isinstance(seq, tuple):
            raise _NoConst()
        out = []
        for item in seq:
            env2 = dict(env)
            if isinstance(g.target, ast.Name):
                env2[g.target.id] = item
            elif isinstance(g.target, ast.Tuple) and isinstance(item, tuple) and len(item) == len(g.target.elts) and \
                    all(isinstance(t, ast.Name) for t in g.target.elts):
                for t, v in zip(g.target.elts, item):
                    env2[t.id] = v
            else:
                raise _NoConst()
            keep = True
            for c in g.ifs:
                cv = _safe_eval(c, env2)
                keep = keep and bool(cv)
            if keep:
                out.append(_safe_eval(e.elt, env2))
        return tuple(out)
    raise _NoConst()


def _to_ast(v):
    if isinstance(v, tuple):
        return ast.Tuple(elts=[_to_ast(x) for x in v], ctx=ast.Load())
    return ast.Constant(value=v)


def _propagate_constants(modules: dict) -> int:
    """A module-level `NAME = <int | bytes | str literal>` that is bound exactly once and never declared
    `global` is a named constant: its uses inside functions (of the same module, or of a module that imports
    it with `from .mod import NAME`) are read as the literal.  Makes the rules indifferent to "give the magic
    number a name" refactors.  Identity on a tree without such constants."""
    consts: dict[str, dict[str, ast.AST]] = {}
    for mn, m in modules.items():
        counts: dict[str, int] = {}
        vals: dict[str, ast.AST] = {}
        for st in m.tree.body:
            tg = None
            if isinstance(st, ast.Assign) and len(st.targets) == 1 and isinstance(st.targets[0], ast.Name):
                tg, v = st.targets[0].id, st.value
            elif isinstance(st, ast.AnnAssign) and isinstance(st.target, ast.Name) and st.value is not None:
                tg, v = st.target.id, st.value
            if tg is None:
                continue
            counts[tg] = counts.get(tg, 0) + 1
            if isinstance(v, ast.Constant) and type(v.value) in (int, bytes, str):
                vals[tg] = v
            elif isinstance(v, (ast.Tuple, ast.Call, ast.GeneratorExp)):
                # an immutable constant table: a tuple (of tuples) of scalars, written out or generated
                try:
                    val = _safe_eval(v, {})
                    if isinstance(val, tuple) and val and not (isinstance(v, ast.Tuple) and not v.elts):
                        vals[tg] = _to_ast(val)
                except (_NoConst, RecursionError, OverflowError, ValueError):
                    pass
        rebound = set()
        for n in ast.walk(m.tree):
            if isinstance(n, ast.Global):
                rebound |= set(n.names)
            if isinstance(n, (ast.AugAssign,)) and isinstance(n.target, ast.Name):
                rebound.add(n.target.id)
        # a tuple is read as a *table* only when every use is an iteration, an index, a length or a membership
        # test (a tuple used as a value - a sentinel key, an argument - keeps its name)
        table_like = {k for k, v in vals.items() if isinstance(v, ast.Tuple)}
        if table_like:
            parent = {}
            for n in ast.walk(m.tree):
                for ch in ast.iter_child_nodes(n):
                    parent[id(ch)] = n
            for n in ast.walk(m.tree):
                if isinstance(n, ast.Name) and isinstance(n.ctx, ast.Load) and n.id in table_like:
                    p = parent.get(id(n))
                    ok = (isinstance(p, (ast.For, ast.comprehension)) and p.iter is n) or \
                        (isinstance(p, ast.Subscript) and p.value is n) or \
                        (isinstance(p, ast.Compare) and n in p.comparators and
                         all(isinstance(o, (ast.In, ast.NotIn)) for o in p.ops)) or \
                        (isinstance(p, ast.Call) and isinstance(p.func, ast.Name) and p.func.id in ('len', 'enumerate', 'reversed')
                         and n in p.args)
                    if not ok:
                        table_like.discard(n.id)
                        vals.pop(n.id, None)
        consts[mn] = {k: v for k, v in vals.items() if counts.get(k) == 1 and k not in rebound and k not in KEEP_NAMES}
    done = 0
    for mn, m in modules.items():
        visible = dict(consts.get(mn, {}))
        for n in ast.walk(m.tree):
            if isinstance(n, ast.ImportFrom) and n.level >= 1 and n.module in consts:
                for al in n.names:
                    if al.name in consts[n.module]:
                        visible[al.asname or al.name] = consts[n.module][al.name]
        if not visible:
            continue
        for fn in [x for x in ast.walk(m.tree) if isinstance(x, (ast.FunctionDef, ast.AsyncFunctionDef))]:
            local = {a.arg for a in fn.args.posonlyargs + fn.args.args + fn.args.kwonlyargs}
            if fn.args.vararg:
                local.add(fn.args.vararg.arg)
            if fn.args.kwarg:
                local.add(fn.args.kwarg.arg)
            for x in ast.walk(fn):
                if isinstance(x, ast.Name) and isinstance(x.ctx, (ast.Store, ast.Del)):
                    local.add(x.id)
            names = {k for k in visible if k not in local}
            if not names:
                continue

            class Sub(ast.NodeTransformer):
                def visit_Name(self, x):
                    nonlocal done
                    if isinstance(x.ctx, ast.Load) and x.id in names:
                        done += 1
                        import copy as _copy
                        return ast.copy_location(_copy.deepcopy(visible[x.id]), x)
                    return x
            fn.body = [Sub().visit(b) for b in fn.body]
    return done


_PURE_CALLS = {'len', 'type', 'isinstance', 'bool', 'int', 'callable', 'abs'}


def _pure_cond(e: ast.AST) -> bool:
    for n in ast.walk(e):
        if isinstance(n, ast.Call):
            if not (isinstance(n.func, ast.Name) and n.func.id in _PURE_CALLS and not n.keywords):
                return False
        elif isinstance(n, (ast.Await, ast.Yield, ast.YieldFrom, ast.NamedExpr, ast.Lambda, ast.ListComp, ast.SetComp,
                            ast.DictComp, ast.GeneratorExp)):
            return False
    return True


def _positive(test: ast.AST):
    """(test', swapped): the test with `not`, `!=`, `is not`, `not in` removed by swapping the branches."""
    swapped = False
    while True:
        if isinstance(test, ast.UnaryOp) and isinstance(test.op, ast.Not):
            test, swapped = test.operand, not swapped
            continue
        if isinstance(test, ast.Compare) and len(test.ops) == 1 and isinstance(test.ops[0], (ast.NotEq, ast.IsNot, ast.NotIn)):
            pos = {ast.NotEq: ast.Eq, ast.IsNot: ast.Is, ast.NotIn: ast.In}[type(test.ops[0])]
            test = ast.copy_location(ast.Compare(left=test.left, ops=[pos()], comparators=test.comparators), test)
            swapped = not swapped
            continue
        return test, swapped


class _CondAssign(ast.NodeTransformer):
    """`if c: x = B` (only assignments to plain names in the branches, c side-effect free and not disturbed by
    them) is read as the conditional expression `x = B if c else x` - the two spellings of a conditional
    value become one.  Conditional expressions are also put in positive polarity (`A if c else B` rather than
    `B if not c else A`)."""

    def __init__(self):
        self.count = 0

    def visit_IfExp(self, n: ast.IfExp):
        self.generic_visit(n)
        t, sw = _positive(n.test)
        if sw:
            return ast.copy_location(ast.IfExp(test=t, body=n.orelse, orelse=n.body), n)
        return n

    def _simple(self, stmts):
        out = []
        for s in stmts:
            if isinstance(s, ast.Assign) and len(s.targets) == 1 and isinstance(s.targets[0], ast.Name):
                out.append((s.targets[0].id, s.value, s))
            elif isinstance(s, ast.Pass):
                continue
            else:
                return None
        return out

    def visit_If(self, n: ast.If):
        self.generic_visit(n)
        if not n.body:
            return n
        a, b = self._simple(n.body), self._simple(n.orelse)
        if a is None or b is None or not (a or b) or not _pure_cond(n.test):
            return n
        # an `elif` chain stays a chain
        if len(n.orelse) == 1 and isinstance(n.orelse[0], ast.If):
            return n
        names_a, names_b = [x[0] for x in a], [x[0] for x in b]
        if len(set(names_a)) != len(names_a) or len(set(names_b)) != len(names_b):
            return n
        cond_names = {x.id for x in ast.walk(n.test) if isinstance(x, ast.Name)}
        order = names_a + [x for x in names_b if x not in names_a]
        # the condition is evaluated once per assigned name: it must not read a name assigned before the last one
        if cond_names & set(order[:-1]):
            return n
        # a value may read names assigned earlier in the *other* branch's order only consistently: keep it simple
        va, vb = {k: v for k, v, _ in a}, {k: v for k, v, _ in b}
        test, swapped = _positive(n.test)
        out = []
        import copy as _copy
        for nm in order:
            x = va.get(nm, ast.Name(id=nm, ctx=ast.Load()))
            y = vb.get(nm, ast.Name(id=nm, ctx=ast.Load()))
            body, orelse = (y, x) if swapped else (x, y)
            asg = ast.Assign(targets=[ast.Name(id=nm, ctx=ast.Store())],
                             value=ast.IfExp(test=_copy.deepcopy(test), body=body, orelse=orelse))
            asg.tsa_cond = True
            out.append(ast.copy_location(asg, n))
        for x in out:
            ast.fix_missing_locations(x)
        self.count += 1
        return out


class _IfExpToIf(ast.NodeTransformer):
    """tools.py builders: `x = A if c else B` is read as `if c: x = A else: x = B` (the template extractor
    follows if statements per branch)."""

    def __init__(self):
        self.count = 0

    def visit_Assign(self, n: ast.Assign):
        if len(n.targets) == 1 and isinstance(n.targets[0], ast.Name) and isinstance(n.value, ast.IfExp) and \
                _pure_cond(n.value.test):
            import copy as _copy
            a = ast.Assign(targets=[_copy.deepcopy(n.targets[0])], value=n.value.body)
            b = ast.Assign(targets=[_copy.deepcopy(n.targets[0])], value=n.value.orelse)
            new = ast.If(test=n.value.test, body=[ast.copy_location(a, n)], orelse=[ast.copy_location(b, n)])
            self.count += 1
            return ast.fix_missing_locations(ast.copy_location(new, n))
        return n


def _expand_table_arms(modules: dict) -> int:
    """`case _ if subject in TABLE:` (or `case name if name in TABLE:`) with TABLE a module-level dict literal of
    constant keys and values that nothing mutates is the table-driven spelling of explicit arms: it is expanded
    into one `case 'K1' | 'K2' ...:` arm per distinct value, with `TABLE[subject]` replaced by that value."""
    import copy as _copy
    done = 0
    for mn, m in modules.items():
        tables = {}
        for st in m.tree.body:
            tg, v = None, None
            if isinstance(st, ast.Assign) and len(st.targets) == 1 and isinstance(st.targets[0], ast.Name):
                tg, v = st.targets[0].id, st.value
            elif isinstance(st, ast.AnnAssign) and isinstance(st.target, ast.Name) and st.value is not None:
                tg, v = st.target.id, st.value
            if tg and isinstance(v, ast.Dict) and v.keys and all(isinstance(k, ast.Constant) and isinstance(k.value, str) for k in v.keys) \
                    and all(isinstance(x, ast.Constant) for x in v.values):
                tables[tg] = [(k.value, x.value) for k, x in zip(v.keys, v.values)]
        if not tables:
            continue
        # mutated anywhere in the package?  then it is not a constant table
        for mod in modules.values():
            for n in ast.walk(mod.tree):
                base = None
                if isinstance(n, ast.Subscript) and isinstance(n.ctx, (ast.Store, ast.Del)) and isinstance(n.value, ast.Name):
                    base = n.value.id
                if isinstance(n, ast.Call) and isinstance(n.func, ast.Attribute) and isinstance(n.func.value, ast.Name) and \
                        n.func.attr in ('update', 'pop', 'popitem', 'clear', 'setdefault', '__setitem__', '__delitem__'):
                    base = n.func.value.id
                if isinstance(n, ast.Global):
                    for g in n.names:
                        tables.pop(g, None)
                if base:
                    tables.pop(base, None)
        if not tables:
            continue
        for mt in [x for x in ast.walk(m.tree) if isinstance(x, ast.Match)]:
            subj = mt.subject
            new_cases = []
            for c in mt.cases:
                pat, g = c.pattern, c.guard
                cap = None
                if isinstance(pat, ast.MatchAs) and pat.pattern is None:
                    cap = pat.name          # None for `_`
                else:
                    new_cases.append(c)
                    continue
                tname, lhs_ok = None, False
                if isinstance(g, ast.Compare) and len(g.ops) == 1 and isinstance(g.ops[0], ast.In) and \
                        isinstance(g.comparators[0], ast.Name) and g.comparators[0].id in tables:
                    tname = g.comparators[0].id
                    lhs = g.left
                    lhs_ok = (isinstance(lhs, ast.Name) and cap is not None and lhs.id == cap) or \
                        (ast.dump(lhs) == ast.dump(subj))
                if not (tname and lhs_ok):
                    new_cases.append(c)
                    continue
                by_val = {}
                for k, v in tables[tname]:
                    by_val.setdefault(repr(v), (v, []))[1].append(k)
                for _, (v, keys) in by_val.items():
                    pats = [ast.MatchValue(value=ast.Constant(value=k)) for k in keys]
                    p2 = pats[0] if len(pats) == 1 else ast.MatchOr(patterns=pats)
                    if cap is not None:
                        p2 = ast.MatchAs(pattern=p2, name=cap)

                    class Sub(ast.NodeTransformer):
                        def visit_Subscript(self, n):
                            self.generic_visit(n)
                            if isinstance(n.value, ast.Name) and n.value.id == tname and isinstance(n.ctx, ast.Load) and \
                                    ((isinstance(n.slice, ast.Name) and cap is not None and n.slice.id == cap) or
                                     ast.dump(n.slice) == ast.dump(subj)):
                                return ast.copy_location(ast.Constant(value=v), n)
                            return n
                    body = [Sub().visit(_copy.deepcopy(b)) for b in c.body]
                    nc = ast.match_case(pattern=p2, guard=None, body=body)
                    ast.copy_location(p2, pat)
                    for x in ast.walk(p2):
                        ast.copy_location(x, pat)
                    new_cases.append(nc)
                done += 1
            mt.cases = new_cases
            ast.fix_missing_locations(mt)
    return done


def _stable_expr(e: ast.AST) -> bool:
    """Attribute chains, subscripts with constant / name keys, +/- arithmetic and `.to_bytes(<const>, <const>)` over
    names and constants: reading it twice gives the same object / value as long as nothing in between writes
    one of its parts."""
    if isinstance(e, (ast.Name, ast.Constant)):
        return True
    if isinstance(e, ast.Attribute):
        return _stable_expr(e.value)
    if isinstance(e, ast.Subscript):
        sl = e.slice
        return _stable_expr(e.value) and isinstance(sl, ast.Constant)
    if isinstance(e, ast.BinOp) and isinstance(e.op, (ast.Add, ast.Sub)):
        return _stable_expr(e.left) and _stable_expr(e.right)
    if isinstance(e, ast.Call) and isinstance(e.func, ast.Attribute) and e.func.attr == 'to_bytes' and not e.keywords and \
            all(isinstance(a, ast.Constant) for a in e.args) and isinstance(e.func.value, ast.Name):
        return True
    return False


def max_pos_in(node, pos) -> int:
    return max(pos.get(id(x), 0) for x in ast.walk(node))


def last_stmt_pos(node, uses, pos) -> int:
    """Position of `node` if every use of the alias at or after it lies inside it, else -1."""
    inside = {id(x) for x in ast.walk(node)}
    later = [u for u in uses if pos[id(u)] >= pos[id(node)]]
    return pos[id(node)] if later and all(id(u) in inside for u in later) else -1


def _dealias(fn: ast.FunctionDef) -> int:
    total = 0
    for _ in range(24):
        n = _dealias_once(fn)
        if not n:
            break
        total += n
    return total


def _dealias_once(fn: ast.FunctionDef) -> int:
    """Copy propagation of single-assignment locals that only name a stable expression
    (`items = stack.deque`, `threshold = tape.flags['ts_threshold']`, `sig_size = nacl.bindings.crypto_sign_BYTES`,
    `end = self.pointer + size`): uses of the local are read as the expression, provided nothing between the
    definition and a use writes a part of it.  Identity on code without such locals."""
    import copy as _copy
    params = {a.arg for a in fn.args.posonlyargs + fn.args.args + fn.args.kwonlyargs}
    stores: dict[str, list] = {}
    for n in ast.walk(fn):
        if isinstance(n, ast.Name) and isinstance(n.ctx, (ast.Store, ast.Del)):
            stores.setdefault(n.id, []).append(n)
        if n is not fn and isinstance(n, (ast.FunctionDef, ast.AsyncFunctionDef, ast.Lambda)):
            return 0            # closures: keep it simple
    # document order of every node (line numbers are not reliable after structural expansion: statements spliced in
    # from a helper carry the call's line)
    pos: dict[int, int] = {}

    def number(n, c=[0]):
        c[0] += 1
        pos[id(n)] = c[0]
        for ch in ast.iter_child_nodes(n):
            number(ch, c)
    number(fn, [0])
    # every write event with its position: (text of the written path, position)
    writes = []
    rooted = []         # (name of an object passed to a call, position, call)
    for n in ast.walk(fn):
        tgs = []
        if isinstance(n, ast.Assign):
            tgs = n.targets
        elif isinstance(n, (ast.AugAssign, ast.AnnAssign)):
            tgs = [n.target]
        elif isinstance(n, ast.Delete):
            tgs = n.targets
        elif isinstance(n, ast.For):
            tgs = [n.target]
        for t in tgs:
            for x in ast.walk(t):
                if isinstance(x, (ast.Name, ast.Attribute, ast.Subscript)) and isinstance(getattr(x, 'ctx', None), (ast.Store, ast.Del)):
                    writes.append((ast.unparse(x), pos[id(n)], n))
        if isinstance(n, ast.Call) and isinstance(n.func, ast.Attribute):
            # a method call may change its receiver (move_pointer, append, pop ...)
            writes.append((ast.unparse(n.func.value), pos[id(n)], n))
        if isinstance(n, ast.Call) and isinstance(n.func, ast.Name) and n.func.id not in _NO_EFFECT_CALLS:
            # a function that is handed an object may change the object's attributes / items
            for a in list(n.args) + [k.value for k in n.keywords]:
                if isinstance(a, ast.Name):
                    rooted.append((a.id, pos[id(n)], n))
    cands = {}
    for st in ast.walk(fn):
        if isinstance(st, ast.Assign) and len(st.targets) == 1 and isinstance(st.targets[0], ast.Name):
            nm = st.targets[0].id
            if nm in params or len(stores.get(nm, [])) != 1:
                continue
            v = st.value
            if isinstance(v, (ast.Name, ast.Constant)) or not _stable_expr(v):
                continue
            # every name the expression reads is a parameter or assigned exactly once, earlier
            ok = True
            for x in ast.walk(v):
                if isinstance(x, ast.Name):
                    ss = stores.get(x.id, [])
                    if x.id in params and not ss:
                        continue
                    if x.id not in params and not ss:
                        continue            # a global / module
                    if len(ss) == 1 and pos[id(ss[0])] < pos[id(st)] and x.id not in params:
                        continue
                    ok = False
            if ok:
                cands[nm] = (v, st)
    if not cands:
        return 0
    done = 0
    for nm, (v, st) in cands.items():
        text = ast.unparse(v)
        parts = {ast.unparse(x) for x in ast.walk(v) if isinstance(x, (ast.Name, ast.Attribute, ast.Subscript))}
        uses = [x for x in ast.walk(fn) if isinstance(x, ast.Name) and x.id == nm and isinstance(x.ctx, ast.Load)]
        if not uses:
            continue
        last = max(pos[id(u)] for u in uses)
        # writes to a part of the expression (or through a method call on a part) between definition and last use;
        # writes *through the alias itself* (items[i] = v) are what we are translating, not a hazard
        hazard = False
        for wt, line, node in writes:
            if node is st or not (pos[id(st)] <= line <= last):
                continue
            if wt == nm or wt.startswith(nm + '[') or wt.startswith(nm + '.'):
                continue
            if wt in parts and not (isinstance(node, ast.Call) and wt in {ast.unparse(x) for x in ast.walk(v) if isinstance(x, ast.Name)}
                                    and not isinstance(v, ast.BinOp)):
                hazard = True
            if isinstance(node, ast.Call) and isinstance(v, ast.BinOp) and wt in parts:
                hazard = True
        for root, line, node in rooted:
            if pos[id(st)] <= line <= last and any(pt.startswith(root + '.') or pt.startswith(root + '[') for pt in parts):
                # the call itself may be the (only) use: reading the path as an argument of that very call is fine when
                # the alias is not used after it
                if line == last_stmt_pos(node, uses, pos) and not any(pos[id(u)] > max_pos_in(node, pos) for u in uses):
                    continue
                hazard = True
        if hazard:
            continue

        class S(ast.NodeTransformer):
            def visit_Name(self, x):
                if x.id == nm and isinstance(x.ctx, ast.Load):
                    return ast.copy_location(_copy.deepcopy(v), x)
                return x
        for i, b in enumerate(fn.body):
            fn.body[i] = S().visit(b)
        # the definition is dead now (reading a stable expression has no effect): drop it
        for holder in ast.walk(fn):
            for fld in ('body', 'orelse', 'finalbody'):
                lst = getattr(holder, fld, None)
                if isinstance(lst, list) and st in lst:
                    lst.remove(st)
                    if not lst:
                        lst.append(ast.copy_location(ast.Pass(), st))
        done += 1
        break               # texts and write inventory are stale now: recompute before the next alias
    if done:
        ast.fix_missing_locations(fn)
    return done


def _fold_defaults(node: ast.AST):
    """`x = <literal>` directly followed by `x = B if c else x` (or `x if c else B`): the name in the conditional
    is the literal."""
    for n in ast.walk(node):
        for fld in ('body', 'orelse', 'finalbody'):
            stmts = getattr(n, fld, None)
            if not (isinstance(stmts, list) and stmts and isinstance(stmts[0], ast.stmt)):
                continue
            last_const = {}
            for st in stmts:
                if isinstance(st, ast.Assign) and len(st.targets) == 1 and isinstance(st.targets[0], ast.Name):
                    nm = st.targets[0].id
                    v = st.value
                    if isinstance(v, ast.IfExp) and nm in last_const and getattr(st, 'tsa_cond', False):
                        c = last_const[nm]
                        if isinstance(v.body, ast.Name) and v.body.id == nm:
                            v.body = ast.copy_location(ast.Constant(value=c.value), v.body)
                        if isinstance(v.orelse, ast.Name) and v.orelse.id == nm:
                            v.orelse = ast.copy_location(ast.Constant(value=c.value), v.orelse)
                    last_const = {k: c for k, c in last_const.items()
                                  if k != nm and not any(isinstance(x, ast.Name) and x.id == k and isinstance(x.ctx, ast.Store)
                                                         for x in ast.walk(st))}
                    if isinstance(v, ast.Constant):
                        last_const[nm] = v
                else:
                    last_const = {}


KNOWN_MODULES = {'AMHL', '__init__', '__main__', 'classes', 'errors', 'functions', 'interfaces', 'parsing', 'tools', 'version'}


def _absorb_new_modules(modules: dict) -> int:
    """A package module the rules do not know (code moved out of functions.py / parsing.py / tools.py / classes.py
    into a new file and imported back) is read where it is imported: `from .newmod import a, b` in a known
    module is replaced by the new module's own top-level statements (its imports, tables and definitions),
    except names the importing module defines itself.  The known modules then look as before the move."""
    import copy as _copy
    new = [mn for mn in modules if mn not in KNOWN_MODULES]
    if not new:
        return 0
    done = 0
    for _ in range(3):                      # a new module may import from another new module
        changed = False
        for kn, k in modules.items():
            out = []
            own = {st.name for st in k.tree.body if isinstance(st, (ast.FunctionDef, ast.ClassDef))}
            for st in k.tree.body:
                if isinstance(st, ast.ImportFrom) and st.level == 1 and st.module in new and kn != st.module:
                    src = modules[st.module]
                    for x in src.tree.body:
                        if isinstance(x, ast.ImportFrom) and x.level == 1 and x.module == kn:
                            continue            # import back into the module we are in
                        if isinstance(x, (ast.FunctionDef, ast.ClassDef)) and x.name in own:
                            continue
                        if isinstance(x, ast.Expr) and isinstance(x.value, ast.Constant):
                            continue            # module docstring
                        out.append(_copy.deepcopy(x))
                    # names imported under an alias keep working
                    for al in st.names:
                        if al.asname and al.asname != al.name:
                            asg = ast.Assign(targets=[ast.Name(id=al.asname, ctx=ast.Store())],
                                             value=ast.Name(id=al.name, ctx=ast.Load()))
                            out.append(ast.fix_missing_locations(ast.copy_location(asg, st)))
                    done += 1
                    changed = True
                    continue
                out.append(st)
            k.tree.body = out
        if not changed:
            break
    return done


def normalise(modules: dict) -> dict:
    nabs = _absorb_new_modules(modules)
    from . import structural
    structural_notes = structural.run_all(modules)
    ntab = _expand_table_arms(modules)
    nconst = _propagate_constants(modules)
    n = 0
    ncond = 0
    nalias = 0
    for mn, m in modules.items():
        if mn in ('functions', 'classes', 'parsing'):
            for fn in [x for x in ast.walk(m.tree) if isinstance(x, ast.FunctionDef)]:
                nalias += _dealias(fn)
    for mn, m in modules.items():
        c0 = _CanonAug()            # first: `x = x + e` is an accumulation, not a conditional value
        c0.visit(m.tree)
        n += c0.count
        if mn in ('functions', 'classes'):
            ca = _CondAssign()
            for fn in [x for x in ast.walk(m.tree) if isinstance(x, ast.FunctionDef)]:
                fn.body = [y for b in fn.body for y in (lambda r: r if isinstance(r, list) else [r])(ca.visit(b))]
                _fold_defaults(fn)
            ncond += ca.count
        if mn == 'tools':
            ie = _IfExpToIf()
            for fn in [x for x in ast.walk(m.tree) if isinstance(x, ast.FunctionDef)]:
                # only string-valued choices matter; leave everything else alone
                for i, b in enumerate(list(fn.body)):
                    if isinstance(b, ast.Assign) and isinstance(b.value, ast.IfExp) and \
                            all(isinstance(x, (ast.Constant, ast.JoinedStr)) for x in (b.value.body, b.value.orelse)):
                        fn.body[i] = ie.visit_Assign(b)
            ncond += ie.count
        c = _CanonAug()
        c.visit(m.tree)
        n += c.count
    notes = Inliner(modules).run()
    notes['aug_canonicalised'] = n
    notes['constants_propagated'] = nconst
    notes['conditional_assignments'] = ncond
    notes['table_arms_expanded'] = ntab
    notes['aliases_resolved'] = nalias
    notes['modules_absorbed'] = nabs
    notes.update(structural_notes)
    return notes
