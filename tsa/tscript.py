"""E6 part 1 - extraction and parsing of the tapescript templates embedded in tools.py.

Every string / f-string that reaches Script.from_src, ScriptLeaf.from_src or
compile_script inside a builder is collected (following local accumulators, `+` on
Scripts, `.src` interpolation and builder->builder calls), tokenised the way
get_symbols does for the subset the templates use, and parsed into a small program tree.
Each `{expr}` hole becomes a typed placeholder with provenance to the builder's
parameters.  An unknown token or shape raises AnalysisError (never a silent pass)."""
from __future__ import annotations
import ast
import re
from .report import AnalysisError
from .summary import World
from .model import dotted, FuncRef

SRC_SINKS = ('Script.from_src', 'ScriptLeaf.from_src', 'compile_script', 'cls.from_src')


class Hole:
    """One `{expr}` of an f-string template."""
    _n = 0

    def __init__(self, expr: ast.AST, fi, params: set[str], binding=None):
        Hole._n += 1
        self.id = Hole._n
        self.expr = expr
        self.fi = fi
        self.params = params          # builder parameters the expression derives from
        self.text = ast.unparse(expr)
        self.resolved = expr          # the expression with single-assignment locals of the builder inlined
        self.resolved_text = self.text
        self.binding = binding or {}  # for inlined callee templates: callee param -> caller params

    def __repr__(self):
        return '{' + self.text + '}'


class Seg:
    """A piece of template source: literal text with hole markers, a repeat, or an opaque script."""
    def __init__(self, kind, text='', holes=None, body=None, count=None, note=''):
        self.kind = kind          # text repeat script
        self.text = text
        self.holes = holes or {}
        self.body = body or []
        self.count = count
        self.note = note


MARK = '\x00'


def mark(h: Hole) -> str:
    return f'{MARK}{h.id}{MARK}'


class Variant:
    """One template a builder can return, with the parameter guards under which it does."""
    def __init__(self, fi, segs, guards, line):
        self.fi = fi
        self.segs = segs              # list[Seg]
        self.guards = guards          # list[(test text, polarity)]
        self.line = line
        self.component = None
        self.holes: dict[int, Hole] = {}
        for s in _walk_segs(segs):
            self.holes.update(s.holes)

    def label(self):
        g = ' & '.join(('' if p else 'not ') + t for t, p in self.guards)
        c = f'#{self.component}' if self.component is not None else ''
        return f'{self.fi.name}{c}' + (f'[{g}]' if g else '')


def _walk_segs(segs):
    for s in segs:
        yield s
        if s.kind == 'repeat':
            yield from _walk_segs(s.body)


class Extractor:
    def __init__(self, w: World):
        self.w = w
        self.repo = w.repo
        self._memo: dict[str, list[Variant]] = {}
        self._active: set[str] = set()

    # ------------------------------------------------------------------
    def builders(self):
        """All functions / methods of tools.py that produce a Script from source text."""
        out = []
        for fi in self.repo.all_funcs(['tools']):
            if fi.parent is not None:
                continue
            for n in ast.walk(fi.node):
                if isinstance(n, ast.Call) and (dotted(n.func) or '') in SRC_SINKS:
                    out.append(fi)
                    break
        # builders that only delegate to other builders
        names = {f.name for f in out}
        changed = True
        while changed:
            changed = False
            for fi in self.repo.all_funcs(['tools']):
                if fi.parent is not None or fi in out or fi.cls:
                    continue
                for n in ast.walk(fi.node):
                    if isinstance(n, ast.Return) and n.value is not None:
                        for c in ast.walk(n.value):
                            if isinstance(c, ast.Call) and isinstance(c.func, ast.Name) and c.func.id in names \
                                    and c.func.id.startswith(('make_', '_make_')):
                                if fi not in out:
                                    out.append(fi)
                                    names.add(fi.name)
                                    changed = True
        return out

    def variants(self, fi) -> list[Variant]:
        """Templates returned by builder fi (Script-valued returns)."""
        if fi.key in self._memo:
            return self._memo[fi.key]
        if fi.key in self._active:
            return []       # runtime recursion over a data structure (script trees): opaque
        self._active.add(fi.key)
        try:
            res = _BuilderWalk(self, fi).run()
        finally:
            self._active.discard(fi.key)
        self._memo[fi.key] = res
        return res

    def internal_scripts(self, fi) -> list[Variant]:
        """Templates compiled inside the builder but not returned (signing helpers run at build time)."""
        return _BuilderWalk(self, fi).run(internal=True)


class _BuilderWalk:
    """Structured walk of a builder body tracking string / Script valued locals."""

    def __init__(self, ex: Extractor, fi):
        self.ex = ex
        self.fi = fi
        self.w = ex.w
        self.results: list[Variant] = []
        self.internal: list[Variant] = []
        self.param_of: dict[str, set[str]] = {p: {p} for p in fi.params}
        # single-assignment locals with a call-free or simple definition, for resolving holes
        self.local_defs: dict[str, ast.AST] = {}
        counts: dict[str, int] = {}
        for n in ast.walk(fi.node):
            if isinstance(n, (ast.Assign, ast.AugAssign, ast.AnnAssign, ast.For)):
                tg = n.targets if isinstance(n, ast.Assign) else [n.target]
                for t in tg:
                    for x in ast.walk(t):
                        if isinstance(x, ast.Name):
                            counts[x.id] = counts.get(x.id, 0) + 1
        for n in ast.walk(fi.node):
            if isinstance(n, ast.Assign) and len(n.targets) == 1 and isinstance(n.targets[0], ast.Name) and \
                    counts.get(n.targets[0].id) == 1 and n.targets[0].id not in fi.params:
                self.local_defs[n.targets[0].id] = n.value

    _fork_budget = 6

    def run(self, internal=False):
        env = {}
        self._block(self.fi.node.body, env, [])
        return self.internal if internal else self.results

    # provenance of an expression: which builder parameters it derives from
    def prov(self, e: ast.AST) -> set[str]:
        out = set()
        for n in ast.walk(e):
            if isinstance(n, ast.Name) and n.id in self.param_of:
                out |= self.param_of[n.id]
        return out

    def _resolve(self, e: ast.AST, depth: int = 4) -> ast.AST:
        import copy
        defs = self.local_defs

        class T(ast.NodeTransformer):
            def __init__(self, d):
                self.d = d

            def visit_Name(self, n):
                if isinstance(n.ctx, ast.Load) and n.id in defs and self.d > 0:
                    return T(self.d - 1).visit(copy.deepcopy(defs[n.id]))
                return n
        return T(depth).visit(copy.deepcopy(e))

    def _block(self, stmts, env, guards):
        for i, st in enumerate(stmts):
            r = self._stmt(st, env, guards)
            if r == 'stop':
                return 'stop'
            if isinstance(r, tuple) and r and r[0] == 'fork':
                # both arms of an `if` fall through with different script / source values bound: the rest of the
                # block is read once per arm (path-sensitive), each under its own guard
                _, (e1, g1, p1), (e2, g2, p2) = r
                rest = stmts[i + 1:]
                saved = self.param_of
                self.param_of = dict(p1)
                ra = self._block(rest, e1, g1)
                pa = self.param_of
                self.param_of = dict(p2)
                rb = self._block(rest, e2, g2)
                pb = self.param_of
                self.param_of = {k: pa.get(k, set()) | pb.get(k, set()) for k in set(pa) | set(pb)}
                env.clear()
                env.update({k: v for k, v in e1.items() if k in e2 and (v is e2[k] or v == e2[k])})
                return 'stop' if (ra == 'stop' and rb == 'stop') else None
            if isinstance(r, list):
                guards = r
        return None

    def _stmt(self, st, env, guards):
        if isinstance(st, ast.Expr) and isinstance(st.value, ast.Constant):
            return None
        if isinstance(st, ast.Assign) and len(st.targets) == 1 and isinstance(st.targets[0], ast.Name):
            name = st.targets[0].id
            lv = self._list_value(st.value, env) if isinstance(st.value, (ast.List, ast.ListComp, ast.BinOp)) else None
            if lv is not None and not isinstance(st.value, ast.BinOp):
                env[name] = ('srclist', lv)
                self.param_of[name] = self.prov(st.value)
                return None
            v = self._src_value(st.value, env)
            if v is not None:
                env[name] = v
            else:
                sv = None
                try:
                    sv = self._script_value(st.value, env)
                except AnalysisError:
                    sv = None
                if sv is not None:
                    env[name] = ('script', sv)
                else:
                    env.pop(name, None)
                    self._scan_internal(st.value, env, guards)
            self.param_of[name] = self.prov(st.value)
            return None
        if isinstance(st, ast.Assign):
            self._scan_internal(st.value, env, guards)
            for t in st.targets:
                for n in ast.walk(t):
                    if isinstance(n, ast.Name) and isinstance(n.ctx, ast.Store):
                        self.param_of[n.id] = self.prov(st.value)
                        env.pop(n.id, None)
            return None
        if isinstance(st, ast.AugAssign) and isinstance(st.target, ast.Name) and isinstance(st.op, ast.Add):
            name = st.target.id
            v = self._src_value(st.value, env)
            if name in env and v is not None:
                env[name] = env[name] + v
            else:
                env.pop(name, None)
            self.param_of[name] = self.param_of.get(name, set()) | self.prov(st.value)
            return None
        if isinstance(st, ast.For):
            # accumulation inside a loop over a parameter: a repeated segment
            lvars = [n.id for n in ast.walk(st.target) if isinstance(n, ast.Name)]
            for lv in lvars:
                self.param_of[lv] = self.prov(st.iter)
            before = {k: list(v) for k, v in env.items()}
            self._block(st.body, env, guards)
            for k, v in list(env.items()):
                if k in before and len(v) > len(before[k]) and v[:len(before[k])] == before[k]:
                    added = v[len(before[k]):]
                    env[k] = before[k] + [Seg('repeat', body=added, count=st.iter,
                                              note=f'for {ast.unparse(st.target)} in {ast.unparse(st.iter)}')]
            return None
        if isinstance(st, ast.If):
            t = ast.unparse(st.test)
            only_params = self.prov(st.test) and all(
                isinstance(n, (ast.Name, ast.Constant, ast.Compare, ast.BoolOp, ast.UnaryOp, ast.Is, ast.IsNot, ast.Eq,
                               ast.NotEq, ast.Not, ast.And, ast.Or, ast.Load, ast.Call, ast.Attribute))
                for n in ast.walk(st.test))
            e1, e2 = dict(env), dict(env)
            p1 = dict(self.param_of)
            r1 = self._block(st.body, e1, guards + [(t, True)])
            pa = self.param_of
            self.param_of = dict(p1)
            r2 = self._block(st.orelse, e2, guards + [(t, False)])
            pb = self.param_of
            self.param_of = {k: pa.get(k, set()) | pb.get(k, set()) for k in set(pa) | set(pb)}
            # merge environments: keep values that agree, otherwise drop
            if r1 == 'stop' and r2 != 'stop':
                env.clear()
                env.update(e2)
                return guards + [(t, False)]
            if r2 == 'stop' and r1 != 'stop':
                env.clear()
                env.update(e1)
                return guards + [(t, True)]
            if r1 == 'stop' and r2 == 'stop':
                return 'stop'
            differ = [k for k in set(e1) | set(e2) if e1.get(k) is not e2.get(k) and e1.get(k) != e2.get(k)]
            if differ and self._fork_budget > 0 and (k for k in differ):
                self._fork_budget -= 1
                return ('fork', (e1, guards + [(t, True)], pa), (e2, guards + [(t, False)], pb))
            for k in list(env):
                if e1.get(k) is not e2.get(k) and e1.get(k) != e2.get(k):
                    env.pop(k, None)
            for k in e1:
                if k in e2 and (e1[k] is e2[k] or e1[k] == e2[k]):
                    env[k] = e1[k]
            return None
        if isinstance(st, ast.Return):
            if st.value is None:
                return 'stop' if not guards else None
            elts = st.value.elts if isinstance(st.value, ast.Tuple) else [st.value]
            for ci, el in enumerate(elts):
                self._scan_internal(el, env, guards, returned=True)
                vs = self._script_value(el, env)
                if vs is not None:
                    for segs, extra in vs:
                        v = Variant(self.fi, segs, guards + extra, st.lineno)
                        v.component = ci if isinstance(st.value, ast.Tuple) else None
                        self.results.append(v)
            return 'stop'
        if isinstance(st, ast.Expr) and isinstance(st.value, ast.Call) and isinstance(st.value.func, ast.Attribute) and \
                st.value.func.attr in ('append', 'extend') and isinstance(st.value.func.value, ast.Name) and \
                isinstance(env.get(st.value.func.value.id), tuple) and env[st.value.func.value.id][0] == 'srclist' and \
                len(st.value.args) == 1:
            nm = st.value.func.value.id
            if st.value.func.attr == 'append':
                v = self._src_value(st.value.args[0], env)
                add = [('one', v)] if v is not None else None
            else:
                add = self._list_value(st.value.args[0], env)
            if add is None:
                env.pop(nm, None)
            else:
                env[nm] = ('srclist', list(env[nm][1]) + add)
                self.param_of[nm] = self.param_of.get(nm, set()) | self.prov(st.value.args[0])
            return None
        if isinstance(st, ast.Expr):
            self._scan_internal(st.value, env, guards)
            return None
        if isinstance(st, (ast.While, ast.With, ast.Try)):
            for fld in ('body', 'orelse', 'finalbody'):
                self._block(getattr(st, fld, []) or [], env, guards)
            for h in getattr(st, 'handlers', []) or []:
                self._block(h.body, env, guards)
            return None
        return None

    # ---- values ----------------------------------------------------------------
    def _list_value(self, e, env):
        """A list of source lines -> [('one', segs) | ('rep', segs, iter ast, note)] | None."""
        if isinstance(e, ast.List):
            items = []
            for x in e.elts:
                v = self._src_value(x, env)
                if v is None:
                    return None
                items.append(('one', v))
            return items
        if isinstance(e, ast.ListComp) and len(e.generators) == 1 and not e.generators[0].ifs:
            g = e.generators[0]
            for lv in [n.id for n in ast.walk(g.target) if isinstance(n, ast.Name)]:
                self.param_of[lv] = self.prov(g.iter)
            v = self._src_value(e.elt, env)
            if v is None:
                return None
            return [('rep', v, g.iter, f'for {ast.unparse(g.target)} in {ast.unparse(g.iter)}')]
        if isinstance(e, ast.BinOp) and isinstance(e.op, ast.Add):
            a, b = self._list_value(e.left, env), self._list_value(e.right, env)
            if a is not None and b is not None:
                return a + b
            return None
        if isinstance(e, ast.Name) and isinstance(env.get(e.id), tuple) and env[e.id] and env[e.id][0] == 'srclist':
            return list(env[e.id][1])
        return None

    def _join_lines(self, sep: str, items):
        if sep.strip() != '':
            return None             # only whitespace separators keep the token structure independent of the count
        out = []
        for i, it in enumerate(items):
            if i:
                out.append(Seg('text', sep))
            if it[0] == 'one':
                out += list(it[1])
            else:
                out.append(Seg('repeat', body=list(it[1]) + [Seg('text', sep)], count=it[2], note=it[3]))
        return out

    def _src_value(self, e, env):
        """Source text value of a str-typed expression -> list[Seg] | None."""
        if isinstance(e, ast.Call) and isinstance(e.func, ast.Attribute) and e.func.attr == 'join' and \
                isinstance(e.func.value, ast.Constant) and isinstance(e.func.value.value, str) and len(e.args) == 1 and \
                not isinstance(e.args[0], ast.ListComp):
            items = self._list_value(e.args[0], env)
            if items is not None:
                return self._join_lines(e.func.value.value, items)
        if isinstance(e, ast.Constant) and isinstance(e.value, str):
            return [Seg('text', e.value)]
        if isinstance(e, ast.JoinedStr):
            return self._fstring(e, env)
        if isinstance(e, ast.Name) and e.id in env and isinstance(env[e.id], list):
            return list(env[e.id])
        if isinstance(e, ast.BinOp) and isinstance(e.op, ast.Add):
            l, r = self._src_value(e.left, env), self._src_value(e.right, env)
            if l is not None and r is not None:
                return l + r
            # 'push x' + key.hex() + ' check_sig': the non-literal side is a hole, as in an f-string
            if l is not None and r is None and not _is_scriptish(e.right):
                h = Hole(e.right, self.fi, self.prov(e.right))
                return l + [Seg('text', mark(h), {h.id: h})]
            if r is not None and l is None and not _is_scriptish(e.left):
                h = Hole(e.left, self.fi, self.prov(e.left))
                return [Seg('text', mark(h), {h.id: h})] + r
            return None
        if isinstance(e, ast.Call) and isinstance(e.func, ast.Attribute) and e.func.attr == 'join' and \
                isinstance(e.func.value, ast.Constant) and e.args and isinstance(e.args[0], ast.ListComp):
            # ' true\npush '.join([f'x{c.hex()}' for c in certs])
            lc = e.args[0]
            inner = self._src_value(lc.elt, env) if isinstance(lc.elt, (ast.JoinedStr, ast.Constant)) else None
            if inner is None:
                return None
            sep = e.func.value.value
            for lv in [n.id for n in ast.walk(lc.generators[0].target) if isinstance(n, ast.Name)]:
                self.param_of[lv] = self.prov(lc.generators[0].iter)
            inner = self._src_value(lc.elt, env)
            again = self._src_value(lc.elt, env)
            if sep.strip() == '':
                # a whitespace (or empty) separator: simply the element repeated, like an accumulating loop
                return [Seg('repeat', body=inner + [Seg('text', sep if sep else ' ')], count=lc.generators[0].iter,
                            note=f'join over {ast.unparse(lc.generators[0].iter)}')]
            return inner + [Seg('repeat', body=[Seg('text', sep)] + again, count=lc.generators[0].iter,
                                note=f'join over {ast.unparse(lc.generators[0].iter)}: first element, then '
                                     f'(separator, element) len-1 times', )]
        return None

    def _fstring(self, e: ast.JoinedStr, env):
        segs = []
        cur = Seg('text', '')
        for v in e.values:
            if isinstance(v, ast.Constant):
                cur.text += str(v.value)
            elif isinstance(v, ast.FormattedValue):
                x = v.value
                # {other_builder(...).src} / {name.src}: inline script source
                inl = None
                if isinstance(x, ast.Attribute) and x.attr == 'src':
                    try:
                        inl = self._script_value(x.value, env)
                    except AnalysisError:
                        inl = None
                if inl is not None:
                    if len(inl) != 1:
                        raise AnalysisError(f'{self.fi.key}: interpolated builder has several variants')
                    if cur.text or cur.holes:
                        segs.append(cur)
                    segs += inl[0][0]
                    cur = Seg('text', '')
                    continue
                if isinstance(x, ast.Name) and isinstance(env.get(x.id), list) and v.format_spec is None and \
                        v.conversion == -1:
                    # a local that holds template text itself (`op = 'check_timestamp_verify'`): part of the template
                    if cur.text or cur.holes:
                        segs.append(cur)
                    segs += list(env[x.id])
                    cur = Seg('text', '')
                    continue
                h = Hole(x, self.fi, self.prov(x))
                h.resolved = self._resolve(x)
                h.resolved_text = ast.unparse(h.resolved)
                cur.text += mark(h)
                cur.holes[h.id] = h
        if cur.text or cur.holes:
            segs.append(cur)
        return segs

    def _script_value(self, e, env):
        """Script-valued expression -> list of (segs, extra guards) | None."""
        if isinstance(e, ast.Call):
            nm = dotted(e.func) or ''
            if nm in SRC_SINKS and e.args:
                v = self._src_value(e.args[0], env)
                if v is None:
                    raise AnalysisError(f'{self.fi.key}: source passed to {nm} at line {e.lineno} is not '
                                        f'statically a template')
                return [(v, [])]
            if nm == 'Script' and len(e.args) == 2:
                v = self._src_value(e.args[0], env)
                if v is not None:
                    return [(v, [])]
                return None
            fr = None
            if isinstance(e.func, ast.Name):
                fr = self.w.resolve_call(self.fi, e)
            if fr is not None and fr.module == 'tools':
                callee = self.w.repo.modules['tools'].funcs.get(fr.name)
                if callee is not None:
                    vs = self.ex.variants(callee)
                    if not vs:
                        return None
                    bound = _bind(callee, e)
                    out = []
                    for v in vs:
                        # select variants consistent with constant arguments
                        keep = True
                        extra = []
                        for t, pol in v.guards:
                            val = _eval_guard(t, bound)
                            if val is None:
                                extra.append((f'{callee.name}:{t}', pol))
                            elif val != pol:
                                keep = False
                        if keep:
                            out.append((self._rebind(v, bound), extra))
                    return out
            return None
        if isinstance(e, ast.BinOp) and isinstance(e.op, ast.Add):
            l, r = self._script_value(e.left, env), self._script_value(e.right, env)
            if l is None or r is None:
                return None
            out = []
            for ls, lg in l:
                for rs, rg in r:
                    out.append((ls + [Seg('text', '\n')] + rs, lg + rg))
            return out
        if isinstance(e, ast.Name) and e.id in env and isinstance(env[e.id], tuple) and env[e.id][0] == 'script':
            return env[e.id][1]
        if isinstance(e, ast.IfExp):
            a, b = self._script_value(e.body, env), self._script_value(e.orelse, env)
            if a is None or b is None:
                return None
            t = ast.unparse(e.test)
            return [(s, g + [(t, True)]) for s, g in a] + [(s, g + [(t, False)]) for s, g in b]
        return None

    def _rebind(self, v: Variant, bound: dict):
        """Copy the callee's segments, translating hole provenance to this builder's parameters."""
        def conv(segs):
            out = []
            for s in segs:
                if s.kind == 'repeat':
                    out.append(Seg('repeat', body=conv(s.body), count=s.count, note=s.note))
                    continue
                ns = Seg(s.kind, s.text, {}, note=s.note)
                for hid, h in s.holes.items():
                    params = set()
                    for p in h.params:
                        a = bound.get(p)
                        if a is not None:
                            params |= self.prov(a)
                        # unbound parameter: callee default - no caller parameter involved
                    nh = Hole(h.expr, h.fi, params, binding={p: bound.get(p) for p in h.params})
                    nh.resolved, nh.resolved_text = h.resolved, h.resolved_text
                    ns.text = ns.text.replace(mark(h), mark(nh))
                    ns.holes[nh.id] = nh
                    nh.origin = h
                out.append(ns)
            return out
        return conv(v.segs)

    def _scan_internal(self, e, env, guards, returned=False):
        """Templates compiled but not returned: run_script(compile_script(f'...')) helpers."""
        for n in ast.walk(e):
            if isinstance(n, ast.Call) and (dotted(n.func) or '') in SRC_SINKS and n.args:
                if returned and n is e:
                    continue
                v = self._src_value(n.args[0], env)
                if v is not None:
                    self.internal.append(Variant(self.fi, v, list(guards), n.lineno))


def _is_scriptish(e: ast.AST) -> bool:
    """Expressions that denote Script objects (handled by _script_value), not text."""
    if isinstance(e, ast.Call):
        nm = dotted(e.func) or ''
        return nm in SRC_SINKS or nm == 'Script' or nm.startswith(('make_', '_make_'))
    return False


def _bind(callee, call: ast.Call) -> dict:
    out = {}
    params = callee.params
    for p, a in zip(params, call.args):
        out[p] = a
    for k in call.keywords:
        if k.arg:
            out[k.arg] = k.value
    for p, d in callee.defaults.items():
        out.setdefault(p, d)
    return out


def _eval_guard(test_txt: str, bound: dict):
    """Evaluate a callee guard such as `op_verify` under constant arguments."""
    try:
        t = ast.parse(test_txt, mode='eval').body
    except SyntaxError:
        return None
    if isinstance(t, ast.Name) and t.id in bound and isinstance(bound[t.id], ast.Constant):
        return bool(bound[t.id].value)
    if isinstance(t, ast.UnaryOp) and isinstance(t.op, ast.Not) and isinstance(t.operand, ast.Name) and \
            t.operand.id in bound and isinstance(bound[t.operand.id], ast.Constant):
        return not bool(bound[t.operand.id].value)
    return None


# ---------------------------------------------------------------------------
# tokenizer and parser
# ---------------------------------------------------------------------------

class Tok:
    def __init__(self, text: str, holes: dict[int, Hole]):
        self.text = text
        self.holes = {int(m): holes[int(m)] for m in re.findall(MARK + r'(\d+)' + MARK, text)}

    @property
    def plain(self) -> str:
        return re.sub(MARK + r'\d+' + MARK, '{}', self.text)

    @property
    def upper(self) -> str:
        return self.plain.upper()

    def is_value(self) -> bool:
        p = self.plain
        return len(p) >= 1 and p[0] in 'dxsfDXSF' and (len(p) == 1 or p[1:].replace('{}', '').replace('-', '').replace('.', '').isalnum()
                                                       or p[1] in '"\'' or p[1:].replace('{}', '') == '')

    def vtype(self):
        p = self.plain
        if p[0] in 'xX':
            return 'hex'
        if p[0] in 'dD':
            return 'dec'
        if p[0] in 'sS':
            return 'str'
        if p[0] in 'fF':
            return 'float'
        return None

    def literal(self):
        """Literal value of a hole-free value token."""
        if self.holes:
            return None
        p = self.plain
        try:
            if p[0] in 'dD':
                return int(p[1:])
            if p[0] in 'xX':
                return bytes.fromhex(p[1:])
        except ValueError:
            return None
        return None

    def __repr__(self):
        return self.plain


class Node:
    def __init__(self, kind, **kw):
        self.kind = kind
        self.__dict__.update(kw)

    def __repr__(self):
        return f'{self.kind}:{self.__dict__.get("name", "")}'


def tokenize(segs: list[Seg]) -> list:
    """-> list of Tok | ('repeat', [tokens], count ast, note)"""
    out = []
    pending = ''
    holes = {}

    def flush_text(text, hs):
        # whitespace split like get_symbols (string values with spaces are not used by templates)
        toks = []
        for t in text.split():
            toks.append(Tok(t, hs))
        return toks

    buf_text = ''
    buf_holes = {}
    for s in segs:
        if s.kind == 'text':
            buf_text += s.text
            buf_holes.update(s.holes)
        elif s.kind == 'repeat':
            out += flush_text(buf_text, buf_holes)
            buf_text, buf_holes = '', {}
            out.append(('repeat', tokenize(s.body), s.count, s.note))
        else:
            raise AnalysisError(f'unknown segment kind {s.kind}')
        # segments are concatenated without separators: keep accumulating
    out += flush_text(buf_text, buf_holes)
    return out


class Parser:
    """Parses the token list into a tree.  Arity of each op (number of value symbols it takes
    in source form) comes from the compiler's own dispatch (get_args)."""

    def __init__(self, w: World, arity: dict[str, int]):
        self.w = w
        self.arity = arity
        self.aliases = w.ops.aliases

    def canon(self, up: str) -> str | None:
        if up in self.w.ops.by_name:
            return up
        if up in self.aliases:
            return self.aliases[up]
        if 'OP_' + up in self.w.ops.by_name:
            return 'OP_' + up
        if up in ('PUSH', 'OP_PUSH'):
            return 'OP_PUSH'
        return None

    def parse(self, toks: list, label='') -> list[Node]:
        self.toks = toks
        self.i = 0
        self.label = label
        nodes = self._seq(end=None)
        return nodes

    def _peek(self):
        return self.toks[self.i] if self.i < len(self.toks) else None

    def _next(self):
        t = self._peek()
        self.i += 1
        return t

    def _seq(self, end):
        nodes = []
        while self.i < len(self.toks):
            t = self._peek()
            if isinstance(t, tuple):
                self.i += 1
                sub = Parser(self.w, self.arity).parse(t[1], self.label)
                nodes.append(Node('repeat', body=sub, count=t[2], note=t[3]))
                continue
            if end is not None and t.plain in end:
                return nodes
            nodes.append(self._stmt())
        if end is not None:
            raise AnalysisError(f'{self.label}: missing {end}')
        return nodes

    def _block(self):
        t = self._next()
        if t is None or isinstance(t, tuple) or t.plain != '{':
            raise AnalysisError(f'{self.label}: expected {{ but found {t!r}')
        body = self._seq(end=('}',))
        self._next()
        return body

    def _stmt(self) -> Node:
        t = self._next()
        p = t.plain
        up = t.upper
        if p == '#':
            # comment up to the matching #
            while True:
                x = self._next()
                if x is None:
                    raise AnalysisError(f'{self.label}: unterminated comment')
                if not isinstance(x, tuple) and x.plain == '#':
                    break
            return Node('comment')
        if p.startswith('@='):
            name = self._next()
            nxt = self._next()
            if nxt.plain == '[':
                vals = []
                while True:
                    v = self._next()
                    if v is None:
                        raise AnalysisError(f'{self.label}: unterminated @= list')
                    if v.plain == ']':
                        break
                    vals.append(v)
                return Node('setvar', name=name.plain, values=vals, count=None)
            if nxt.plain.isnumeric():
                return Node('setvar', name=name.plain, values=None, count=int(nxt.plain))
            raise AnalysisError(f'{self.label}: malformed @= statement')
        if p.startswith('@#'):
            return Node('sizevar', name=p[2:])
        if p.startswith('@'):
            return Node('getvar', name=p[1:])
        if up in ('IF', 'OP_IF'):
            cond = None
            if self._peek() is not None and not isinstance(self._peek(), tuple) and self._peek().plain == '(':
                self._next()
                cond = self._seq(end=(')',))
                self._next()
            then = self._block()
            els = None
            nx = self._peek()
            if nx is not None and not isinstance(nx, tuple) and nx.upper == 'ELSE':
                self._next()
                els = self._block()
            return Node('if', cond=cond, then=then, orelse=els)
        if up in ('DEF', 'OP_DEF'):
            h = self._next()
            body = self._block()
            return Node('def', handle=h.plain, body=body)
        if up in ('TRY', 'OP_TRY'):
            body = self._block()
            exc = None
            nx = self._peek()
            if nx is not None and not isinstance(nx, tuple) and nx.upper == 'EXCEPT':
                self._next()
                exc = self._block()
            return Node('try', body=body, orelse=exc)
        if up in ('LOOP', 'OP_LOOP'):
            return Node('loop', body=self._block())
        if MARK in t.text and not t.is_value() and self.canon(up) is None:
            # a free-standing hole: interpolated script source (e.g. {sign_script_prefix})
            return Node('script_hole', tok=t)
        op = self.canon(up)
        if op is None:
            raise AnalysisError(f'{self.label}: unknown token `{p}` in template')
        n = self.arity.get(op)
        if n is None:
            raise AnalysisError(f'{self.label}: arity of {op} unknown')
        operands = []
        for _ in range(n):
            v = self._next()
            if v is None or isinstance(v, tuple):
                raise AnalysisError(f'{self.label}: {op} lacks an operand')
            if v.plain in ('~', '~!'):
                kind = v.plain
                body = self._block()
                operands.append(Node('comptime', mode=kind, body=body))
                continue
            if not v.is_value():
                raise AnalysisError(f'{self.label}: operand `{v.plain}` of {op} is not a value')
            operands.append(v)
        return Node('op', name=op, operands=operands, tok=t)


def source_arity(w: World) -> dict[str, int]:
    """op name -> number of value symbols following it in source form, from get_args."""
    from .summary import match_tables
    ga = w.repo.func('parsing', 'get_args')
    out = {}
    helper_n = {}

    def n_of(helper):
        if helper in helper_n:
            return helper_n[helper]
        hf = w.repo.func('parsing', helper)
        incs = []
        # the advance counter is the parameter handed back as the first element of the result pair
        adv = None
        for n in ast.walk(hf.node):
            if isinstance(n, ast.Return) and isinstance(n.value, ast.Tuple) and len(n.value.elts) == 2 and \
                    isinstance(n.value.elts[0], ast.Name) and n.value.elts[0].id in hf.params:
                adv = n.value.elts[0].id
        if adv is None:
            adv = hf.params[2] if len(hf.params) > 2 else None      # (opname, symbols, <advance counter>, ...)
        for n in ast.walk(hf.node):
            if isinstance(n, ast.AugAssign) and isinstance(n.target, ast.Name) and n.target.id == adv \
                    and isinstance(n.value, ast.Constant):
                incs.append(n.value.value)
            if isinstance(n, ast.Return) and isinstance(n.value, ast.Call) and isinstance(n.value.func, ast.Name) \
                    and n.value.func.id.startswith('_get_') and n.value.func.id != helper:
                helper_n[helper] = n_of(n.value.func.id)
                return helper_n[helper]
        if not incs:
            raise AnalysisError(f'{helper}: increment of the advance counter (the parameter returned first) not found')
        helper_n[helper] = min(incs)
        return helper_n[helper]

    for mt, cases in match_tables(ga):
        for labels, c in cases:
            helper = None
            for n in ast.walk(c):
                if isinstance(n, ast.Return) and isinstance(n.value, ast.Call) and isinstance(n.value.func, ast.Name):
                    helper = n.value.func.id
            for l in labels:
                if isinstance(l, str):
                    out[l] = n_of(helper) if helper else 0
    return out
