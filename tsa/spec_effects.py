"""Documented tape operands and stack effect of every instruction, transcribed by hand from the op
reference (docs.md / the handler docstrings it is generated from) read with language_spec.md.

This table is a *specification*, not a copy of code: each entry says which operands the instruction
takes from the tape (size classes in read order: '1' one byte, '2' two bytes, '4', '32',
'n[u1]' / 'n[u2]' a body whose length is the preceding 1- / 2-byte unsigned field) and how many stack
items it needs and how the depth changes, as functions of the operand values.  C06.R4 / R5 compare
it with what the handler's code does for a set of operand samples that includes the boundary values.

Entries marked DATA are documented to depend on run-time data (sub-script, cache contents, a count
popped from the stack): their depth effect is not a function of the tape operands and is not checked
(their operand layout still is).
"""
from __future__ import annotations

DATA = 'data-dependent'
RAISES = 'raises'


def popcount(x: int) -> int:
    return bin(x & 0xFF).count('1')


class E:
    def __init__(self, reads, samples, needs, net, why=''):
        self.reads = list(reads)
        self.samples = samples
        self.needs = needs
        self.net = net
        self.why = why

    def want(self, ops):
        if self.net == DATA:
            return DATA
        n = self.needs(ops) if callable(self.needs) else self.needs
        d = self.net(ops) if callable(self.net) else self.net
        if d == RAISES:
            return RAISES
        return (n, d)


def fixed(needs, net, reads=(), samples=None):
    return E(reads, samples or [tuple(None if r.startswith('n[') else 0 for r in reads)], needs, net)


def data(reads, why):
    return E(reads, [], None, DATA, why)


COUNTS = [(0,), (1,), (2,), (3,), (128,), (255,)]
COUNTS1 = [(1,), (2,), (3,), (128,), (255,)]
FLAGS = [(0,), (1,), (2,), (3,), (0x80,), (0x55,), (0xFF,)]

SPEC = {
    'OP_FALSE': fixed(0, 1),
    'OP_TRUE': fixed(0, 1),
    'OP_PUSH0': fixed(0, 1, ['1'], [(0,), (7,), (255,)]),
    'OP_PUSH1': fixed(0, 1, ['1', 'n[u1]'], [(0, None), (3, None), (255, None)]),
    'OP_PUSH2': fixed(0, 1, ['2', 'n[u2]'], [(0, None), (3, None), (1024, None)]),
    'OP_GET_MESSAGE': fixed(0, 1, ['1'], FLAGS),
    'OP_POP0': fixed(1, -1),
    'OP_POP1': E(['1'], COUNTS, lambda o: o[0], lambda o: -o[0]),
    'OP_SIZE': fixed(1, 0),
    'OP_WRITE_CACHE': E(['1', 'n[u1]', '1'], [(1, None, 0), (1, None, 1), (2, None, 3), (1, None, 255)],
                        lambda o: o[2], lambda o: -o[2]),
    'OP_READ_CACHE': data(['1', 'n[u1]'], 'puts as many items as the cache holds at the key'),
    'OP_READ_CACHE_SIZE': fixed(0, 1, ['1', 'n[u1]'], [(1, None), (3, None)]),
    'OP_READ_CACHE_STACK': data([], 'puts as many items as the cache holds at the popped key'),
    'OP_READ_CACHE_STACK_SIZE': fixed(1, 0),
    'OP_ADD_INTS': E(['1'], COUNTS, lambda o: o[0], lambda o: 1 - o[0]),
    'OP_SUBTRACT_INTS': E(['1'], COUNTS1, lambda o: o[0], lambda o: 1 - o[0]),
    'OP_MULT_INTS': E(['1'], COUNTS1, lambda o: o[0], lambda o: 1 - o[0]),
    'OP_DIV_INT': fixed(1, 0, ['1', 'n[u1]'], [(1, 5), (2, 300)]),
    'OP_DIV_INTS': fixed(2, -1),
    'OP_MOD_INT': fixed(1, 0, ['1', 'n[u1]'], [(1, 5), (2, 300)]),
    'OP_MOD_INTS': fixed(2, -1),
    'OP_ADD_FLOATS': E(['1'], COUNTS, lambda o: o[0], lambda o: 1 - o[0]),
    'OP_SUBTRACT_FLOATS': E(['1'], COUNTS1, lambda o: o[0], lambda o: 1 - o[0]),
    'OP_DIV_FLOAT': fixed(1, 0, ['4'], [(None,)]),
    'OP_DIV_FLOATS': fixed(2, -1),
    'OP_MOD_FLOAT': fixed(1, 0, ['4'], [(None,)]),
    'OP_MOD_FLOATS': fixed(2, -1),
    'OP_ADD_POINTS': E(['1'], COUNTS, lambda o: o[0], lambda o: 1 - o[0]),
    'OP_COPY': E(['1'], COUNTS, 1, lambda o: o[0]),
    'OP_DUP': fixed(1, 1),
    'OP_SHA256': fixed(1, 0),
    'OP_SHAKE256': fixed(1, 0, ['1'], [(0,), (20,), (255,)]),
    'OP_VERIFY': fixed(1, -1),
    'OP_EQUAL': fixed(2, -1),
    'OP_EQUAL_VERIFY': fixed(2, -2),
    'OP_CHECK_SIG': fixed(2, -1, ['1'], FLAGS),
    'OP_CHECK_SIG_VERIFY': fixed(2, -2, ['1'], FLAGS),
    'OP_CHECK_TIMESTAMP': fixed(1, 0),
    'OP_CHECK_TIMESTAMP_VERIFY': fixed(1, -1),
    'OP_CHECK_EPOCH': fixed(1, 0),
    'OP_CHECK_EPOCH_VERIFY': fixed(1, -1),
    'OP_DEF': fixed(0, 0, ['1', '2', 'n[u2]'], [(0, 0, None), (5, 3, None), (255, 1000, None)]),
    'OP_CALL': data(['1'], 'runs the named definition'),
    'OP_IF': data(['2', 'n[u2]'], 'pops the condition, then runs the body or not'),
    'OP_IF_ELSE': data(['2', 'n[u2]', '2', 'n[u2]'], 'pops the condition, then runs one of the bodies'),
    'OP_EVAL': data([], 'pops a script and runs it'),
    'OP_NOT': fixed(1, 0),
    'OP_RANDOM': fixed(1, 0),
    'OP_RETURN': fixed(0, 0),
    'OP_SET_FLAG': fixed(0, 0, ['1', 'n[u1]'], [(1, None), (4, None)]),
    'OP_UNSET_FLAG': fixed(0, 0, ['1', 'n[u1]'], [(1, None), (4, None)]),
    'OP_DEPTH': fixed(0, 1),
    'OP_SWAP': E(['1', '1'], [(0, 0), (0, 1), (5, 2), (255, 0)], lambda o: None if o[0] == o[1] else max(o) + 1, 0),   # equal depths: a no-op, need not documented
    'OP_SWAP2': fixed(2, 0),
    'OP_REVERSE': E(['1'], COUNTS, lambda o: o[0], 0),
    'OP_CONCAT': fixed(2, -1),
    'OP_SPLIT': fixed(2, 0),
    'OP_CONCAT_STR': fixed(2, -1),
    'OP_SPLIT_STR': fixed(2, 0),
    'OP_CHECK_TRANSFER': data([], 'pops a count and then that many sources and proofs'),
    'OP_MERKLEVAL': data(['32'], 'runs the committed branch'),
    'OP_TRY_EXCEPT': data(['2', 'n[u2]', '2', 'n[u2]'], 'runs the bodies'),
    'OP_LESS': fixed(2, -1),
    'OP_LESS_OR_EQUAL': fixed(2, -1),
    'OP_GET_VALUE': data(['1', 'n[u1]'], 'puts one item per value stored under the key'),
    'OP_FLOAT_LESS': fixed(2, -1),
    'OP_FLOAT_LESS_OR_EQUAL': fixed(2, -1),
    'OP_INT_TO_FLOAT': fixed(1, 0),
    'OP_FLOAT_TO_INT': fixed(1, 0),
    'OP_LOOP': data(['2', 'n[u2]'], 'runs the body while the top item is true'),
    'OP_CHECK_MULTISIG': E(['1', '1', '1'], [(0, 0, 0), (0, 1, 1), (0, 2, 3), (3, 3, 2), (0, 0, 3), (0xFF, 12, 16), (0, 255, 0), (0, 0, 255)],
                           lambda o: o[1] + o[2], lambda o: 1 - (o[1] + o[2])),
    'OP_CHECK_MULTISIG_VERIFY': E(['1', '1', '1'], [(0, 0, 0), (0, 1, 1), (0, 2, 3), (3, 3, 2), (0xFF, 12, 16), (0, 255, 0), (0, 0, 255)],
                                  lambda o: o[1] + o[2], lambda o: -(o[1] + o[2])),
    'OP_SIGN': fixed(1, 0, ['1'], FLAGS),
    'OP_SIGN_STACK': fixed(2, -1),
    'OP_CHECK_SIG_STACK': fixed(3, -2),
    'OP_DERIVE_SCALAR': fixed(1, 0),
    'OP_CLAMP_SCALAR': fixed(1, 0, ['1'], [(0,), (1,), (255,)]),
    'OP_ADD_SCALARS': E(['1'], COUNTS, lambda o: o[0], lambda o: 1 - o[0]),
    'OP_SUBTRACT_SCALARS': E(['1'], COUNTS1, lambda o: o[0], lambda o: 1 - o[0]),
    'OP_DERIVE_POINT': fixed(1, 0),
    'OP_SUBTRACT_POINTS': E(['1'], COUNTS1, lambda o: o[0], lambda o: 1 - o[0]),
    'OP_MAKE_ADAPTER_SIG_PUBLIC': fixed(3, -1),
    'OP_MAKE_ADAPTER_SIG_PRIVATE': fixed(3, 0),
    'OP_CHECK_ADAPTER_SIG': fixed(5, -4),
    'OP_DECRYPT_ADAPTER_SIG': fixed(3, -1),
    'OP_INVOKE': data([], 'pops an argument count, that many arguments, and puts what the contract returns'),
    'OP_XOR': fixed(2, -1),
    'OP_OR': fixed(2, -1),
    'OP_AND': fixed(2, -1),
    'OP_CHECK_TEMPLATE': E(['1'], FLAGS, lambda o: popcount(o[0]), lambda o: 1 - popcount(o[0])),
    'OP_CHECK_TEMPLATE_VERIFY': E(['1'], FLAGS, lambda o: popcount(o[0]), lambda o: -popcount(o[0])),
    'OP_TAPROOT': data(['1'], 'key path or script path, chosen by the length of a stack item'),
    # NOP codes: one signed count byte; that many items are removed; a negative count is an error
    'NOP': E(['1'], [(0,), (1,), (2,), (127,), (128,), (255,)], lambda o: o[0],
             lambda o: RAISES if o[0] >= 128 else -o[0]),
}
