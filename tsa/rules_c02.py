"""C02 - signature instructions verify exactly the flag-selected message (structural clauses)."""
from __future__ import annotations
import ast
import re
from .report import Report, AnalysisError
from .summary import World, node_events
from .model import dotted
from .symwalk import SymWalk, mask_of, atoms_of
from . import linear as L
from .guards import edge_formula

LEVEL = 'other'
REL = 'tapescript/functions.py'
NACL_CONST = {'nacl.bindings.crypto_sign_PUBLICKEYBYTES': 32, 'nacl.bindings.crypto_sign_BYTES': 64,
              'nacl.bindings.crypto_core_ed25519_BYTES': 32, 'nacl.bindings.crypto_sign_SEEDBYTES': 32,
              'nacl.bindings.crypto_core_ed25519_SCALARBYTES': 32}


def _field_key(e: ast.AST):
    if isinstance(e, ast.Constant) and isinstance(e.value, str):
        m = re.fullmatch(r'sigfield(\d+)', e.value)
        if m:
            return int(m.group(1))
    return None


def _cache_sub_key(e: ast.AST, cache: str):
    """cache['sigfieldN'] / cache.get('sigfieldN') -> N"""
    if isinstance(e, ast.Subscript) and isinstance(e.value, ast.Name) and e.value.id == cache:
        return _field_key(e.slice)
    if isinstance(e, ast.Call) and isinstance(e.func, ast.Attribute) and e.func.attr == 'get' and \
            isinstance(e.func.value, ast.Name) and e.func.value.id == cache and len(e.args) == 1:
        return _field_key(e.args[0])
    return None


def _resolve_consts(e: ast.AST) -> ast.AST:
    """Replace nacl.bindings.* length constants by their values (the only external constants trusted)."""
    class T(ast.NodeTransformer):
        def visit_Attribute(self, n):
            d = dotted(n)
            if d in NACL_CONST:
                return ast.Constant(value=NACL_CONST[d])
            return self.generic_visit(n)
    import copy
    return ast.fix_missing_locations(T().visit(copy.deepcopy(e)))


def run(w: World, rep: Report):
    rep.rule('C02.R1', 'message builder: sigfield i is appended exactly when present and bit 1<<(i-1) of the flag is '
             'clear; all eight, once each, in ascending order', floor=8)
    rep.rule('C02.R2', 'allowed-flag subset check in OP_CHECK_SIG: for each bit the same mask on the signature flag and '
             'on the allowed operand, script-error class, before message build and verification', floor=8)
    rep.rule('C02.R3', 'one message builder: only it (and the template check) read the sigfields; verify/sign use the '
             'item popped right after it; the signature\'s own flag byte / the operand byte reaches it', floor=6)
    rep.rule('C02.R4', 'length guards (key 32, signature 64/65 resp. 64) dominate every verification', floor=4)
    rep.rule('C02.R5', 'result mapping: true only on the fall-through of verify; the bad-signature handler puts false', floor=4)
    rep.rule('C02.R7', 'OP_CHECK_TEMPLATE flag table: field i is selected by bit 1<<(i-1)', floor=8)
    from . import symwalk as _sw
    from .feval import module_consts
    _sw.DEFAULT_CONSTS[0] = module_consts(w.repo, 'functions')
    gm = w.handler_for('OP_GET_MESSAGE')
    cs = w.handler_for('OP_CHECK_SIG')
    css = w.handler_for('OP_CHECK_SIG_STACK')
    sg = w.handler_for('OP_SIGN')
    ct = w.handler_for('OP_CHECK_TEMPLATE')
    for h in (gm, cs, css, sg, ct):
        rep.covered('handlers', h.name)

    # ---- R1 ---------------------------------------------------------------
    cache = gm.params[2]
    sw = SymWalk(gm.node)
    # the flag variable: local assigned from the unsigned decode of a 1-byte read of the own tape
    flag_vars = _flag_vars_from_tape(w, gm)
    if not flag_vars:
        raise AnalysisError('OP_GET_MESSAGE: flag decode from the tape not found')
    appends = [e for e in sw.events if e.kind == 'aug' and _cache_sub_key(e.expr, cache) is not None]
    msg_targets = {e.target for e in appends}
    seen = []
    for e in appends:
        i = _cache_sub_key(e.expr, cache)
        seen.append(i)
        atoms = []
        bad = None
        for t, pol in e.guards:
            a = atoms_of(t, pol)
            if a is None:
                bad = f'guard `{ast.unparse(t)[:50]}` is not a conjunction'
                break
            atoms += a
        want_mask = 1 << (i - 1)
        has_presence, has_mask = False, False
        extra = []
        for a, pol in atoms:
            if isinstance(a, ast.Compare) and len(a.ops) == 1 and isinstance(a.ops[0], (ast.In, ast.NotIn)) and \
                    isinstance(a.comparators[0], ast.Name) and a.comparators[0].id == cache:
                k = _field_key(a.left)
                present = pol if isinstance(a.ops[0], ast.In) else not pol
                if k == i and present:
                    has_presence = True
                else:
                    extra.append(f'presence test of sigfield{k} (polarity {present})')
                continue
            if isinstance(a, ast.Compare) and len(a.ops) == 1 and isinstance(a.ops[0], (ast.Is, ast.IsNot)) and \
                    isinstance(a.comparators[0], ast.Constant) and a.comparators[0].value is None and \
                    _cache_sub_key(a.left, cache) is not None:
                k = _cache_sub_key(a.left, cache)
                present = (not pol) if isinstance(a.ops[0], ast.Is) else pol
                if k == i and present:
                    has_presence = True
                else:
                    extra.append(f'presence test of sigfield{k} (polarity {present})')
                continue
            m = mask_of(a, flag_vars)
            if m is not None:
                if m[1] == want_mask and pol is False:
                    has_mask = True
                else:
                    extra.append(f'flag mask {m[1]:#04x} with polarity {pol}')
                continue
            extra.append(f'unexpected condition `{ast.unparse(a)[:40]}`')
        why = bad or ''
        if not why and not has_presence:
            why = f'sigfield{i} is appended without testing that sigfield{i} is present'
        if not why and not has_mask:
            why = f'sigfield{i} is appended unless a bit other than {want_mask:#04x} is set ({extra})'
        if not why and extra:
            why = f'sigfield{i} append carries extra/mismatched conditions: {extra}'
        rep.check('C02.R1', f'functions.{gm.name}|append|sigfield{i}', not why, line=e.node.lineno, file=REL, why=why,
                  facts={'guards': [('' if p else 'not ') + ast.unparse(t) for t, p in e.guards]})
    order_ok = seen == list(range(1, 9))
    rep.check('C02.R1', f'functions.{gm.name}|order-and-coverage', order_ok, line=gm.node.lineno, file=REL,
              why='' if order_ok else f'fields are appended in order {seen}; expected 1..8 once each, ascending')
    # the message put on the stack is the accumulated variable, initialised empty
    puts = [e for e in sw.events if e.kind == 'call' and dotted(e.node.func) == f'{gm.params[1]}.put']
    ok = len(puts) == 1 and len(msg_targets) == 1 and isinstance(puts[0].node.args[0], ast.Name) and \
        puts[0].node.args[0].id in msg_targets and not puts[0].guards
    init_ok = any(e.kind == 'assign' and e.target in msg_targets and isinstance(e.expr, ast.Constant)
                  and e.expr.value == b'' for e in sw.events)
    other_aug = [e for e in sw.events if e.kind == 'aug' and e.target in msg_targets and _cache_sub_key(e.expr, cache) is None]
    rep.check('C02.R1', f'functions.{gm.name}|result', ok and init_ok and not other_aug, line=gm.node.lineno, file=REL,
              why='' if ok and init_ok and not other_aug else
              'the message is not exactly the concatenation of the selected fields starting from b\'\'')

    # ---- R2 -----------------------------------------------------------------
    scfg0 = w.cfg(cs)
    sw2 = SymWalk(cs.node, guard_class=lambda c: scfg0.exc.guard_class('functions', c))
    allow_vars = _flag_vars_from_tape(w, cs)
    if not allow_vars:
        raise AnalysisError('OP_CHECK_SIG: allowed-flags decode not found')
    sigflag_vars = set()
    for e in sw2.events:
        if e.kind == 'assign' and e.target and isinstance(e.node, ast.Assign):
            # the flag is the 65th byte of a 65-byte signature and 0 for a 64-byte one - decided by evaluating the
            # defining expression on a 64- and a 65-byte string whose bytes are their own positions
            srcs = {n.id for n in ast.walk(e.node.value) if isinstance(n, ast.Name)}
            for sv_ in srcs:
                vals = _value_by_length(e.node.value, sv_, (64, 65))
                if vals is not None and vals[64] == 0 and vals[65] == 64 and type(vals[65]) is int:
                    sigflag_vars.add(e.target)
    if len(sigflag_vars) != 1:
        rep.check('C02.R3', f'functions.{cs.name}|flag-from-signature', False, line=cs.node.lineno, file=REL,
                  why='the signature flag is not `sig[-1]` when the signature is 65 bytes, else 0')
    else:
        rep.check('C02.R3', f'functions.{cs.name}|flag-from-signature', True, line=cs.node.lineno, file=REL)
    guards_found = {}
    scfg = w.cfg(cs)
    for e in sw2.events:
        if e.kind != 'guard':
            continue
        cls = e.target
        cond = e.expr
        m_allow = mask_of(cond, allow_vars)
        if m_allow is None:
            # single-guard idiom:  sert(sig_flag & ~allowable == 0)
            continue
        outer = []
        for t, pol in e.guards:
            a = atoms_of(t, pol) or []
            for x, p in a:
                mm = mask_of(x, sigflag_vars)
                if mm is not None and p:
                    outer.append(mm[1])
        guards_found.setdefault(m_allow[1], []).append((outer, cls, getattr(e.node, 'lineno', 0)))
    single = _single_subset_guard(sw2, scfg, sigflag_vars, allow_vars)
    # semantic reading first: the conjunction of all guards that speak about the two flag bytes, each under its path
    # condition, evaluated for every signature flag and a grid of allowed-flags operands, must be `flag & ~allowed == 0`
    # - whatever the spelling (per-bit ifs, one subset test, a loop, all(...) over a generator, shifts, enum masks)
    sem = _subset_semantics(sw2, sigflag_vars, allow_vars) if len(sigflag_vars) == 1 and len(allow_vars) == 1 else None
    for i in range(1, 9):
        m = 1 << (i - 1)
        why = ''
        if sem is not None:
            F = sem
            if F(m, 0xFF ^ m) is not False:
                why = f'a signature flag with bit {m:#04x} set is not refused when the allowed-flags operand lacks that bit'
            elif F(m, m) is not True or F(m, 0xFF) is not True:
                why = f'a signature flag with bit {m:#04x} set is refused although the allowed-flags operand permits it'
        elif single:
            pass
        elif m not in guards_found:
            why = f'no guard requires bit {m:#04x} of the allowed-flags operand'
        else:
            outer, cls, line = guards_found[m][0]
            if outer != [m]:
                why = (f'bit {m:#04x} of the allowed operand is checked when signature-flag bit(s) '
                       f'{[hex(x) for x in outer]} are set: mask mismatch')
            elif cls != 'ScriptExecutionError':
                why = ''      # a different error class is still an error, never true: tolerated
        rep.check('C02.R2', f'functions.{cs.name}|allowed-bit|{m:#04x}', not why, line=cs.node.lineno, file=REL, why=why)
    if sem is not None:
        cex = None
        grid = [0, 0xFF] + [1 << b for b in range(8)] + [0xFF ^ (1 << b) for b in range(8)] + [0x55, 0xAA, 0x0F, 0xF0, 0x7B]
        for a_ in grid:
            for v_ in range(256):
                if sem(v_, a_) is not ((v_ & ~a_ & 0xFF) == 0):
                    cex = (v_, a_, sem(v_, a_))
                    break
            if cex:
                break
        rep.check('C02.R2', f'functions.{cs.name}|allowed-flags-subset-exact', cex is None, line=cs.node.lineno, file=REL,
                  why='' if cex is None else
                  f'with signature flag {cex[0]:#04x} and allowed flags {cex[1]:#04x} the guards {"pass" if cex[2] else "refuse"}; '
                  f'documented: pass exactly when every set flag bit is allowed')
    # the guards precede message build and verify (structured order of events)
    first_build = min([e.seq for e in sw2.events if e.kind == 'call' and isinstance(e.node.func, ast.Name)
                       and e.node.func.id == gm.name] or [0])
    last_guard = max([e.seq for e in sw2.events if e.kind == 'guard' and mask_of(e.expr, allow_vars) is not None] or [0])
    if sem is not None:
        from .feval import free_names as _fn
        last_guard = max([e.seq for e in sw2.events if e.kind == 'guard' and (_fn(e.expr) & (allow_vars | sigflag_vars))] or [0])
    ok = first_build > 0 and (single or 0 < last_guard < first_build)
    rep.check('C02.R2', f'functions.{cs.name}|checked-before-verification', ok, line=cs.node.lineno, file=REL,
              why='' if ok else 'the allowed-flag check does not precede message construction / verification')

    # ---- R3 -------------------------------------------------------------------
    readers = set()
    for fi in w.repo.all_funcs(['functions']):
        for n in ast.walk(fi.node):
            if isinstance(n, ast.Constant) and isinstance(n.value, str) and n.value.startswith('sigfield') and \
                    not isinstance(n.value, bytes):
                # docstrings do not count
                readers.add(fi.key)
    for fi in w.repo.all_funcs(['functions']):
        if fi.node.body and isinstance(fi.node.body[0], ast.Expr) and isinstance(fi.node.body[0].value, ast.Constant):
            doc = fi.node.body[0].value
            only_doc = all(n is doc for n in ast.walk(fi.node) if isinstance(n, ast.Constant)
                           and isinstance(n.value, str) and n.value.startswith('sigfield'))
            if only_doc:
                readers.discard(fi.key)
    for fi in w.repo.all_funcs(['functions']):
        for n in ast.walk(fi.node):
            if isinstance(n, ast.JoinedStr) and any(isinstance(v, ast.Constant) and 'sigfield' in str(v.value) for v in n.values):
                readers.add(fi.key)
    allowed = {gm.key, ct.key}
    extra = sorted(readers - allowed)
    rep.check('C02.R3', 'functions|sigfield-readers', not extra, file=REL,
              why='' if not extra else f'{extra} read the sigfields besides the message builder and the template check: '
              f'a second message construction can drift from the first', facts={'readers': sorted(readers)})
    # who verifies / signs
    verifiers, signers = set(), set()
    for fi in w.repo.all_funcs(['functions']):
        for n in ast.walk(fi.node):
            if isinstance(n, ast.Call) and isinstance(n.func, ast.Attribute):
                if n.func.attr == 'verify' and len(n.args) == 2:
                    verifiers.add(fi.key)
                if n.func.attr == 'sign' and len(n.args) == 1:
                    signers.add(fi.key)
    ok = verifiers == {cs.key, css.key}
    rep.check('C02.R3', 'functions|verify-callers', ok, file=REL,
              why='' if ok else f'signature verification happens in {sorted(verifiers)}; expected only OP_CHECK_SIG and '
              f'OP_CHECK_SIG_STACK (MULTISIG, _VERIFY forms and TAPROOT must go through OP_CHECK_SIG)')
    # message used = item popped right after the builder call; builder fed the right byte
    for h, src_kind in ((cs, 'sigflag'), (sg, 'operand')):
        cfgh = w.cfg(h)
        kindsh = w.kinds(h)
        builds = cfgh.nodes_with_call(lambda c: isinstance(c.func, ast.Name) and c.func.id == gm.name)
        ok = len(builds) == 1
        why = '' if ok else f'{h.name} calls the message builder {len(builds)} times'
        if ok:
            bn, bc = builds[0]
            # tape argument: Tape(<flag>.to_bytes(1, 'big'))
            ta, tan = kindsh.origin(bc.args[0], bn)
            fl = None
            if isinstance(ta, ast.Call) and dotted(ta.func) == 'Tape' and len(ta.args) == 1:
                tb, _ = kindsh.origin(ta.args[0], tan)
                if isinstance(tb, ast.Call) and isinstance(tb.func, ast.Attribute) and \
                        tb.func.attr == 'to_bytes' and isinstance(tb.func.value, ast.Name) and \
                        [getattr(a, 'value', None) for a in tb.args] == [1, 'big']:
                    fl = tb.func.value.id
            if fl is None:
                ok, why = False, 'the builder is not given a tape holding exactly the one flag byte'
            else:
                if src_kind == 'sigflag':
                    if fl not in sigflag_vars:
                        ok, why = False, f'the builder receives `{fl}`, not the signature\'s own flag byte'
                else:
                    if fl not in _flag_vars_from_tape(w, h):
                        ok, why = False, f'the builder receives `{fl}`, not the operand byte of OP_SIGN'
            # next statement pops the message
            if ok:
                succs = [s for s, lab in bn.succ if lab != 'exc']
                nxt = succs[0] if len(succs) == 1 else None
                mv = None
                if nxt is not None and nxt.kind == 'stmt' and isinstance(nxt.ast, ast.Assign) and \
                        isinstance(nxt.ast.value, ast.Call) and dotted(nxt.ast.value.func) == f'{h.params[1]}.get':
                    mv = nxt.ast.targets[0].id
                if mv is None:
                    ok, why = False, 'the message is not popped directly after the builder call'
                else:
                    uses = []
                    for b in cfgh.body:
                        for n in ast.walk(b):
                            if isinstance(n, ast.Call) and isinstance(n.func, ast.Attribute) and n.func.attr in ('verify', 'sign'):
                                uses.append(n)
                    if not uses or not all(isinstance(u.args[0], ast.Name) and u.args[0].id == mv for u in uses):
                        ok, why = False, 'verify/sign is applied to something other than the message built by OP_GET_MESSAGE'
                    else:
                        for u in uses:
                            un = cfgh.node_of(u)
                            d = cfgh.defs_reaching(mv, un)
                            if not (len(d) == 1 and d[0][0] is nxt):
                                ok, why = False, 'the message variable is reassigned between the builder and verify/sign'
        rep.check('C02.R3', f'functions.{h.name}|message-from-builder', ok, line=h.node.lineno, file=REL, why=why)
    # OP_SIGN signs whatever message the flags select (the empty one included): its only own failure condition is the
    # key seed length - a guard on the message narrows the signing side below what OP_CHECK_SIG accepts
    sgc = w.cfg(sg)
    sgk = w.kinds(sg)
    bad_g = []
    for t in sgc.nodes:
        if t.kind == 'test' and t.guard is not None:
            for x in ast.walk(t.ast):
                if isinstance(x, ast.Name):
                    kx = sgk.of(x, t)
                    lv = kx.leaves()
                    # the message is the item popped right after the builder call: a stack_item that is not the first pop
                    if lv and all(l.tag == 'stack_item' for l in lv):
                        first_pop = min((n.id for n in sgc.nodes if n.ast is not None and any(
                            isinstance(c, ast.Call) and isinstance(c.func, ast.Attribute) and c.func.attr == 'get'
                            for c in ast.walk(n.ast))), default=None)
                        defs = sgc.defs_reaching(x.id, t)
                        if defs and all(d[0].id != first_pop for d in defs):
                            bad_g.append(ast.unparse(t.ast)[:60])
    rep.check('C02.R3', f'functions.{sg.name}|no-condition-on-the-message', not bad_g, line=sg.node.lineno, file=REL,
              why='' if not bad_g else f'OP_SIGN refuses some messages (`{bad_g[0]}`) that OP_CHECK_SIG and OP_GET_MESSAGE accept: '
              f'sign-then-check no longer succeeds for every flag value (e.g. flags that mask every sigfield present)')
    # OP_SIGN appends exactly the flag byte iff non-zero
    ok = False
    fv = _flag_vars_from_tape(w, sg)
    for n in ast.walk(sg.node):
        if isinstance(n, ast.IfExp) and isinstance(n.test, ast.Name) and n.test.id in fv:
            # <sigvar> + <flag>.to_bytes(1, 'big') if <flag> else <sigvar>   (whatever the local is called)
            b, o = n.body, n.orelse
            if isinstance(o, ast.Name) and isinstance(b, ast.BinOp) and isinstance(b.op, ast.Add) and \
                    isinstance(b.left, ast.Name) and b.left.id == o.id and isinstance(b.right, ast.Call) and \
                    isinstance(b.right.func, ast.Attribute) and b.right.func.attr == 'to_bytes' and \
                    isinstance(b.right.func.value, ast.Name) and b.right.func.value.id in fv and \
                    [getattr(a, 'value', None) for a in b.right.args] == [1, 'big'] and not b.right.keywords:
                ok = True
    # the same as a statement: `if <flag>: <sigvar> += <flag>.to_bytes(1, 'big')`
    for n in ast.walk(sg.node):
        if isinstance(n, ast.If) and isinstance(n.test, ast.Name) and n.test.id in fv and not n.orelse and len(n.body) == 1:
            b = n.body[0]
            val = None
            if isinstance(b, ast.AugAssign) and isinstance(b.op, ast.Add) and isinstance(b.target, ast.Name):
                val = b.value
            elif isinstance(b, ast.Assign) and len(b.targets) == 1 and isinstance(b.targets[0], ast.Name) and \
                    isinstance(b.value, ast.BinOp) and isinstance(b.value.op, ast.Add) and \
                    isinstance(b.value.left, ast.Name) and b.value.left.id == b.targets[0].id:
                val = b.value.right
            if isinstance(val, ast.Call) and isinstance(val.func, ast.Attribute) and val.func.attr == 'to_bytes' and \
                    isinstance(val.func.value, ast.Name) and val.func.value.id in fv and \
                    [getattr(a, 'value', None) for a in val.args] == [1, 'big'] and not val.keywords:
                ok = True
    rep.check('C02.R3', f'functions.{sg.name}|flag-byte-appended-iff-nonzero', ok, line=sg.node.lineno, file=REL,
              why='' if ok else 'OP_SIGN does not append exactly its flag byte when (and only when) it is non-zero')
    # CHECK_SIG strips exactly the trailing byte when 65 long
    ok = False
    for n in ast.walk(cs.node):
        if isinstance(n, ast.Assign):
            for sv_ in {x.id for x in ast.walk(n.value) if isinstance(x, ast.Name)}:
                vals = _value_by_length(n.value, sv_, (64, 65))
                if vals is not None and vals[64] == bytes(range(64)) and vals[65] == bytes(range(64)):
                    ok = True
    rep.check('C02.R3', f'functions.{cs.name}|strip-flag-byte', ok, line=cs.node.lineno, file=REL,
              why='' if ok else 'the 64-byte signature handed to verify is not `sig` / `sig[:-1]`')

    # ---- R4 -------------------------------------------------------------------
    for h, sig_lens in ((cs, (64, 65)), (css, (64,))):
        cfgh = w.cfg(h)
        vnodes = cfgh.nodes_with_call(lambda c: isinstance(c.func, ast.Attribute) and c.func.attr == 'verify')
        if not vnodes:
            raise AnalysisError(f'{h.name}: verify call vanished')
        # names of the key and the signature: arguments of VerifyKey(..) / verify(msg, sig)
        for what, lens in (('key', (32,)), ('signature', sig_lens)):
            ok = False
            detail = ''
            for t in cfgh.nodes:
                if t.kind != 'test':
                    continue
                al = _accepted_lengths(t.ast)
                got = (al[0], tuple(sorted(al[1]))) if al is not None else None
                if got is None or got[1] != tuple(sorted(lens)):
                    continue
                var = got[0]
                is_key = var.lower().startswith(('vkey', 'key', 'pub'))
                if (what == 'key') != is_key:
                    continue
                edges = [(t, s, lab) for s, lab in t.succ if lab is True]
                # stack items are bytes (Stack.put's type guard, C07.R1): the `type(x) is bytes` false
                # edge and the `type(x) is VerifyKey` true edge are infeasible for popped items
                infeasible = []
                for t2 in cfgh.nodes:
                    if t2.kind == 'test':
                        tt = ast.unparse(t2.ast).replace(' ', '')
                        if re.fullmatch(r'type\(\w+\)isbytes', tt):
                            infeasible += [(t2, s2, l2) for s2, l2 in t2.succ if l2 is False]
                        if re.fullmatch(r'type\(\w+\)isVerifyKey', tt):
                            infeasible += [(t2, s2, l2) for s2, l2 in t2.succ if l2 is True]
                if all(cfgh.must_pass(cfgh.entry, vn, through_edges=edges + infeasible) for vn, _ in vnodes):
                    ok = True
            rep.check('C02.R4', f'functions.{h.name}|{what}-length-guard', ok, line=h.node.lineno, file=REL,
                      why='' if ok else f'verification is not dominated by a guard len({what}) in {lens}')

    # ---- R5 -------------------------------------------------------------------
    for h in (cs, css):
        ok, why = _verdict_paths(w, h)
        rep.check('C02.R5', f'functions.{h.name}|result-mapping', ok, line=h.node.lineno, file=REL, why=why)
        # verify is applied to (message, signature) in that order with the checked key
        vn = [n for n in ast.walk(h.node) if isinstance(n, ast.Call) and isinstance(n.func, ast.Attribute)
              and n.func.attr == 'verify']
        ok = len(vn) == 1 and len(vn[0].args) == 2
        if ok:
            a0, a1 = (ast.unparse(a) for a in vn[0].args)
            ok = a0.startswith(('message', 'msg')) and a1.startswith('sig')
        rep.check('C02.R5', f'functions.{h.name}|verify-arguments', ok, line=h.node.lineno, file=REL,
                  why='' if ok else 'verify is not called as verify(message, signature)')

    # ---- R7 -------------------------------------------------------------------
    sw3 = SymWalk(ct.node)
    fv = _flag_vars_from_tape(w, ct)
    cachec = ct.params[2]
    loads = []
    for e in sw3.events:
        if e.kind == 'assign' and isinstance(e.expr, ast.Subscript) and isinstance(e.expr.value, ast.Name) \
                and e.expr.value.id == cachec:
            k = _field_key(e.expr.slice)
            if k is not None:
                loads.append((k, e))
    seen = []
    for k, e in loads:
        seen.append(k)
        masks = []
        for t, pol in e.guards:
            for a, p in (atoms_of(t, pol) or []):
                m = mask_of(a, fv)
                if m is not None and p:
                    masks.append(m[1])
        ok = masks == [1 << (k - 1)]
        rep.check('C02.R7', f'functions.{ct.name}|field|sigfield{k}', ok, line=ct.node.lineno, file=REL,
                  why='' if ok else f'sigfield{k} is compared against its template when flag bit(s) '
                  f'{[hex(m) for m in masks]} are set; expected {1 << (k - 1):#04x}')
    ok = seen == list(range(1, 9))
    rep.check('C02.R7', f'functions.{ct.name}|order-and-coverage', ok, line=ct.node.lineno, file=REL,
              why='' if ok else f'template fields are consumed in order {seen}; expected 1..8 ascending')
    rep.explanation = (
        'Decides the flag-table clauses of C02 that a sampled test cannot (an error confined to one bit passes '
        'the suite): the bit<->field bijection of the message builder and of the template check (constant loops '
        'unrolled, locals substituted, so an if-chain and a loop are the same table), the per-bit subset check '
        'of the allowed-flags operand, that sign and check obtain the message from the one builder with the '
        'right flag byte, length guards dominating verification, and the result mapping. Ed25519 validity '
        'itself (PyNaCl is the trusted base) and "any change to a covered field makes the check fail" are not '
        'decided.')
    rep.trusted_base = ['CPython ast', 'tsa analyser', 'PyNaCl verify/sign', 'nacl.bindings length constants 32/64']
    # plugin-exactly-once is decided in C09.R4


def _nacl_consts(t: str):
    return NACL_CONST.get(t, _sw_consts(t))


def _sw_consts(t: str):
    from . import symwalk as _sw
    c = _sw.DEFAULT_CONSTS[0]
    return c(t) if c is not None else None


def _accepted_lengths(test: ast.AST, upto: int = 80):
    """(variable, set of byte lengths L for which the test can hold) for a test that constrains the length of one
    name - whatever the spelling (`len(x) == 64`, `len(x) in (64, 65)`, `64 <= len(x) <= 65`, `len(x) - 64 in (0, 1)`).
    Conjuncts that speak about something else (type tests) are left out.  None if no conjunct constrains a length."""
    from .feval import feval, Unknown
    atoms = atoms_of(test, True)
    if atoms is None:
        atoms = [(test, True)]
    var = None
    for a, _ in atoms:
        for n in ast.walk(a):
            if isinstance(n, ast.Call) and isinstance(n.func, ast.Name) and n.func.id == 'len' and n.args and \
                    isinstance(n.args[0], ast.Name):
                var = var or n.args[0].id
    if var is None:
        return None
    ok = set()
    used = False
    for L in range(upto + 1):
        good = True
        for a, pol in atoms:
            try:
                v = bool(feval(a, {var: bytes(L)}, _nacl_consts))
            except Unknown:
                continue
            used = True
            if v != pol:
                good = False
                break
        if good:
            ok.add(L)
    if not used:
        return None
    return var, ok


def _value_by_length(e: ast.AST, var: str, lengths):
    """{L: value of e} with `var` bound to the bytes 0,1,2,...,L-1 (so positions are recognisable); None if unknown."""
    from .feval import feval, Unknown
    out = {}
    for L in lengths:
        try:
            out[L] = feval(e, {var: bytes(range(L))}, _nacl_consts)
        except Unknown:
            return None
    return out


def _resolve_txt(txt: str) -> str:
    for k, v in NACL_CONST.items():
        txt = txt.replace(k, str(v))
    return txt


def _flag_vars_from_tape(w: World, fi) -> set[str]:
    """Locals assigned the unsigned decode of a one-byte read of the handler's own tape."""
    cfg = w.cfg(fi)
    kinds = w.kinds(fi)
    out = set()
    for n in cfg.nodes:
        if n.kind == 'stmt' and isinstance(n.ast, ast.Assign) and len(n.ast.targets) == 1 and \
                isinstance(n.ast.targets[0], ast.Name):
            k = kinds.of(n.ast.value, n)
            if k.tag == 'uint' and k.src.tag == 'tape_read' and k.src.size.tag == 'const' and k.src.size.value == 1 \
                    and k.src.tape.tag == 'param':
                out.add(n.ast.targets[0].id)
            if k.tag == 'index' and k.src.tag == 'tape_read' and k.src.size.tag == 'const' and k.src.size.value == 1:
                out.add(n.ast.targets[0].id)
    return out


def _subset_semantics(sw, sigflag_vars, allow_vars):
    """F(v, a) -> True / False / None: do all guards of the walk that mention the signature-flag or the allowed-flags
    variable pass for signature flag v and allowed operand a?  None when a guard cannot be evaluated."""
    from .feval import feval, Unknown, free_names
    from . import symwalk as _sw
    sv, av = next(iter(sigflag_vars)), next(iter(allow_vars))
    consts = _sw.DEFAULT_CONSTS[0]
    # locals that are plain constants (mask tables and the like)
    base = {}
    for e in sw.events:
        if e.kind == 'assign' and e.target and e.target not in (sv, av) and e.expr is not None:
            try:
                base[e.target] = feval(e.expr, dict(base), consts)
            except Unknown:
                base.pop(e.target, None)
    clauses = [(e.guards, e.expr) for e in sw.events if e.kind == 'guard' and (free_names(e.expr) & {sv, av})]
    if not clauses:
        return None
    memo = {}

    def F(v, a):
        if (v, a) in memo:
            return memo[(v, a)]
        env = dict(base)
        env.update({sv: v, av: a})
        res = True
        for pcs, cond in clauses:
            taken = True
            for t, pol in pcs:
                try:
                    if bool(feval(t, dict(env), consts)) != pol:
                        taken = False
                        break
                except Unknown:
                    continue            # a condition about something else: consider the path taken
            if not taken:
                continue
            try:
                if not feval(cond, dict(env), consts):
                    res = False
                    break
            except Unknown:
                res = None
                break
        memo[(v, a)] = res
        return res
    # usable only if it evaluates at all
    if F(0, 0) is None or F(1, 0) is None or F(0x80, 0xFF) is None:
        return None
    return F


def _single_subset_guard(sw, cfg, sigflag_vars, allow_vars) -> bool:
    """sert(sig_flag & ~allowable == 0) style."""
    for e in sw.events:
        if e.kind == 'guard':
            t = ast.unparse(e.expr).replace(' ', '')
            for s in sigflag_vars:
                for a in allow_vars:
                    if t in (f'{s}&~{a}==0', f'not{s}&~{a}', f'{s}&{a}=={s}', f'({s}&~{a})==0'):
                        return True
    return False


def _has_verify(st) -> bool:
    return any(isinstance(n, ast.Call) and isinstance(n.func, ast.Attribute) and n.func.attr == 'verify'
               for n in ast.walk(st))


def _puts(w: World, h, st):
    """Constant put on the stack by statement st (stack.put(const) or OP_TRUE/OP_FALSE call)."""
    if not (isinstance(st, ast.Expr) and isinstance(st.value, ast.Call)):
        return None
    c = st.value
    if dotted(c.func) == f'{h.params[1]}.put' and c.args and isinstance(c.args[0], ast.Constant):
        return c.args[0].value
    if isinstance(c.func, ast.Name):
        ops = w.op_of_handler.get(c.func.id, [])
        if 'OP_TRUE' in ops:
            return b'\xff'
        if 'OP_FALSE' in ops:
            return b'\x00'
    return None


# ---------------------------------------------------------------------------
# R5: verdict on every path after verify
# ---------------------------------------------------------------------------
_T, _F, _MSG, _UNK = 'true', 'false', 'verify-result', 'unknown'


def _verdict_paths(w: World, h):
    """Path-sensitive reading of the handler after its `verify` call: on every path on which verify
    returned the true constant is put, on every path on which it raised the false constant is put,
    and no branch in between depends on the *value* verify returned (the signed message - empty
    messages are falsy)."""
    cfg = w.cfg(h)
    stack = h.params[1]
    vns = cfg.nodes_with_call(lambda c: isinstance(c.func, ast.Attribute) and c.func.attr == 'verify')
    if len(vns) != 1:
        return False, f'{len(vns)} verify calls (expected one)'
    vn, vcall = vns[0]
    in_try = any(lab == 'exc' for _, lab in vn.succ)
    if not in_try:
        return False, 'a failing verification is not caught: a bad signature raises instead of yielding false'

    def const_val(e):
        if isinstance(e, ast.Constant):
            if e.value is None or e.value is False or e.value == b'' or e.value == 0 or e.value == '':
                return _F
            return _T
        return None

    def value_of(e, env):
        c = const_val(e)
        if c:
            return c
        if e is vcall or (isinstance(e, ast.Call) and e is vcall):
            return _MSG
        if isinstance(e, ast.Name):
            return env.get(e.id, _UNK)
        if isinstance(e, ast.Call) and any(x is vcall for x in ast.walk(e)):
            return _UNK
        return _UNK

    def truth(e, env):
        """(truth value or None, problem)"""
        if isinstance(e, ast.UnaryOp) and isinstance(e.op, ast.Not):
            t, pr = truth(e.operand, env)
            return (None if t is None else (not t)), pr
        if isinstance(e, ast.Compare) and len(e.ops) == 1 and isinstance(e.ops[0], (ast.Is, ast.IsNot)) and \
                isinstance(e.comparators[0], ast.Constant) and e.comparators[0].value is None:
            v = value_of(e.left, env)
            if v == _MSG or v == _T:
                r = False
            elif v == _F and isinstance(e.left, ast.Name) and env.get(e.left.id + '#none'):
                r = True
            else:
                return None, ''
            return (r if isinstance(e.ops[0], ast.Is) else not r), ''
        v = value_of(e, env)
        if v == _T:
            return True, ''
        if v == _F:
            return False, ''
        if v == _MSG:
            return None, ('the verdict branches on the truthiness of what verify() returned (the signed message): a '
                          'valid signature over an empty message would yield false')
        return None, ''

    problems = []
    npaths = [0]

    def walk(n, env, raised, verdict, depth, seen):
        if depth > 200 or npaths[0] > 4000:
            problems.append('too many paths after verify')
            return
        if n.kind in ('exit',):
            npaths[0] += 1
            if verdict is None:
                problems.append('a path after verify ends without putting a verdict')
            elif verdict == _T and raised:
                problems.append('the true constant is put on a path on which verify raised')
            elif verdict == _F and not raised:
                problems.append('the false constant is put on the fall-through of verify (a valid signature yields false)')
            return
        if n.kind == 'raise':
            return
        env = dict(env)
        a = n.ast
        if n is not vn and n.kind == 'stmt' and isinstance(a, ast.Assign) and len(a.targets) == 1 and \
                isinstance(a.targets[0], ast.Name):
            v = value_of(a.value, env)
            env[a.targets[0].id] = v
            env[a.targets[0].id + '#none'] = isinstance(a.value, ast.Constant) and a.value.value is None
        if n.kind == 'stmt' and isinstance(a, ast.Expr) and isinstance(a.value, ast.Call):
            c = a.value
            pv = None
            if dotted(c.func) == f'{stack}.put' and c.args:
                pv = c.args[0]
                if isinstance(pv, ast.Constant) and pv.value == b'\xff':
                    verdict = _T
                elif isinstance(pv, ast.Constant) and pv.value == b'\x00':
                    verdict = _F
                else:
                    problems.append(f'a value other than the true/false constants is put after verify: `{ast.unparse(pv)[:40]}`')
            elif isinstance(c.func, ast.Name):
                ops = w.op_of_handler.get(c.func.id, [])
                if 'OP_TRUE' in ops:
                    verdict = _T
                elif 'OP_FALSE' in ops:
                    verdict = _F
        succs = list(n.succ)
        if n is vn:
            # the assignment of verify's result happens only on the normal edge
            for s2, lab in succs:
                e2 = dict(env)
                if lab == 'exc':
                    walk(s2, e2, True, verdict, depth + 1, seen)
                else:
                    if isinstance(a, ast.Assign) and len(a.targets) == 1 and isinstance(a.targets[0], ast.Name):
                        e2[a.targets[0].id] = _MSG if a.value is vcall else _UNK
                    walk(s2, e2, raised, verdict, depth + 1, seen)
            return
        if n.kind == 'test':
            t, pr = truth(a, env)
            if pr:
                problems.append(pr)
            for s2, lab in succs:
                if lab == 'exc':
                    continue
                if t is not None and lab in (True, False) and lab is not t:
                    continue
                walk(s2, env, raised, verdict, depth + 1, seen)
            return
        for s2, lab in succs:
            if lab == 'exc':
                continue        # other raising statements after verify end the script with an error
            walk(s2, env, raised, verdict, depth + 1, seen)

    walk(vn, {}, False, None, 0, set())
    if npaths[0] == 0 and not problems:
        problems.append('no path from verify to the end of the handler')
    return (not problems), (problems[0] if problems else '')
